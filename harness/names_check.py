"""Check of property C17 (engine `names`): proof re-check of Props/C17.v + correspondence of the
extracted Coq model (ocaml/_build/driver_names) with the real EdififyNames / ComposeEdif code on
sibling lists + the property's own oracle on the implementation (per scope, and end to end:
compose -> independent reading of the written identifiers -> sdn.parse) + corpus + shrinking +
violation search + evidence."""
import collections, json, os, random, subprocess, sys, time
sys.path.insert(0, os.path.dirname(os.path.abspath(__file__)))
import common
common.ensure_impl_python()
import names_world as W
import names_gen as G
import names_oracles as O

PROP = 'C17'
CORPUS_DIR = os.path.join(common.CORPUS, 'names')
LOCAL_FINDINGS = os.path.join(CORPUS_DIR, 'known_findings_C17.json')

BUDGET = {  # tier -> (random sibling lists, end-to-end netlists, kernel cross-check samples)
    'quick': (2500, 250, 6),
    'thorough': (260000, 12000, 40),
}


def slug(source):
    return ''.join(ch if (ch.isalnum() or ch in '-_') else '-' for ch in source.split(':')[0])[:40]


def open_findings():
    known = [k for k in common.load_known_findings(PROP) if k.get('status') == 'open']
    if os.path.exists(LOCAL_FINDINGS):
        for k in json.load(open(LOCAL_FINDINGS)).get('findings', []):
            if k.get('property') == PROP and k.get('status') == 'open' and \
                    not any(k.get('signature') == x.get('signature') for x in known):
                known.append(k)
    return {k['signature']: k for k in known}


def ensure_driver():
    """(re)build ocaml/_build/driver_names when it is missing or older than its sources"""
    src = os.path.join(common.ROOT, 'ocaml', 'driver_names.ml')
    ml = os.path.join(common.COQ, 'names_model.ml')
    if not os.path.exists(ml):
        subprocess.run(['timeout', '300', 'coqc', '-R', 'theories', 'SV', 'theories/Extract/ExtractNames.v'],
                       cwd=common.COQ, capture_output=True, text=True)
    exe = W.DRIVER
    if os.path.exists(exe) and os.path.getmtime(exe) >= max(os.path.getmtime(src), os.path.getmtime(ml) if os.path.exists(ml) else 0):
        return True, ''
    os.makedirs(common.OCAML_BUILD, exist_ok=True)
    cmd = 'cp %s %si . && cp %s . && ocamlfind ocamlopt -w -a names_model.mli names_model.ml driver_names.ml -o driver_names' % (ml, ml, src)
    r = subprocess.run(cmd, shell=True, cwd=common.OCAML_BUILD, capture_output=True, text=True)
    return r.returncode == 0 and os.path.exists(exe), (r.stdout + r.stderr)[-1500:]


# ------------------------------------------------------------------------------------------------
# one sibling list on both sides

def run_impl_case(kind, sibs):
    """-> (answer line, failures of the scope oracle on the implementation's result)"""
    line, objs = W.impl_assign(kind, sibs)
    fails = []
    if line.startswith('ok'):
        fails = O.judge_scope([s[0] for s in sibs], [s[1] for s in sibs],
                              [o.data.get('EDIF.identifier') for o in objs],
                              [o.data.get('EDIF.rename') is True for o in objs])
    elif line == 'index' and any(s[0] == '' and s[1] is None for s in sibs):
        pass  # an empty name is outside the property's domain; the code raises IndexError, the model says `index`
    else:
        fails = [{'sig': 'assignment-raises|' + line}]
    return line, fails


def model_flags_consistent(model_line, impl_fails, sibs):
    """the booleans computed by the MODEL's own oracle (c17_ok of Edifify.v) on the model's result
    must agree with the Python oracle on the implementation's result whenever the results agree"""
    a, flags = W.split_assign_answer(model_line)
    if not flags or any(s[1] is not None for s in sibs):
        return True
    py_legal = not any(f['sig'].startswith('illegal') for f in impl_fails)
    py_dist = not any(f['sig'].startswith('collision') for f in impl_fails)
    return (flags.get('legal') == '1') == py_legal and (flags.get('distinct') == '1') == py_dist


def shrink_sibs(sibs, still_bad, budget=200):
    """greedy: drop siblings, then shorten / simplify names, while `still_bad` holds"""
    cur = [tuple(s) for s in sibs]
    steps = 0
    changed = True
    while changed and steps < budget:
        changed = False
        for i in range(len(cur)):
            cand = cur[:i] + cur[i + 1:]
            steps += 1
            if cand and still_bad(cand):
                cur = cand
                changed = True
                break
        if changed:
            continue
        for i, (n, p, r) in enumerate(cur):
            opts = []
            if len(n) > 1:
                opts += [n[:len(n) // 2], n[len(n) // 2:], n[1:], n[:-1]]
            if p is not None:
                opts_p = [(n, None, r)]
            else:
                opts_p = []
            for c in [(o, p, r) for o in opts if o] + opts_p:
                cand = cur[:i] + [c] + cur[i + 1:]
                steps += 1
                if still_bad(cand):
                    cur = cand
                    changed = True
                    break
            if changed:
                break
    return [list(s) for s in cur]


def neighbours(sibs, rng):
    """variations of a sibling list, for the search of a property failure near a disagreement"""
    out = [sibs]
    for i, (n, p, r) in enumerate(sibs):
        for v in (n.lower(), n.upper(), n.swapcase(), n + '_sdn_1_', n[:255], n[:256], '1' + n, n.replace('_', '-')):
            if v and v != n:
                out.append(sibs[:i] + [[v, p, r]] + sibs[i + 1:])
        out.append(sibs + [[n, None, False]])
        out.append(sibs + [[n.lower() + '_sdn_1_', None, False]])
        out.append([[n.swapcase(), None, False]] + sibs)
    rng.shuffle(out)
    return out[:60]


# ------------------------------------------------------------------------------------------------

class Run:
    def __init__(self, tier, seed):
        self.tier, self.seed = tier, seed
        self.rep = common.Reporter(PROP)
        self.known = open_findings()
        self.known_hits = collections.Counter()
        self.known_example = {}
        self.hist = collections.Counter()
        self.sig_hist = collections.Counter()
        self.n_cases = self.n_idents = self.n_disagree = self.n_oracle_fail = self.n_e2e = 0
        self.distinct = set()
        self.samples = []
        self.reported = 0

    # -- failures of the property on the implementation
    def report_failures(self, source, replay_obj, fails, still_bad=None):
        unknown = [f for f in fails if f['sig'] not in self.known]
        for f in fails:
            self.sig_hist[f['sig']] += 1
            if f['sig'] in self.known:
                self.known_hits[f['sig']] += 1
                self.known_example.setdefault(f['sig'], replay_obj)
        if not unknown:
            return
        self.n_oracle_fail += 1
        if self.reported >= 5:
            return
        self.reported += 1
        obj = dict(replay_obj)
        if still_bad is not None and obj.get('kind') == 'assign':
            sig = unknown[0]['sig']
            obj['sibs'] = shrink_sibs(obj['sibs'], lambda c: any(f['sig'] == sig for f in run_impl_case(obj['objkind'], c)[1]))
            unknown = [f for f in run_impl_case(obj['objkind'], [tuple(s) for s in obj['sibs']])[1] if f['sig'] not in self.known] or unknown
        obj.update({'property': PROP, 'engine': 'names', 'failure': 'property-violation-on-implementation',
                    'source': source, 'oracle': unknown[:3], 'replay': 'checks/run C17 --replay <this file>'})
        self.rep.violation('%s-%s' % (slug(source), common.sha(json.dumps(obj, sort_keys=True, default=str))), obj)

    # -- model and implementation disagree
    def report_disagreement(self, source, kind, sibs, impl_line, model_line):
        self.n_disagree += 1
        if self.reported >= 5:
            return
        self.reported += 1

        def disagrees(c):
            try:
                a = run_impl_case(kind, c)[0]
                b = W.split_assign_answer(W.run_model([W.req_assign(c)])[0])[0]
                return a != b
            except Exception:  # noqa
                return False
        short = shrink_sibs(sibs, disagrees)
        a = run_impl_case(kind, [tuple(s) for s in short])[0]
        b = W.split_assign_answer(W.run_model([W.req_assign([tuple(s) for s in short])])[0])[0]
        rng = random.Random('%d/names/search/%s' % (self.seed, common.sha(json.dumps(short))))
        found = None
        for cand in neighbours(short, rng):
            try:
                fails = [f for f in run_impl_case(kind, [tuple(s) for s in cand])[1] if f['sig'] not in self.known]
            except Exception:  # noqa
                continue
            if fails:
                found = (cand, fails)
                break
        corr = {'sibs': short, 'implementation': a, 'model': b,
                'what': 'coq/theories/Names/Edifify.v (theorems of Props/C17.v) and spydrnet/composers/edif/edifify_names.py + composer.py::_add_rename_property disagree'}
        if found:
            self.rep.violation('%s-%s' % (slug(source), common.sha(json.dumps(found[0]))),
                               {'property': PROP, 'engine': 'names', 'kind': 'assign', 'objkind': kind, 'sibs': found[0],
                                'failure': 'property-violation-on-implementation', 'oracle': found[1][:3], 'source': source,
                                'correspondence': corr})
        else:
            self.rep.violation('%s-%s' % (slug(source), common.sha(json.dumps(short))),
                               {'property': PROP, 'engine': 'names', 'kind': 'assign', 'objkind': kind, 'sibs': short,
                                'failure': 'correspondence-broken', 'source': source, 'correspondence': corr},
                               found_input=False)

    # -- a batch of sibling lists through both sides
    def run_assign_batch(self, cases):
        """cases = [(label, objkind, sibs)]"""
        reqs = [W.req_assign(s) for _, _, s in cases]
        model = W.run_model(reqs)
        for (label, kind, sibs), mline in zip(cases, model):
            self.n_cases += 1
            self.hist['cases/' + label] += 1
            self.hist['siblings/%d' % len(sibs)] += 1
            self.hist['kind/' + kind] += 1
            longest = max([len(s[0]) for s in sibs] or [0])
            self.hist['longest-name/' + ('<=3' if longest <= 3 else '<=16' if longest <= 16 else '<=247' if longest <= 247
                                          else '248..255' if longest <= 255 else '256..264' if longest <= 264 else '>264')] += 1
            iline, fails = run_impl_case(kind, sibs)
            self.hist['outcome/' + iline.split(' ')[0]] += 1
            m_ans, _ = W.split_assign_answer(mline)
            if iline.startswith('ok'):
                toks = iline.split(' ')[1:]
                ids = toks[0::2]
                self.n_idents += len(ids)
                if any(W.tok(s[0]) != t for s, t in zip(sibs, ids)):
                    self.distinct.add(common.sha(repr(sibs)))
                    self.hist['nontrivial(some identifier differs from its name)'] += 1
            replay_obj = {'kind': 'assign', 'objkind': kind, 'sibs': [list(s) for s in sibs]}
            if iline != m_ans:
                self.report_disagreement(label, kind, [list(s) for s in sibs], iline, m_ans)
                continue
            if not model_flags_consistent(mline, fails, sibs):
                self.report_failures(label + ':model-oracle-differs-from-python-oracle', replay_obj,
                                     [{'sig': 'oracle-mismatch|coq c17_ok vs names_oracles.judge_scope', 'model': mline[-40:], 'python': [f['sig'] for f in fails]}])
            if fails:
                self.report_failures(label, replay_obj, fails, still_bad=True)
            if len(self.samples) < 4 and len(sibs) >= 2 and longest <= 12 and self.n_cases % 997 == 3:
                self.samples.append({'sibs': [list(s) for s in sibs], 'implementation': iline, 'model': m_ans})

    def run_make_valid_batch(self, cases):
        """single make_valid calls, also for an object that is NOT a member of the list (the
        netlist / top-instance calls pass an empty list)"""
        reqs = [W.req_make_valid(s, i, nm) for _, s, i, nm in cases]
        model = W.run_model(reqs)
        for (kind, sibs, i, nm), mline in zip(cases, model):
            self.n_cases += 1
            self.hist['cases/make_valid'] += 1
            iline = W.impl_make_valid(kind, sibs, i, nm)
            if iline != mline:
                self.n_disagree += 1
                if self.reported < 5:
                    self.reported += 1
                    self.rep.violation('make_valid-%s' % common.sha(repr((sibs, i, nm))),
                                       {'property': PROP, 'engine': 'names', 'kind': 'make_valid', 'objkind': kind,
                                        'sibs': [list(s) for s in sibs], 'i': i, 'name': nm,
                                        'failure': 'correspondence-broken', 'implementation': iline, 'model': mline},
                                       found_input=False)

    def run_e2e(self, label, spec):
        self.n_e2e += 1
        self.hist['cases/e2e-' + label] += 1
        try:
            fails, stats = O.e2e(spec)
        except Exception as e:  # noqa
            fails, stats = [{'sig': 'oracle-crashed|%s' % type(e).__name__, 'text': str(e)[:300]}], {}
        self.n_idents += stats.get('identifiers', 0)
        self.hist['e2e/identifiers'] += stats.get('identifiers', 0)
        self.hist['e2e/renamed'] += stats.get('renamed', 0)
        self.hist['e2e/scopes'] += stats.get('scopes', 0)
        if stats.get('reparse_failed_after_reported_failure'):
            self.hist['e2e/reparse failed (consequence of a reported identifier failure)'] += 1
        self.hist['e2e/' + ('benign' if spec.get('benign') else 'wild') + ' netlists'] += 1
        if not fails:
            self.hist['e2e/clean round trip'] += 1
            if stats.get('renamed', 0) > 0:
                self.distinct.add(common.sha(json.dumps(spec, sort_keys=True)))
        else:
            self.report_failures('e2e-' + label, {'kind': 'e2e', 'spec': spec}, fails)
        return fails


def kernel_crosscheck(cases, model_answers):
    """extraction cross-check: the same cases evaluated by the Coq kernel (vm_compute inside coqc)
    must give the answers of the extracted binary"""
    def coq_str(s):
        return '[' + '; '.join('%d%%N' % ord(c) for c in s) + ']'

    def coq_sib(n, i, r):
        return '(mkSib %s %s %s)' % (coq_str(n), 'None' if i is None else '(Some %s)' % coq_str(i), 'true' if r else 'false')
    lines = ['From Coq Require Import List NArith.', 'From SV Require Import Base.Base IR.State IR.NS Names.Edifify.',
             'Import ListNotations.']
    k = 0
    for sibs, ans in zip(cases, model_answers):
        a, _ = W.split_assign_answer(ans)
        if a.startswith('ok'):
            toks = a.split(' ')[1:]
            outs = []
            for (n, i, r), idt, rt in zip(sibs, toks[0::2], toks[1::2]):
                outs.append(coq_sib(n, W.untok(idt), rt == '1'))
            rhs = 'Ok [%s]' % '; '.join(outs)
        elif a == 'index':
            rhs = 'IndexError'
        else:
            rhs = 'OutOfFuel'
        lines.append('Example x%d : assign_all [%s] = %s. Proof. vm_compute. reflexivity. Qed.' % (
            k, '; '.join(coq_sib(*s) for s in sibs), rhs))
        k += 1
    d = os.path.join('/tmp', 'names-kernel-%d' % os.getpid())
    os.makedirs(d, exist_ok=True)
    try:
        path = os.path.join(d, 'NamesKernelCheck.v')
        open(path, 'w').write('\n'.join(lines) + '\n')
        r = subprocess.run(['timeout', '300', 'coqc', '-R', os.path.join(common.COQ, 'theories'), 'SV', path],
                           cwd=d, capture_output=True, text=True)
        return r.returncode == 0, (r.stdout + r.stderr)[-800:]
    finally:
        import shutil
        shutil.rmtree(d, ignore_errors=True)


def load_corpus():
    out = []
    if os.path.isdir(CORPUS_DIR):
        for fn in sorted(os.listdir(CORPUS_DIR)):
            if fn.endswith('.json') and not fn.startswith('known_findings'):
                out.append((fn, json.load(open(os.path.join(CORPUS_DIR, fn)))))
    return out


def run(prop, tier, seed, replay):
    assert prop == PROP
    if replay:
        return replay_file(replay)
    t0 = time.time()
    R = Run(tier, seed)
    proof = common.check_props_file(PROP)
    drv_ok, drv_log = ensure_driver()
    if not proof['ok'] or 'Axioms:' in proof['assumptions'] or not drv_ok:
        R.rep.violation('proof', {'kind': 'proof-obligation', 'theorem_file': 'coq/theories/Props/C17.v',
                                  'coqc_output': proof['assumptions'][-1500:], 'driver_built': drv_ok, 'driver_log': drv_log},
                        found_input=False)
        if not drv_ok:
            return R.rep.exit_code()
    n_random, n_e2e, n_kernel = BUDGET[tier]

    # 1. corpus: minimised witnesses and regressions; each must still behave as recorded
    corpus = load_corpus()
    for fn, obj in corpus:
        expect = set(obj.get('expect_signatures', []))
        if obj['kind'] == 'assign':
            sibs = [tuple(s) for s in obj['sibs']]
            before = R.n_disagree
            R.run_assign_batch([('corpus:' + fn, obj.get('objkind', 'instance'), sibs)])
            got = set(f['sig'] for f in run_impl_case(obj.get('objkind', 'instance'), sibs)[1])
        else:
            got = set(f['sig'] for f in R.run_e2e('corpus:' + fn, obj['spec']))
        R.hist['corpus/' + ('as recorded' if got == expect else 'CHANGED')] += 1
        if got != expect:
            R.hist['corpus-changed/' + fn] += 1
            print('note: corpus case %s now gives %s (recorded %s)' % (fn, sorted(got), sorted(expect)), flush=True)

    # 2. correspondence + scope oracle: exhaustive small spaces
    ex = G.exhaustive_cases(tier)
    kinds = W.KINDS
    R.run_assign_batch([(lab, kinds[k % len(kinds)], [tuple(s) for s in sibs]) for k, (lab, sibs) in enumerate(ex)])
    # 3. random long names around the 255/256 boundary
    rng = random.Random('%d/names/random' % seed)
    rnd = [('random-long', kinds[k % len(kinds)], [tuple(s) for s in G.random_case(rng)]) for k in range(n_random)]
    R.run_assign_batch(rnd)
    # 4. single make_valid calls, object not a member of the list / other positions
    rng = random.Random('%d/names/make_valid' % seed)
    mv = []
    for k in range(max(200, n_random // 10)):
        sibs = [tuple(s) for s in G.random_case(rng) if s[0] != '']
        mode = rng.random()
        if mode < 0.4 and sibs:
            i = rng.randrange(len(sibs))
            mv.append((kinds[k % len(kinds)], sibs, i, sibs[i][0]))
        else:
            mv.append((kinds[k % len(kinds)], sibs if mode < 0.8 else [], len(sibs) + 3, G.rand_name(rng)))
    R.run_make_valid_batch(mv)
    # 5. end to end on the implementation alone
    rng = random.Random('%d/names/e2e' % seed)
    for k in range(n_e2e):
        R.run_e2e('generated', G.e2e_spec(rng))
    # 6. extraction cross-checked by the kernel on a sample
    rng = random.Random('%d/names/kernel' % seed)
    pool = [s for _, s in ex if len(s) >= 2]
    sample = [[tuple(x) for x in rng.choice(pool)] for _ in range(n_kernel)] + [[('Ab', None, False), ('AB', None, False)], [('a' * 256, None, False)]]
    k_ok, k_log = kernel_crosscheck(sample, W.run_model([W.req_assign(s) for s in sample]))
    if not k_ok:
        R.rep.violation('kernel', {'kind': 'extraction-differs-from-kernel', 'log': k_log}, found_input=False)

    # known findings: one line per witness class, with the number of generated cases that hit it
    for sig, n in sorted(R.known_hits.items()):
        k = R.known[sig]
        R.rep.known_finding('%s: %s [signature %s; %d occurrences in this run]' % (k.get('id'), k.get('what'), sig, n))

    wall = time.time() - t0
    theorems = proof['theorems']
    closed = proof['assumptions'].count('Closed under the global context')
    coverage = {
        'obligations': len(theorems), 'discharged': len(theorems) if proof['ok'] else 0,
        'checker_cmd': proof['cmd'], 'theorems': theorems,
        'print_assumptions': '%d x "Closed under the global context"' % closed if 'Axioms:' not in proof['assumptions'] else proof['assumptions'][-2000:],
        'trusted_base': [
            'Coq 8.16.1 kernel (coqc); vm_compute only inside witnesses / Examples; no native_compute, no axioms',
            'extraction: ExtrOcamlBasic only; nat/N/positive extracted as inductives; cross-checked against vm_compute on %d sampled cases in this run (%s)' % (len(sample), 'agree' if k_ok else 'DISAGREE'),
            'ocaml/driver_names.ml (parsing of request lines, printing of answers)',
            'harness/names_world.py (builds real spydrnet elements, calls EdififyNames.make_valid and ComposeEdif._add_rename_property), names_gen.py, names_oracles.py (independent legality rule, independent S-expression reader of the written file)',
            'the model coq/theories/Names/Edifify.v is hand-written: tied to /repo only by the correspondence run reported here',
            'CPython 3.12 semantics of str slicing / re / int / str on ASCII',
        ],
        'programs': R.n_cases + R.n_e2e, 'disagreements_checked': R.n_cases, 'evaluations': R.n_idents,
        'distinct_nontrivial': len(R.distinct),
        'rule': 'a case is non-trivial when the writer had to change at least one name (identifier != name); distinct by hash of the sibling list / netlist spec; `evaluations` = identifiers judged by the oracle',
        'samples': R.samples or [{'note': 'no sample kept'}],
        'exhaustive': False, 'exhaustive_part': 'sibling pairs/triples over short names of the adversarial alphabet %s (see histogram cases/*); everything else sampled' % ''.join(G.ALPHABET),
        'histogram': dict(sorted(R.hist.items())),
        'failure_signatures': dict(sorted(R.sig_hist.items())),
        'known_findings_matched': dict(R.known_hits),
        'model_impl_disagreements': R.n_disagree, 'oracle_failures_unknown': R.n_oracle_fail,
        'end_to_end_netlists': R.n_e2e, 'corpus_cases': len(corpus),
    }
    assumptions = [
        'names are non-empty str over ASCII (code points < 128); str.isalpha/isalnum/lower are Unicode-aware, non-ASCII names are outside the model and outside the property\'s alphabet',
        'sibling objects are compared by identity (no __eq__ on Instance/Cable/Port/Definition/Library)',
        'default naming policy while the writer runs (any string accepted as EDIF.identifier)',
        'identifiers of the single nets of multi-wire cables are not modelled in Coq (end-to-end oracle only)',
        'open findings are read from known_findings.json and from corpus/names/known_findings_C17.json (engine-local until merged)',
    ]
    common.write_evidence(PROP, tier, seed, coverage, wall, len(R.rep.violations), assumptions)
    print('%s %s: %d sibling lists + %d netlists, %d identifiers judged, %d disagreements, %d unknown oracle failures, '
          '%d known-finding classes hit, proof %s (%d theorems), %.1fs' % (
              PROP, tier, R.n_cases, R.n_e2e, R.n_idents, R.n_disagree, R.n_oracle_fail, len(R.known_hits),
              'ok' if proof['ok'] else 'BROKEN', len(theorems), wall), flush=True)
    return R.rep.exit_code()


def replay_file(path):
    obj = json.load(open(path))
    known = open_findings()
    ensure_driver()
    bad = False
    if obj.get('kind') == 'assign':
        kind = obj.get('objkind', 'instance')
        sibs = [tuple(s) for s in obj['sibs']]
        iline, fails = run_impl_case(kind, sibs)
        mline = W.split_assign_answer(W.run_model([W.req_assign(sibs)])[0])[0]
        print(json.dumps({'implementation': iline, 'model': mline, 'agree': iline == mline,
                          'oracle_failures': fails}, indent=1, default=str))
        bad = iline != mline or any(f['sig'] not in known for f in fails)
    elif obj.get('kind') == 'make_valid':
        sibs = [tuple(s) for s in obj['sibs']]
        iline = W.impl_make_valid(obj.get('objkind', 'instance'), sibs, obj['i'], obj['name'])
        mline = W.run_model([W.req_make_valid(sibs, obj['i'], obj['name'])])[0]
        print(json.dumps({'implementation': iline, 'model': mline, 'agree': iline == mline}, indent=1))
        bad = iline != mline
    elif obj.get('kind') == 'e2e':
        fails, stats = O.e2e(obj['spec'])
        print(json.dumps({'oracle_failures': fails, 'stats': stats}, indent=1, default=str))
        bad = any(f['sig'] not in known for f in fails)
    else:
        proof = common.check_props_file(PROP)
        print(proof['assumptions'][-2000:])
        bad = not proof['ok']
    for f in (fails if obj.get('kind') in ('assign', 'e2e') else []):
        if f['sig'] in known:
            print('KNOWN-FINDING: property=%s %s: %s' % (PROP, known[f['sig']].get('id'), known[f['sig']].get('what')))
    if bad:
        print('VIOLATION property=%s replay=%s' % (PROP, path))
        return 1
    return 0


if __name__ == '__main__':
    tier = 'quick'
    rp = None
    a = sys.argv[1:]
    i = 0
    while i < len(a):
        if a[i] == '--tier':
            tier = a[i + 1]; i += 2
        elif a[i] == '--replay':
            rp = a[i + 1]; i += 2
        else:
            i += 1
    sys.exit(run(PROP, tier, common.seed_default(), rp))
