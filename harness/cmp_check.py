"""Check of property C20 (engine `cmp`): the netlist comparer accepts faithful copies and rejects
single structural differences.

  proof re-check of coq/theories/Props/C20.v
  + corpus (witnesses of the refutation lemmas, regressions) replayed on the real Comparer
  + correspondence: real Comparer(a, b).compare() vs extracted model cmp_run on the canonical
    value of both netlists, for (netlist, copy), (netlist, mutated copy), (mutated copy, netlist)
  + oracle, independent of the model: on named netlists an equal copy (rebuild / clone / EDIF
    write-then-read) is accepted, a copy whose siblings are listed in another order is accepted,
    (pins of wires included), and every mutation of a class the property lists - alone, after a
    reordering, or two at once - raises
  + Comparer.get_pin_key vs the model's pin_key on every pin of every wire of every netlist
  + kernel cross-check of the extracted code on a sample (thorough tier)
  + evidence."""
import collections, json, os, random, subprocess, sys, time, shutil, tempfile
sys.path.insert(0, os.path.dirname(os.path.abspath(__file__)))
import common

DRIVER = os.path.join(common.OCAML_BUILD, 'driver_cmp')
CORPUS_DIR = os.path.join(common.CORPUS, 'cmp')
LOCAL_FINDINGS = os.path.join(CORPUS_DIR, 'known_findings.json')
BUDGET = {'quick': 1500, 'thorough': 60000}


# ------------------------------------------------------------------ model side
def run_model(lines):
    if not lines:
        return []
    r = subprocess.run([DRIVER], input='\n'.join(lines) + '\n', capture_output=True, text=True)
    if r.returncode != 0:
        raise RuntimeError('model driver failed: ' + r.stderr[-2000:])
    out = [l for l in r.stdout.split('\n') if l != '']
    if len(out) != len(lines):
        raise RuntimeError('model driver answered %d of %d requests' % (len(out), len(lines)))
    res = []
    for l in out:
        f = l.split(' ')
        res.append({'outcome': f[0], 'wf': 'wf=1' in f, 'noasg': 'noasg=1' in f, 'raw': l})
    return res


def run_model_keys(lines):
    """request K: the model's pin_key of every pin on a wire -> list of token lists"""
    if not lines:
        return []
    r = subprocess.run([DRIVER], input='\n'.join(lines) + '\n', capture_output=True, text=True)
    if r.returncode != 0:
        raise RuntimeError('model driver failed: ' + r.stderr[-2000:])
    out = [l for l in r.stdout.split('\n') if l != '']
    if len(out) != len(lines):
        raise RuntimeError('model driver answered %d of %d key requests' % (len(out), len(lines)))
    return [l.split(' ')[1:] if l.startswith('keys') else ['driver:' + l] for l in out]


# ------------------------------------------------------------------ findings
def load_findings(prop):
    """open findings: the shared known_findings.json plus the engine-local list (the shared file
    is not ours to edit; the entries to move there are in corpus/cmp/known_findings.json).
    An entry present in both is one finding: its signatures are the union of the two lists."""
    fs = [dict(f) for f in common.load_known_findings(prop) if f.get('status') == 'open']
    by_id = {f['id']: f for f in fs}
    if os.path.exists(LOCAL_FINDINGS):
        for f in json.load(open(LOCAL_FINDINGS)).get('findings', []):
            if f.get('property') != prop or f.get('status') != 'open':
                continue
            g = by_id.get(f['id'])
            if g is None:
                fs.append(f)
                by_id[f['id']] = f
            else:
                a = g.get('signature')
                a = list(a) if isinstance(a, list) else [a]
                b = f.get('signature')
                b = b if isinstance(b, list) else [b]
                g['signature'] = a + [x for x in b if x not in a]
    return fs


def match_finding(findings, sig):
    """sig: one signature or a list of alternatives"""
    want = sig if isinstance(sig, list) else [sig]
    for f in findings:
        sigs = f.get('signature')
        sigs = sigs if isinstance(sigs, list) else [sigs]
        if any(w in sigs for w in want):
            return f
    return None


# ------------------------------------------------------------------ one case
def base_class(cls):
    return cls.split('+')[0]


def eval_case(case):
    """Executes a case on the implementation.
    -> list of pairs: dict(tag, cls, line (tokens of a and b), real, msg, canon_equal)"""
    import cmp_gen, cmp_canon
    pairs = []
    a = cmp_gen.build_netlist(case['build'])
    b = cmp_gen.make_copy(a, case['build'], case['copy'])
    ca = cmp_canon.canon(a)
    cb = cmp_canon.canon(b)
    # faithful = equal in everything but the lower index of ports (never read by the comparer,
    # not kept by EDIF)
    faithful = cmp_canon.canon(a, lower=False) == cmp_canon.canon(b, lower=False)
    keys = [('K ' + ' '.join(ca), cmp_canon.real_keys(a)), ('K ' + ' '.join(cb), cmp_canon.real_keys(b))]
    if case.get('pairs', 'all') in ('all', 'equal'):
        real, msg = cmp_canon.run_real(a, b)
        pairs.append({'tag': 'equal', 'cls': 'equal:' + case['copy'], 'line': ' '.join(ca + cb), 'real': real,
                      'msg': msg, 'canon_equal': faithful, 'rel': cmp_canon.relation(a, b)})
    if case.get('mutate'):
        cmp_gen.apply_mops(b, case['mutate'])
        cb2 = cmp_canon.canon(b)
        keys.append(('K ' + ' '.join(cb2), cmp_canon.real_keys(b)))
        cls = case['cls']
        rev = cmp_gen.rev_class(cls)
        if case.get('pairs', 'all') in ('all', 'ab'):
            real, msg = cmp_canon.run_real(a, b)
            pairs.append({'tag': 'ab', 'cls': cls, 'line': ' '.join(ca + cb2), 'real': real, 'msg': msg,
                          'canon_equal': ca == cb2, 'copy_faithful': faithful, 'rel': cmp_canon.relation(a, b)})
        if case.get('pairs', 'all') in ('all', 'ba'):
            real, msg = cmp_canon.run_real(b, a)
            pairs.append({'tag': 'ba', 'cls': rev, 'line': ' '.join(cb2 + ca), 'real': real, 'msg': msg,
                          'canon_equal': ca == cb2, 'copy_faithful': faithful, 'rel': cmp_canon.relation(b, a)})
    if pairs:
        pairs[0]['keys'] = keys
    return pairs


EQUIV = ('perm', 'pin_order')     # same structure: siblings / the pins of wires listed in another order
NEUTRAL = ('lower_index', 'top_drop', 'top_add', 'oid', 'oid_rev', 'rename')   # not listed by the property


def oracle(case, pair):
    """The property evaluated on the implementation's answer alone (no model involved).
    -> None, or the list of signatures of the failure (first = the one reported; a failure is a
    known finding when any of them is listed by an open finding)"""
    import cmp_gen
    if case.get('mode') != 'named':
        # outside the named netlists: a netlist is still accepted against an equal copy of itself
        if pair['tag'] == 'equal' and pair.get('canon_equal') and pair['real'] != 'accept':
            return ['equal-copy-any|%s|%s' % (case.get('copy'), pair['real'])]
        return None
    if pair['tag'] == 'equal':
        if not pair['canon_equal']:
            return None            # the copy route itself lost something (EDIF): not the comparer's business
        return None if pair['real'] == 'accept' else ['equal-copy|%s|%s' % (case['copy'], pair['real'])]
    if not pair.get('copy_faithful', True):
        return None
    parts = cmp_gen.class_parts(pair['cls'])
    real = pair['real']
    rel = pair.get('rel')
    label = '&'.join(parts)
    # (1) by the structural relation of the two netlists, computed from the real objects by
    #     cmp_canon.relation (mirror of Cmp/Equiv.v; independent of the comparer and of the labels)
    if rel in ('equiv_ord', 'equiv_set') and real != 'accept':
        return ['%s-equivalent|%s' % ('rejects' if real == 'reject' else 'raises-' + real,
                                      label if rel == 'equiv_ord' else 'pin_order')]
    if rel == 'different' and real == 'accept' and not any(c in NEUTRAL or c.endswith('~rev') for c in parts):
        return ['accepts|%s' % '&'.join(c for c in parts if c not in EQUIV)]
    if rel in ('covered', 'covered_set') and real == 'accept':
        # properties that only the second netlist has are a difference (was the hole
        # C20-extra-properties of compare_instances)
        return ['accepts|covered']
    if rel in ('different', 'covered', 'covered_set') and real in ('stopiteration', 'keyerror'):
        # a difference between two named netlists is reported by AssertionError: the lookups of the
        # comparer do not raise StopIteration (a name the second netlist lacks), nor KeyError (a
        # property key it lacks) - whatever the classes of the edits (renames included)
        return ['raises-%s|%s' % (real, label)]
    # (2) by the classes of the edits
    if any(c in NEUTRAL or c.endswith('~rev') for c in parts):
        return None
    diffs = [c for c in parts if c not in EQUIV]
    if any(c not in cmp_gen.PROPERTY_CLASSES for c in diffs):
        return None
    if len(parts) > 1 and rel is not None:
        # several edits may undo or absorb each other: the relation decides what is expected
        if rel in ('equiv_ord', 'equiv_set'):
            return None
        # 'covered' (only properties that the second netlist has in excess) is a difference:
        # handled like 'different' below
    elif not diffs or pair.get('canon_equal'):
        if real == 'accept':
            return None
        which = parts[0] if not diffs else 'undone'
        return ['%s-equivalent|%s' % ('rejects' if real == 'reject' else 'raises-' + real, which)]
    if len(parts) > 1 and any(m[0] == 'create' and m[3] is None for m in (case.get('mutate') or [])):
        return None                # an unnamed element was created: outside the named netlists
    label = '&'.join(diffs)
    if real == 'accept':
        return ['accepts|%s' % label]
    if real != 'reject':
        sigs = ['raises-%s|%s' % (real, label)]
        if len(diffs) > 1:
            sigs += ['raises-%s|%s' % (real, c) for c in diffs] + ['raises-%s|double' % real]
        return sigs
    return None


def gen_case(seed, mode, idx, cls, copy):
    import cmp_gen
    rng = random.Random('%d/cmp/%s/%d' % (seed, mode, idx))
    build = cmp_gen.gen_build(rng, mode)
    case = {'mode': mode, 'gen': '%d/cmp/%s/%d' % (seed, mode, idx), 'build': build, 'copy': copy,
            'cls': cls, 'mutate': None}
    a = cmp_gen.build_netlist(build)
    try:
        b = cmp_gen.make_copy(a, build, copy)
    except cmp_gen.Inapplicable:
        case['copy'] = 'rebuild'
        b = cmp_gen.build_netlist(build)
    # try the requested class first, then others, until one applies;
    # 'x&y' = two differences, the second generated on the copy that already carries the first
    order = [cls] + rng.sample(sorted(cmp_gen.CLASSES), len(cmp_gen.CLASSES))
    for c in order:
        mops, labels, applied = [], [], False
        try:
            for part in c.split('&'):
                ms = cmp_gen.gen_mutation(rng, b, part)
                # the API may refuse the edit (e.g. a name already in use): not a mutation then
                applied = True
                cmp_gen.apply_mops(b, ms)
                mops += ms
                labels.append(part + ('+steal' if part.startswith('conn_') and len(ms) == 3 else ''))
        except cmp_gen.Inapplicable:
            if applied:
                b = cmp_gen.make_copy(a, build, case['copy'])
            continue
        except Exception:  # noqa
            b = cmp_gen.make_copy(a, build, case['copy'])
            continue
        case['cls'] = '&'.join(labels)
        case['mutate'] = mops
        break
    return case


# ------------------------------------------------------------------ shrinking / search
def case_fails(case, want):
    """want(pairs, models) -> bool; exceptions while replaying a candidate = not failing"""
    try:
        pairs = eval_case(case)
        models = run_model([p['line'] for p in pairs])
    except Exception:  # noqa
        return False
    return want(case, pairs, models)


def shrink_case(case, want):
    """drop build steps that are not needed for the failure (connections, attributes, names,
    properties); allocation order is kept, so the remaining ops stay valid"""
    cur = json.loads(json.dumps(case))
    changed = True
    rounds = 0
    while changed and rounds < 3:
        changed = False
        rounds += 1
        for key in ('mops', 'ops'):
            items = cur['build'].get(key) or []
            i = len(items) - 1
            while i >= 0:
                op = items[i]
                removable = key == 'mops' or op[0] in ('connect', 'direction', 'lower', 'downto', 'dset', 'setname', 'delname')
                if removable:
                    cand = json.loads(json.dumps(cur))
                    del cand['build'][key][i]
                    if case_fails(cand, want):
                        cur = cand
                        items = cur['build'][key]
                        changed = True
                i -= 1
    return cur


def search_property_failure(case, seed):
    """neighbours of a disagreeing case: other mutation classes on the same netlist; returns a
    case + pair on which the property's oracle fails on the implementation, or None"""
    import cmp_gen
    for attempt, cls in enumerate(sorted(cmp_gen.PROPERTY_CLASSES) * 2):
        rng = random.Random('%d/cmp-search/%d' % (seed, attempt))
        try:
            b = cmp_gen.build_netlist(case['build'])
            mops = cmp_gen.gen_mutation(rng, b, cls)
            cand = dict(case, cls=cls, mutate=mops, copy='rebuild', mode='named' if case.get('mode') == 'named' else case.get('mode'))
            for p in eval_case(cand):
                sig = oracle(cand, p)
                if sig:
                    return cand, p, sig
        except Exception:  # noqa
            continue
    return None


# ------------------------------------------------------------------ kernel cross-check
def coq_str(tok):
    if tok == '-':
        return '[]'
    cps = [int(c) for c in tok.split(',')]
    if all(32 <= c < 127 and c != 34 for c in cps):
        return '(s2l "%s")' % ''.join(chr(c) for c in cps)
    return '[' + '; '.join('%d%%N' % c for c in cps) + ']'


def coq_oname(tok):
    return 'None' if tok == '~' else '(Some %s)' % coq_str(tok)


class _DedupReporter(common.Reporter):
    def violation(self, name, replay_obj, found_input=True):
        if not hasattr(self, 'names'):
            self.names = set()
        if name in self.names:
            return
        self.names.add(name)
        super().violation(name, replay_obj, found_input)


class _TokReader:
    def __init__(self, toks):
        self.t, self.i = toks, 0

    def next(self):
        x = self.t[self.i]
        self.i += 1
        return x

    def inst(self):
        name, oid = coq_oname(self.next()), coq_oname(self.next())
        r = self.next()
        ref = 'None' if r == 'R0' else '(Some (%s, %s))' % (coq_oname(self.next()), coq_oname(self.next()))
        p = self.next()
        if p == 'P0':
            props = 'None'
        else:
            ds = []
            for _ in range(int(self.next())):
                items = []
                for _ in range(int(self.next())):
                    k = coq_str(self.next())
                    v = self.next()
                    if v == 'n':
                        cv = 'PNone'
                    elif v[0] == 's':
                        cv = '(PStr %s)' % coq_str(v[2:])
                    elif v[0] == 'i':
                        cv = '(PInt (%s)%%Z)' % v[2:]
                    else:
                        cv = '(PBool %s)' % ('true' if v == 'b:1' else 'false')
                    items.append('(%s, %s)' % (k, cv))
                ds.append('[' + '; '.join(items) + ']')
            props = '(Some [' + '; '.join(ds) + '])'
        return '(mkinst %s %s %s %s)' % (name, oid, ref, props)

    def pin(self):
        k = self.next()
        if k == 'I':
            return '(PIn %s %s)' % (coq_oname(self.next()), self.next())
        if k == 'O':
            return '(POut %s %s %s)' % (coq_oname(self.next()), coq_oname(self.next()), self.next())
        if k == 'A':
            return '(PAnon %s %s %s %s)' % (coq_oname(self.next()), coq_oname(self.next()), coq_oname(self.next()),
                                            self.next())
        if k == 'D':
            return '(PDang %s %s %s %s %s)' % (coq_oname(self.next()), coq_oname(self.next()), coq_oname(self.next()),
                                              coq_oname(self.next()), self.next())
        return 'PLoose' if k == 'L' else 'PForeign'

    def nv(self):
        assert self.next() == 'N'
        name, oid = coq_oname(self.next()), coq_oname(self.next())
        top = 'None' if self.next() == 'T0' else '(Some %s)' % self.inst()
        libs = []
        for _ in range(int(self.next())):
            ln, lo = coq_oname(self.next()), coq_oname(self.next())
            defs = []
            for _ in range(int(self.next())):
                dn, do = coq_oname(self.next()), coq_oname(self.next())
                ports = []
                for _ in range(int(self.next())):
                    pn, po = coq_oname(self.next()), coq_oname(self.next())
                    d = ['DUndef', 'DInout', 'DIn', 'DOut'][int(self.next())]
                    arr = 'true' if self.next() == '1' else 'false'
                    wd, lo_ = self.next(), self.next()
                    ports.append('(mkport %s %s %s %s %s (%s)%%Z)' % (pn, po, d, arr, wd, lo_))
                cables = []
                for _ in range(int(self.next())):
                    cn, co = coq_oname(self.next()), coq_oname(self.next())
                    ws = []
                    for _ in range(int(self.next())):
                        ws.append('[' + '; '.join(self.pin() for _ in range(int(self.next()))) + ']')
                    cables.append('(mkcable %s %s [%s])' % (cn, co, '; '.join(ws)))
                insts = [self.inst() for _ in range(int(self.next()))]
                defs.append('(mkdefn %s %s [%s] [%s] [%s])' % (dn, do, '; '.join(ports), '; '.join(cables), '; '.join(insts)))
            libs.append('(mklib %s %s [%s])' % (ln, lo, '; '.join(defs)))
        return '(mknv %s %s %s [%s])' % (name, oid, top, '; '.join(libs))


def coq_terms_of_line(line):
    r = _TokReader(line.split(' '))
    a = r.nv()
    b = r.nv()
    return a, b


COQ_NAMES = {'accept': 'Accept', 'reject': 'Reject', 'stopiteration': 'StopIter', 'indexerror': 'IndexErr',
             'keyerror': 'KeyErr', 'attributeerror': 'AttrErr', 'typeerror': 'TypeErr', 'ill': 'Ill'}


def kernel_check(samples, witnesses):
    """samples: [(line, model outcome)] evaluated with vm_compute by coqc and compared with the
    extracted binary; witnesses: [(coq name a, coq name b, line)]: the witnesses used by the
    refutation lemmas are the canonical values of the real netlists of the corpus.
    -> (ok, detail)"""
    td = tempfile.mkdtemp(prefix='cmp-kernel-')
    try:
        src = ['From Coq Require Import String List NArith ZArith.', 'From SV Require Import Base.Base Cmp.Comparer.',
               'Import ListNotations.', 'Local Open Scope string_scope.']
        if witnesses:
            src.append('From SV Require Import Proofs.CmpWitness.')
        for k, (line, out) in enumerate(samples):
            a, b = coq_terms_of_line(line)
            src.append('Goal cmp_run %s %s = %s. Proof. vm_compute. reflexivity. Qed.' % (a, b, COQ_NAMES[out]))
        for (wa, wb, line) in witnesses:
            a, b = coq_terms_of_line(line)
            src.append('Goal %s = %s. Proof. reflexivity. Qed.' % (wa, a))
            src.append('Goal %s = %s. Proof. reflexivity. Qed.' % (wb, b))
        path = os.path.join(td, 'CmpKernel.v')
        open(path, 'w').write('\n'.join(src) + '\n')
        r = subprocess.run(['timeout', '300', 'coqc', '-R', os.path.join(common.COQ, 'theories'), 'SV', path],
                           capture_output=True, text=True, cwd=td)
        return r.returncode == 0, (r.stdout + r.stderr)[-1500:]
    finally:
        shutil.rmtree(td, ignore_errors=True)


# ------------------------------------------------------------------ main
def run(prop, tier, seed, replay):
    common.ensure_impl_python()
    import cmp_gen, cmp_canon
    if replay:
        return replay_file(prop, replay)
    t0 = time.time()
    rep = _DedupReporter(prop)
    findings = load_findings(prop)
    build_ok, build_log = True, ''
    if os.environ.get('VERIF_NO_BUILD') != '1':
        build_ok, build_log = common.build_if_needed()
    proof = common.check_props_file(prop)
    if not build_ok or not proof['ok'] or not os.path.exists(DRIVER):
        rep.violation('proof', {'kind': 'proof-obligation', 'theorem_file': 'coq/theories/Props/%s.v' % prop,
                                'build_ok': build_ok, 'log': build_log[-1500:],
                                'coqc_output': proof['assumptions'][-1500:], 'driver': os.path.exists(DRIVER)},
                      found_input=False)
        if not os.path.exists(DRIVER):
            return rep.exit_code()

    hist = collections.Counter()        # (mode, class, real outcome)
    sizes = collections.Counter()
    copies = collections.Counter()
    known_hits = collections.Counter()
    stats = collections.Counter()
    distinct = set()
    samples = []
    all_pairs = []                      # (case, pair)
    reported = [0]

    def note_known(f, n=1):
        if known_hits[f['id']] == 0:
            rep.known_finding('%s: %s' % (f['id'], f.get('what')))
        known_hits[f['id']] += n

    # 1. corpus first
    corpus = []
    if os.path.isdir(CORPUS_DIR):
        for fn in sorted(os.listdir(CORPUS_DIR)):
            if fn.endswith('.json') and fn != 'known_findings.json':
                corpus.append((fn, json.load(open(os.path.join(CORPUS_DIR, fn)))))
    witnesses = []
    for fn, case in corpus:
        try:
            pairs = eval_case(case)
        except Exception as e:  # noqa
            rep.violation('corpus-' + fn, {'kind': 'corpus-case-not-replayable', 'file': fn, 'error': repr(e)}, found_input=False)
            continue
        for p in pairs:
            all_pairs.append((dict(case, source='corpus:' + fn), p))
            if case.get('coq_witness') and p['tag'] == case.get('witness_pair', 'ab'):
                witnesses.append((case['coq_witness'][0], case['coq_witness'][1], p['line']))

    # 2. generated cases
    import cmp_gen as G
    classes = sorted(G.CLASSES)
    n_cases = BUDGET[tier]
    deadline = t0 + (40 if tier == 'quick' else 780)
    for idx in range(n_cases):
        if time.time() > deadline:
            stats['stopped_by_deadline_at_case'] = idx
            break
        mode = 'named' if idx % 3 != 2 else 'wild'
        r = random.Random('%d/cmp-plan/%d' % (seed, idx))
        copy = r.choice(['rebuild', 'rebuild', 'rebuild', 'clone', 'clone', 'edif'])
        cls = classes[(idx // 3 * 2 + idx % 3) % len(classes)] if mode == 'named' else r.choice(classes)
        if mode == 'named' and idx % 9 == 1:
            cls = 'conn_inst'  # the class with the rarest trigger (same pin of a twin instance): extra share
        if mode == 'named' and idx % 18 == 4:
            # structurally equal pairs (siblings / pins listed in another order), alone or followed by one difference
            k = idx // 18
            cls = ['perm', 'perm&' + r.choice(G.PROPERTY_CLASSES), 'pin_order', 'pin_order&' + r.choice(G.PROPERTY_CLASSES),
                   'perm', 'lower_index', 'pin_order', 'perm&' + r.choice(G.PROPERTY_CLASSES)][k % 8]
        if mode == 'named' and idx % 18 == 13:
            # two differences at once
            cls = r.choice(G.PROPERTY_CLASSES) + '&' + r.choice(G.PROPERTY_CLASSES)
        try:
            case = gen_case(seed, mode, idx, cls, copy)
            pairs = eval_case(case)
        except cmp_canon.OutsideModel as e:
            stats['outside_model'] += 1
            continue
        except cmp_gen.Inapplicable as e:
            stats['inapplicable'] += 1
            continue
        except Exception as e:  # noqa
            stats['case_error:' + type(e).__name__] += 1
            continue
        copies[case['copy']] += 1
        sizes[len(case['build']['ops'])] += 1
        if len(samples) < 3 and case.get('mutate'):
            samples.append({'gen': case['gen'], 'mode': mode, 'copy': case['copy'], 'cls': case['cls'],
                            'mutate': case['mutate'], 'build_ops': len(case['build']['ops']),
                            'real': {p['tag']: p['real'] for p in pairs}})
        for p in pairs:
            all_pairs.append((dict(case, source='gen'), p))

    # 3. the model on all pairs at once
    models = run_model([p['line'] for _, p in all_pairs])
    n_disagree = 0
    n_oracle = 0
    n_ill = 0
    domain_named = 0
    kernel_samples = []
    for (case, p), m in zip(all_pairs, models):
        hist['%s/%s/%s' % (case.get('mode', 'corpus'), p['cls'], p['real'])] += 1
        distinct.add(common.sha(p['line']))
        if case.get('mode') == 'named' and m['wf'] and m['noasg']:
            domain_named += 1
        elif case.get('mode') == 'named' and p['tag'] in ('equal', 'ab'):
            stats['named_case_outside_theorem_domain'] += 1
        if m['outcome'] == 'ill':
            n_ill += 1
        # oracle on the implementation
        sig = oracle(case, p)
        if not sig and p['real'] not in ('accept', 'reject') and m['outcome'] != 'ill':
            # on ANY netlist (unnamed elements, assignment names, dangling pins ... included) compare()
            # returns or raises AssertionError (theorem C20_raises_only_assertion)
            sig = ['raises-%s|any-netlist' % p['real']]
        expected = case.get('expect', {}).get(p['tag'])
        if expected is not None and case.get('finding'):
            # witness of an open finding (refutation lemma of Props/C20.v): while it still
            # reproduces it is a known finding; once it no longer does, the correspondence below
            # reports that the model (and the lemma) must follow the repaired code
            if expected == p['real']:
                sig = 'witness|%s|%s' % (case.get('name'), p['real'])
            else:
                sig = None
        elif expected is not None and expected != p['real']:
            sig = 'corpus-expectation|%s|%s' % (case.get('name'), p['real'])
        if sig:
            f = match_finding(findings, sig)
            if f:
                note_known(f)
            else:
                n_oracle += 1
                if reported[0] < 6:
                    reported[0] += 1
                    want = (lambda sg: (lambda c, ps, ms: any(oracle(c, q) == sg for q in ps)))(sig)
                    short = shrink_case(strip(case), want) if case.get('source') == 'gen' else strip(case)
                    rep.violation('oracle-%s' % common.sha(json.dumps(short)),
                                  {'kind': 'property-violation-on-implementation', 'engine': 'cmp', 'signature': sig,
                                   'pair': p['tag'], 'real': p['real'], 'message': p['msg'], 'case': short,
                                   'replay': 'checks/run %s --replay <this file>' % prop})
        # correspondence
        if m['outcome'] != p['real']:
            if m['outcome'] == 'ill':
                stats['model_ill'] += 1
            n_disagree += 1
            if reported[0] < 6:
                reported[0] += 1
                tag = p['tag']
                want = (lambda tg: (lambda c, ps, ms: any(q['tag'] == tg and mm['outcome'] != q['real'] for q, mm in zip(ps, ms))))(tag)
                short = shrink_case(strip(case), want) if case.get('source') == 'gen' else strip(case)
                found = search_property_failure(short, seed)
                known = found and match_finding(findings, found[2])
                if found and not known:
                    rep.violation('corr-%s' % common.sha(json.dumps(found[0])),
                                  {'kind': 'property-violation-on-implementation', 'engine': 'cmp', 'signature': found[2],
                                   'pair': found[1]['tag'], 'real': found[1]['real'], 'case': found[0],
                                   'correspondence': {'case': short, 'pair': tag, 'real': p['real'], 'model': m['outcome']}})
                else:
                    rep.violation('corr-%s' % common.sha(json.dumps(short)),
                                  {'kind': 'correspondence-broken', 'engine': 'cmp',
                                   'what': 'model (coq/theories/Cmp/Comparer.v; theorems of Props/%s.v) and '
                                           'spydrnet/compare/compare_netlists.py disagree' % prop,
                                   'pair': tag, 'class': p['cls'], 'real': p['real'], 'real_message': p['msg'],
                                   'model': m['outcome'], 'case': short}, found_input=False)
        elif len(kernel_samples) < (0 if tier == 'quick' else 40) and p['tag'] != 'equal' and len(p['line']) < 6000:
            kernel_samples.append((p['line'], m['outcome']))

    # 3b. Comparer.get_pin_key against the model's pin_key, on every pin of every wire of every netlist
    key_reqs = {}
    for case, p in all_pairs:
        for line, real in p.get('keys', []):
            key_reqs.setdefault(line, (real, case))
    klines = list(key_reqs)
    kmodels = run_model_keys(klines)
    n_keys = 0
    n_key_disagree = 0
    for line, mk in zip(klines, kmodels):
        real, case = key_reqs[line]
        n_keys += len(real)
        if mk != real:
            n_key_disagree += 1
            n_disagree += 1
            if reported[0] < 6:
                reported[0] += 1
                where = [i for i, (x, y) in enumerate(zip(mk, real)) if x != y][:3]
                short = strip(case)
                found = search_property_failure(short, seed)
                known = found and match_finding(findings, found[2])
                if found and not known:
                    rep.violation('corr-%s' % common.sha(json.dumps(found[0])),
                                  {'kind': 'property-violation-on-implementation', 'engine': 'cmp', 'signature': found[2],
                                   'pair': found[1]['tag'], 'real': found[1]['real'], 'case': found[0],
                                   'correspondence': {'case': short, 'what': 'get_pin_key', 'positions': where,
                                                      'real': [real[i] for i in where] or real[:3],
                                                      'model': [mk[i] for i in where] or mk[:3]}})
                else:
                    rep.violation('corr-keys-%s' % common.sha(line),
                                  {'kind': 'correspondence-broken', 'engine': 'cmp',
                                   'what': 'model pin_key (coq/theories/Cmp/Comparer.v) and Comparer.get_pin_key '
                                           '(spydrnet/compare/compare_netlists.py) disagree',
                                   'positions': where, 'real': [real[i] for i in where] or real[:3],
                                   'model': [mk[i] for i in where] or mk[:3], 'case': short}, found_input=False)

    # 4. open findings must still reproduce on their corpus witness (otherwise they are fixed:
    #    the correspondence above has then already reported that the model no longer follows)
    for f in findings:
        if known_hits[f['id']] == 0:
            stats['open_finding_not_reproduced:' + f['id']] += 1

    # 5. kernel cross-check: refutation witnesses = canonical values of the real corpus netlists
    #    (both tiers), sample of cases through vm_compute (thorough)
    kernel_ok, kernel_detail = True, ''
    if os.path.exists(os.path.join(common.COQ, 'theories', 'Proofs', 'CmpWitness.vo')) or kernel_samples:
        has_w = os.path.exists(os.path.join(common.COQ, 'theories', 'Proofs', 'CmpWitness.vo'))
        kernel_ok, kernel_detail = kernel_check(kernel_samples, witnesses if has_w else [])
        if not kernel_ok:
            rep.violation('kernel', {'kind': 'kernel-cross-check-failed', 'engine': 'cmp',
                                     'what': 'vm_compute of cmp_run / the witnesses of Props/C20.v differ from the extracted '
                                             'binary or from the canonical value of the corpus netlists',
                                     'coqc_output': kernel_detail}, found_input=False)

    wall = time.time() - t0
    theorems = proof['theorems']
    coverage = {
        'obligations': len(theorems), 'discharged': len(theorems) if proof['ok'] else 0,
        'checker_cmd': 'cd /verif && tools/build.sh && ' + proof['cmd'],
        'trusted_base': trusted_base(proof),
        'theorems': theorems,
        'print_assumptions': proof['assumptions'][-3000:],
        'programs': len(set(c.get('gen') or c.get('name') for c, _ in all_pairs)),
        'disagreements_checked': len(all_pairs),
        'evaluations': len(all_pairs),
        'distinct_nontrivial': len(distinct),
        'rule': 'one evaluation = one (netlist, other netlist) pair given to the real Comparer and to the extracted '
                'model; distinct by hash of the canonical values of both netlists; every pair has at least one '
                'library, two definitions and a top instance (netgen depth 1..3)',
        'samples': samples or [{'note': 'no generated sample'}],
        'class_outcome_histogram': dict(sorted(hist.items())),
        'build_ops_histogram': dict(sorted(sizes.items())),
        'copy_route_histogram': dict(copies),
        'pairs_in_theorem_domain (wf_named & no_asg on the model side)': domain_named,
        'model_impl_disagreements': n_disagree, 'oracle_failures': n_oracle, 'model_ill': n_ill,
        'pin_keys_compared (Comparer.get_pin_key vs model pin_key)': n_keys, 'netlists_with_key_disagreement': n_key_disagree,
        'known_finding_hits': dict(known_hits), 'other': dict(stats),
        'kernel_cross_check': {'ok': kernel_ok, 'cases': len(kernel_samples), 'witnesses': len(witnesses)},
        'corpus_cases': len(corpus),
        'exhaustive': False,
    }
    common.write_evidence(prop, tier, seed, coverage, wall, len(rep.violations), assumptions())
    print('%s %s: %d pairs (%d distinct), %d disagreements, %d oracle failures, %d known-finding hits, proof %s (%d theorems), %.1fs' % (
        prop, tier, len(all_pairs), len(distinct), n_disagree, n_oracle, sum(known_hits.values()),
        'ok' if proof['ok'] else 'BROKEN', len(theorems), wall))
    return rep.exit_code()


def strip(case):
    return {k: v for k, v in case.items() if k in ('mode', 'gen', 'build', 'copy', 'cls', 'mutate', 'name', 'pairs', 'expect', 'finding', 'what')}


def trusted_base(proof):
    return [
        'Coq 8.16.1 kernel (coqc); vm_compute only inside Example/refutation witnesses; no native_compute',
        'Print Assumptions of every theorem in Props/C20.v: ' + ('Closed under the global context' if 'Axioms' not in proof['assumptions'] else 'see print_assumptions'),
        'extraction: ExtrOcamlBasic only; nat/N/Z/positive extracted as inductives; no Extract Constant',
        'ocaml/driver_cmp.ml (token reader, outcome printer)',
        'harness/cmp_canon.py (canonical value of a real netlist = what the comparer can read: names, original identifiers, '
        'directions, is_array, pin/wire counts, pins of every wire as (instance name, port name, index), references, EDIF.properties), '
        'harness/cmp_gen.py (netlists, copies, mutations through the public API), harness/netgen.py, harness/ir_world.py',
        'harness/cmp_canon.py relation(): Python mirror of the declarative relations of coq/theories/Cmp/Equiv.v (siblings matched by name in any '
        'order, pins per wire as a set, properties under ==), computed from the real objects; the oracle expects accept exactly on '
        'equivalent pairs - whatever the order of siblings and of the pins of a wire (pairs that differ only in extra properties of the second '
        'netlist are the open finding)',
        'the model coq/theories/Cmp/Comparer.v is hand-written: tied to /repo only by the correspondence run reported here',
        'sibling names are unique and name lookups answer from the namespace tables = scan of the named children (property C10, engine ir)',
        'CPython 3.12 semantics of ==, str.split, str.startswith, fnmatch.fnmatchcase',
    ]


def assumptions():
    return [
        'names and original identifiers are str or absent; property values are str/int/bool/None (floats outside the model)',
        'EDIF.properties is a list of dictionaries',
        'the netlists satisfy the containment and mirror invariants (C01, C02): every pin on a wire belongs to a port of the '
        'enclosing definition or to a child of it (or to a removed child), and an outer pin\'s inner pin belongs to the reference of its instance',
        'the property quantifies over named netlists: names without * and ?, no instance named SDN_Assignment_... '
        '(the refutation lemmas of Props/C20.v show what happens outside)',
    ]


def replay_file(prop, path):
    import cmp_gen, cmp_canon
    obj = json.load(open(path))
    case = obj.get('case') or obj
    findings = load_findings(prop)
    pairs = eval_case(case)
    models = run_model([p['line'] for p in pairs])
    bad = False
    for p in pairs:
        for (line, real), mk in zip(p.get('keys', []), run_model_keys([l for l, _ in p.get('keys', [])])):
            if mk != real:
                print(json.dumps({'get_pin_key': 'disagreement', 'real': real[:8], 'model': mk[:8]}))
                bad = True
    for p, m in zip(pairs, models):
        sig = oracle(case, p)
        known = sig and match_finding(findings, sig)
        print(json.dumps({'pair': p['tag'], 'class': p['cls'], 'real': p['real'], 'message': p['msg'],
                          'model': m['outcome'], 'oracle': sig, 'known_finding': known and known['id']}))
        if m['outcome'] != p['real'] or (sig and not known):
            bad = True
    if bad:
        print('VIOLATION property=%s replay=%s' % (prop, path))
        return 1
    return 0


if __name__ == '__main__':
    common.ensure_impl_python()
    tier = 'quick'
    rp = None
    a = sys.argv[1:]
    if '--tier' in a:
        tier = a[a.index('--tier') + 1]
    if '--replay' in a:
        rp = a[a.index('--replay') + 1]
    sys.exit(run('C20', tier, common.seed_default(), rp))
