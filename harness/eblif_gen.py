"""EBLIF engine: generator of abstract flat designs, an independent EBLIF writer (not spydrnet's
composer) and the expectation the property states for a design (what the reader has to build).

A design is a plain dict:
  top      name of the top model
  ports    [(name, 'in'|'out'|'inout', width or None)]      None = scalar port written `p`
  prims    {name: {'ports': [(pname, 'in'|'out', width or None)], 'declared': bool}}
  insts    [{'kind': 'subckt'|'gate', 'ref', 'pairs': [((port, bit or None), net | 'unconn')], ...}
            {'kind': 'names', 'nets': [net, ...]  (last = output), 'rows': [(a, b or None)]}
            {'kind': 'latch', 'toks': [net or word, ...]}]   each with 'cname', 'attr', 'param'
  conns    [(net, net)]
  conn_pos 'late' (after the instance statements; default), 'early' (before them), 'split' (the first one
           before, the others after)
  clock    [word] or None
  comments [[word]]    file-level comments
A net is (name, bit or None): None is written `name`, a bit `name[bit]`; both `name` and `name[0]`
mean bit 0 of cable `name`.

Ordinary layout (drawn from the style's separator stream for every text): comment lines and blank lines at every
line boundary - after .model, between the port lines, inside truth tables, between an instance statement and each
of its .cname/.attr/.param lines -, `# text` after any statement on the same line, the .inputs/.outputs/.clock
lines of a header split into several lines and in any order, the last model not closed by .end.  (These were the
quirks hdr_gap, info_comment, trailing_comment, outputs_first, no_final_end until the reader was repaired.)

Quirks (writer options that stay inside BLIF/EBLIF but that the reader mishandles;
every one of them is a separate switch so that a failure can be attributed):
  latch3          .latch in out init  (three operands)
  latch_mix       a two-operand .latch before a five-operand one
  unused_prim_first  the file starts with a declared black box that nothing instances
(conn_early / conn_twice were quirks until merge_wires was repaired - the merged net keeps the name of the
first operand and the other name stands for it; they are ordinary shapes of gen_design now: conn_pos, chains
of .conn, nets spelled like the cable name <a>_<i>_<b>_<j> the old reader invented.  render / effective_design
still understand the two names for the corpus files written with them.)
"""
import json, random

QUIRKS = ['latch3', 'latch_mix', 'unused_prim_first']
# repaired: ordinary layout now; still understood by render for the corpus designs written with them
OLD_QUIRKS = ['hdr_gap', 'outputs_first', 'info_comment', 'no_final_end', 'trailing_comment']

PRIM_NAMES = ['AND2', 'INV', 'FDRE', 'LUT4', 'BUFG', 'CARRY4', 'RAMB18', 'OBUF', 'IBUF', 'MUXF7', 'DSP48E1', 'X_y.z']
PORT_NAMES_IN = ['I', 'A', 'B', 'C', 'D', 'CE', 'R', 'S', 'I0', 'I1', 'ADDR', 'DI', 'CLK', 'sel']
PORT_NAMES_OUT = ['O', 'Q', 'Y', 'CO', 'DO', 'Z']
NET_STEMS = ['n', 'rx_unconnected', '__vpr__unconn', '$abc$3148$n', '$auto$clkbufmap.cc:262:execute$', 'w.a:b$', 'top.sub/x', '$techmap\\u1.$and$f.v:12$', 'sig<3>', 'q_', 'lut$']
WORDS = ['Generated', 'by', 'Yosys', '0.13+3', '(git', 'sha1', '55924de70)', 'a=b', '.model?', 'x']
ATTR_KEYS = ['src', 'keep', 'module_not_derived', 'LOC', 'hdlname']
ATTR_VALS = ['"toggle.sv:26"', '1', '00000000000000000000000000000001', '"SLICE_X0Y0"', 'a.b']
PARAM_KEYS = ['INIT', 'IS_C_INVERTED', 'WIDTH', 'MODE']
PARAM_VALS = ["1'b0", '0000000000001010', '"FALSE"', '1.5', "16'hCAFE"]


def net_tok(net):
    name, bit = net
    return name if bit is None else '%s[%d]' % (name, bit)


def net_key(net):
    return (net[0], net[1] or 0)


def gen_design(rng, size=None, hier=False):
    size = size if size is not None else rng.choice([0, 1, 2, 3, 4, 6, 8, 12])
    d = {'top': rng.choice(['top', 'toggle', 'main_0', 'Top.v']), 'ports': [], 'prims': {}, 'insts': [], 'conns': [],
         'clock': None, 'comments': []}
    # primitives
    for name in rng.sample(PRIM_NAMES, rng.randint(1, 4)):
        ports = []
        for p in rng.sample(PORT_NAMES_IN, rng.randint(0, 3)):
            ports.append((p, 'in', rng.choice([None, None, None, 2, 3])))
        for p in rng.sample(PORT_NAMES_OUT, rng.randint(1, 2)):
            ports.append((p, 'out', rng.choice([None, None, None, 2])))
        rng.shuffle(ports)
        d['prims'][name] = {'ports': ports, 'declared': rng.random() < 0.7}
    # top ports; every bit of them is a net of the same name
    used_names = set()
    nets_in, nets_free_out = [], []
    stems = ['a', 'b', 'clk', 'reset', 'din', 'en', 'x$1']
    for p in rng.sample(stems, rng.randint(0, 4)):
        w = rng.choice([None, None, 2, 3])
        d['ports'].append((p, 'in', w))
        used_names.add(p)
        nets_in += [(p, None)] if w is None else [(p, k) for k in range(w)]
    for p in rng.sample(['y', 'out', 'dout', 'led', 'q$o'], rng.randint(0, 3)):
        w = rng.choice([None, None, 2, 4])
        d['ports'].append((p, 'out', w))
        used_names.add(p)
        nets_free_out += [(p, None)] if w is None else [(p, k) for k in range(w)]
    if rng.random() < 0.15:
        d['ports'].append(('io', 'inout', None))
        used_names.add('io')
        nets_in.append(('io', None))
    rng.shuffle(d['ports'])
    counter = [0]
    buses = []

    def fresh_net():
        """a new internal net bit that nobody drives yet"""
        if buses and rng.random() < 0.3:
            return buses.pop()
        counter[0] += 1
        stem = rng.choice(NET_STEMS) + str(counter[0])
        if rng.random() < 0.2:
            w = rng.randint(1, 4)
            bits = [(stem, k) for k in range(w)]
            rng.shuffle(bits)
            buses.extend(bits[1:])
            return bits[0]
        return (stem, None)

    def out_net():
        if nets_free_out and rng.random() < 0.5:
            return nets_free_out.pop(rng.randrange(len(nets_free_out)))
        return fresh_net()

    driven = list(nets_in)
    floating = []

    def in_net():
        if driven and rng.random() < 0.85:
            return rng.choice(driven)
        n = fresh_net()          # a net nobody drives (floating input)
        driven.append(n)
        floating.append(n)
        return n

    cnames = set()

    def info(inst):
        inst['cname'] = None
        if rng.random() < 0.55:
            counter[0] += 1
            inst['cname'] = rng.choice(['u', '$auto$alumacc.cc:485:replace_alu$', 'inst.', 'U_']) + str(counter[0])
        inst['attr'] = [(k, rng.choice(ATTR_VALS)) for k in rng.sample(ATTR_KEYS, rng.choice([0, 0, 1, 2]))]
        inst['param'] = [(k, rng.choice(PARAM_VALS)) for k in rng.sample(PARAM_KEYS, rng.choice([0, 0, 1, 2]))]

    latch_arity = rng.choice([2, 5, 5])
    for _ in range(size):
        r = rng.random()
        if r < 0.65 and d['prims']:
            ref = rng.choice(sorted(d['prims']))
            pairs = []
            new_driven = []
            for (p, dr, w) in d['prims'][ref]['ports']:
                for bit in ([None] if w is None else list(range(w))):
                    t = rng.random()
                    if t < 0.1:
                        continue                       # formal not mentioned
                    if t < 0.2:
                        pairs.append(((p, bit), 'unconn'))
                        continue
                    if dr == 'in':
                        pairs.append(((p, bit), in_net()))
                    else:
                        n = out_net()
                        new_driven.append(n)
                        pairs.append(((p, bit), n))
            driven.extend(new_driven)
            rng.shuffle(pairs)
            inst = {'kind': 'gate' if rng.random() < 0.15 else 'subckt', 'ref': ref, 'pairs': pairs}
        elif r < 0.88:
            k = rng.choice([0, 0, 1, 2, 2, 3, 4, 11, 13])   # >= 11 inputs: in_10 sorts before in_2 as a string
            ins = [in_net() for _ in range(k)]
            o = out_net()
            driven.append(o)
            if k == 0:
                rows = rng.choice([[], [('1', None)]])
            else:
                rows = [(''.join(rng.choice('01-') for _ in range(k)), rng.choice(['1', '1', '0'])) for _ in range(rng.randint(0, 3))]
            inst = {'kind': 'names', 'nets': ins + [o], 'rows': rows}
        else:
            i, o = in_net(), out_net()
            driven.append(o)
            toks = [i, o]
            if latch_arity == 5:
                ctrl = rng.choice([('clk', None), ('NIL', None)]) if rng.random() < 0.7 else in_net()
                toks += [(rng.choice(['re', 'fe', 'ah', 'al', 'as']), None), ctrl, (str(rng.randint(0, 3)), None)]
            inst = {'kind': 'latch', 'toks': toks}
        info(inst)
        d['insts'].append(inst)
    # .conn: each cable at most once; the second operand is a net no instance drives (two driven
    # nets merged into one would give both drivers the same by-convention name)
    pool = {}
    for n in driven + nets_free_out:
        pool.setdefault(n[0], n)
    undriven = {}
    pref = floating + nets_in + nets_free_out if rng.random() < 0.7 else nets_in + floating + nets_free_out
    for n in pref:
        undriven.setdefault(n[0], n)
    firsts = [pool[k] for k in sorted(pool)]
    seconds = [n for n in floating if n[0] in undriven] if (floating and rng.random() < 0.6) else [undriven[k] for k in sorted(undriven)]
    rng.shuffle(firsts)
    if seconds and seconds[0] not in floating:
        rng.shuffle(seconds)
    used_cables = set()
    for _ in range(rng.choice([0, 0, 0, 0, 0, 0, 1, 1, 1, 2])):
        b = next((x for x in seconds if x[0] not in used_cables), None)
        if b is None:
            break
        used_cables.add(b[0])
        a = next((x for x in firsts if x[0] not in used_cables), None)
        if a is None:
            break
        used_cables.add(a[0])
        d['conns'].append((a, b))
    # shapes the reader mishandled before the repair of merge_wires (findings conn-before-use, conn-same-net-twice,
    # conn-merge-name-capture, conn-renumbers-bus): a net named by several .conn, .conn ahead of the statements
    # that use its nets, a net spelled like the cable name the old reader invented for a merge.  The further
    # operands are nets nobody drives and no other .conn names, so a merged net still has at most one driver.
    def spare_net():
        z = next((x for x in seconds if x[0] not in used_cables), None)
        if z is None or rng.random() < 0.3:
            counter[0] += 1
            z = ('cc%d' % counter[0], None)
        used_cables.add(z[0])
        return z

    if d['conns'] and rng.random() < 0.35:
        for _ in range(rng.choice([1, 1, 2])):
            x = rng.choice([n for c in d['conns'] for n in c])          # chain: .conn a b / .conn b c,  .conn a b / .conn a c
            d['conns'].append((x, spare_net()))
    if d['conns'] and rng.random() < 0.25:
        (a, b) = rng.choice(d['conns'])
        ghost = ('%s_%d_%s_%d' % (a[0], a[1] or 0, b[0], b[1] or 0), None)
        if ghost[0] not in used_cables and ghost[0] not in used_names:
            used_cables.add(ghost[0])
            if rng.random() < 0.5:
                d['conns'].append((ghost, spare_net()))                  # .conn a b / .conn a_0_b_0 c
            else:
                counter[0] += 1
                inst = {'kind': 'names', 'nets': [ghost, ('gh%d' % counter[0], None)], 'rows': [('1', '1')]}
                info(inst)
                d['insts'].append(inst)
    d['conn_pos'] = rng.choice(['late', 'late', 'late', 'early', 'split']) if d['conns'] else 'late'
    if rng.random() < 0.1:
        d['clock'] = ['clk']
    for _ in range(rng.choice([0, 0, 1, 2])):
        d['comments'].append([rng.choice(WORDS) for _ in range(rng.randint(0, 5))])
    return d


# ----------------------------------------------------------------------------- the independent writer
def render(design, rng, quirks=(), style=None):
    """design -> EBLIF text.  `style` fixes the harmless layout choices (None = draw them from rng) so
    that the same design can be re-rendered with one quirk removed."""
    st = dict(style or {})

    def choice(key, options):
        if key not in st:
            st[key] = rng.choice(options)
        return st[key]

    q = set(quirks)
    out = []
    sep_rng = random.Random(choice('sepseed', list(range(1000))))

    def emit(tokens, allow_cont=True):
        """one statement; may be broken by backslash continuations between tokens"""
        s = ''
        for k, t in enumerate(tokens):
            if k:
                if allow_cont and k >= 2 and sep_rng.random() < 0.12:
                    s += ' \\\n' + sep_rng.choice(['', ' ', '    ', '\t'])
                else:
                    s += sep_rng.choice([' ', ' ', ' ', '  ', '\t'])
            s += t
        if 'trailing_comment' in q and tokens and tokens[0] in ('.subckt', '.names'):
            s += ' # note'
        elif sep_rng.random() < 0.08:
            s += sep_rng.choice([' ', '\t', '  ']) + sep_rng.choice(['# note', '#note', '# a=b .end', '#', '# .cname x \\'])
        out.append(s + sep_rng.choice(['', '', ' ', '\t']))

    def gap():
        """a line boundary inside a group of lines that belong together"""
        r = sep_rng.random()
        if r < 0.06:
            out.append(sep_rng.choice(['', '', ' ', '\t']))
        elif r < 0.12:
            out.append(sep_rng.choice(['# ', '#', '  # ']) + ' '.join(sep_rng.choice(WORDS) for _ in range(sep_rng.randint(0, 3))))

    def filler():
        r = sep_rng.random()
        if r < 0.12:
            out.append('')
        elif r < 0.22:
            out.append('# ' + ' '.join(sep_rng.choice(WORDS) for _ in range(sep_rng.randint(0, 4))))

    def port_toks(ports, want):
        toks = []
        for (p, dr, w) in ports:
            if dr in want:
                if w is None:
                    toks.append(p if sep_rng.random() < 0.85 else p + '[0]')
                else:
                    toks += ['%s[%d]' % (p, k) for k in range(w)]
        return toks

    def header(name, ports, clock=None):
        emit(['.model', name], allow_cont=False)
        if 'hdr_gap' in q:
            out.append(sep_rng.choice(['', '# ports follow']))
        gap()
        ins = port_toks(ports, ('in', 'inout'))
        outs = port_toks(ports, ('out', 'inout'))
        hdr = []

        def lines(kw, toks):
            if len(toks) > 2 and sep_rng.random() < 0.3:       # several .inputs lines
                k = sep_rng.randint(1, len(toks) - 1)
                hdr.append([kw] + toks[:k])
                hdr.append([kw] + toks[k:])
            else:
                hdr.append([kw] + toks)
        if 'outputs_first' in q:
            lines('.outputs', outs)
            lines('.inputs', ins)
        else:
            lines('.inputs', ins)
            lines('.outputs', outs)
        if clock:
            hdr.append(['.clock'] + clock)
        if sep_rng.random() < 0.25:                            # the port lines in any order
            sep_rng.shuffle(hdr)
        for l in hdr:
            emit(l)
            gap()

    def prim_models(names):
        for name in names:
            header(name, design['prims'][name]['ports'])
            emit(['.blackbox'], allow_cont=False)
            emit(['.end'], allow_cont=False)
            filler()

    for c in design['comments']:
        out.append('# ' + ' '.join(c))
    declared = [n for n in sorted(design['prims']) if design['prims'][n]['declared']]
    order = choice('prim_order', ['after', 'after', 'before', 'split'])
    # the first model of the file is elected top until a later model instances it: a black box may
    # only come first if the top model instances it
    used = [n for n in declared if any(i.get('ref') == n for i in design['insts'])]
    if order != 'after':
        if used:
            first = used[sep_rng.randrange(len(used))]
            declared = [first] + [n for n in declared if n != first]
        else:
            order = 'after'
    if 'unused_prim_first' in q:
        out.append('.model UNUSED_BB')
        out.append('.inputs a')
        out.append('.outputs b')
        out.append('.blackbox')
        out.append('.end')
    if order == 'before':
        prim_models(declared)
        declared = []
    elif order == 'split':
        prim_models(declared[:len(declared) // 2])
        declared = declared[len(declared) // 2:]
    filler()
    header(design['top'], design['ports'], design['clock'])
    filler()

    def inst_lines(inst):
        if inst['kind'] in ('subckt', 'gate'):
            toks = ['.' + inst['kind'], inst['ref']]
            for ((p, bit), net) in inst['pairs']:
                f = p if bit is None else '%s[%d]' % (p, bit)
                toks.append(f + '=' + ('unconn' if net == 'unconn' else net_tok(net)))
            emit(toks)
        elif inst['kind'] == 'names':
            emit(['.names'] + [net_tok(n) for n in inst['nets']])
            for (a, b) in inst['rows']:
                gap()
                out.append((a if b is None else a + ' ' + b) + (' # row' if sep_rng.random() < 0.04 else ''))
        else:
            toks = list(inst['toks'])
            if 'latch3' in q and len(toks) == 5:
                toks = [toks[0], toks[1], toks[4]]
            emit(['.latch'] + [net_tok(n) for n in toks])
        infos = []
        if inst['cname'] is not None:
            infos.append(['.cname', inst['cname']])
        infos += [['.attr', k, v] for k, v in inst['attr']]
        infos += [['.param', k, v] for k, v in inst['param']]
        if 'info_comment' in q and infos:
            out.append('# info of the instance above')
        for k, i in enumerate(infos):
            gap()
            emit(i, allow_cont=False)

    insts = list(design['insts'])
    if 'latch_mix' in q:
        insts = [{'kind': 'latch', 'toks': [('lm_d', None), ('lm_q', None)], 'cname': None, 'attr': [], 'param': []},
                 {'kind': 'latch', 'toks': [('lm_q', None), ('lm_q2', None), ('re', None), ('clk', None), ('0', None)],
                  'cname': None, 'attr': [], 'param': []}] + insts
    conns = list(design['conns'])
    if 'conn_twice' in q and conns:
        conns.append((conns[0][0], conn_twice_extra(design)))
    pos = 'early' if 'conn_early' in q else design.get('conn_pos', 'late')
    n_early = {'late': 0, 'early': len(conns), 'split': 1}[pos]
    for (a, b) in conns[:n_early]:
        emit(['.conn', net_tok(a), net_tok(b)], allow_cont=False)
    for inst in insts:
        inst_lines(inst)
        filler()
    for (a, b) in conns[n_early:]:
        emit(['.conn', net_tok(a), net_tok(b)], allow_cont=False)
        filler()
    last_is_top = not declared
    final_end = 'no_final_end' not in q and sep_rng.random() >= 0.12
    if final_end or not last_is_top:
        emit(['.end'], allow_cont=False)
    filler()
    if declared:
        prim_models(declared[:-1])
        name = declared[-1]
        header(name, design['prims'][name]['ports'])
        emit(['.blackbox'], allow_cont=False)
        if final_end:
            emit(['.end'], allow_cont=False)
    text = '\n'.join(out)
    if choice('final_newline', [True, True, False]):
        text += '\n'
    return text, st


def conn_twice_extra(design):
    """a net with at least one pin (a top-level port bit) that no .conn of the design names"""
    used = set(n[0] for c in design['conns'] for n in c)
    for (p, dr, w) in design['ports']:
        if p not in used:
            return (p, None if w is None else 0)
    return ('conn_twice_extra', None)


def effective_design(design, quirks):
    """the design the quirky rendering still denotes (the quirks that add statements)"""
    q = set(quirks)
    d = dict(design)
    if 'latch_mix' in q:
        d['insts'] = [{'kind': 'latch', 'toks': [('lm_d', None), ('lm_q', None)], 'cname': None, 'attr': [], 'param': []},
                      {'kind': 'latch', 'toks': [('lm_q', None), ('lm_q2', None), ('re', None), ('clk', None), ('0', None)],
                       'cname': None, 'attr': [], 'param': []}] + list(design['insts'])
    if 'conn_twice' in q and design['conns']:
        d['conns'] = list(design['conns']) + [(design['conns'][0][0], conn_twice_extra(design))]
    if 'unused_prim_first' in q:
        d['prims'] = dict(design['prims'])
        d['prims']['UNUSED_BB'] = {'ports': [('a', 'in', None), ('b', 'out', None)], 'declared': True}
    if 'latch3' in q:
        insts = []
        for i in d['insts']:
            if i['kind'] == 'latch' and len(i['toks']) == 5:
                i = dict(i)
                i['toks3'] = [i['toks'][0], i['toks'][1], i['toks'][4]]
            insts.append(i)
        d['insts'] = insts
    return d


LATCH_PORTS = ['input', 'output', 'type', 'control', 'init-val']


def expectation(design):
    """what the property says the reader must build for `design` (independent of the model):
    instances, their data, port directions, and the nets as sets of pins."""
    exp = {'top': design['top'], 'insts': [], 'ports': {}, 'prims': {}}
    for (p, dr, w) in design['ports']:
        exp['ports'][p] = [{'in': 'IN', 'out': 'OUT', 'inout': 'INOUT'}[dr], 1 if w is None else w]
    used_width = {}
    conn_width = {}
    parent = {}

    def find(x):
        parent.setdefault(x, x)
        while parent[x] != x:
            parent[x] = parent[parent[x]]
            x = parent[x]
        return x

    def union(a, b):
        parent[find(a)] = find(b)

    attach = []          # (pin token, net key)
    for (p, dr, w) in design['ports']:
        for bit in range(1 if w is None else w):
            attach.append(('TOP.%s.%d' % (p, bit), (p, bit)))
    for k, inst in enumerate(design['insts']):
        e = {'cname': inst['cname'], 'attr': dict(inst['attr']), 'param': dict(inst['param']), 'unconn': []}
        if inst['kind'] in ('subckt', 'gate'):
            e['ref'] = inst['ref']
            e['type'] = 'EBLIF.' + inst['kind']
            e['covers'] = None
            for ((p, bit), net) in inst['pairs']:
                b = bit or 0
                uw = used_width.setdefault(inst['ref'], {})
                uw[p] = max(uw.get(p, 0), b + 1)
                if net == 'unconn':
                    e['unconn'].append('%s[%d]' % (p, b))
                else:
                    cw = conn_width.setdefault(inst['ref'], {})
                    cw[p] = max(cw.get(p, 0), b + 1)
                    attach.append(('I%d.%s.%d' % (k, p, b), net_key(net)))
        elif inst['kind'] == 'names':
            n = len(inst['nets']) - 1
            e['ref'] = 'logic-gate_%d' % n
            e['type'] = 'EBLIF.names'
            e['covers'] = [a + ' ' + (b or '') for (a, b) in inst['rows']]
            for j, net in enumerate(inst['nets'][:-1]):
                attach.append(('I%d.in_%d.0' % (k, j), net_key(net)))
            attach.append(('I%d.out.0' % k, net_key(inst['nets'][-1])))
            if inst['cname'] is None:
                e['name'] = net_tok(inst['nets'][-1])
        else:
            e['ref'] = 'generic-latch'
            e['type'] = 'EBLIF.latch'
            e['covers'] = None
            if 'toks3' in inst:
                ports = ['input', 'output', 'init-val']
                toks = inst['toks3']
            else:
                ports, toks = LATCH_PORTS, inst['toks']
            for port, net in zip(ports, toks):
                attach.append(('I%d.%s.0' % (k, port), net_key(net)))
            if inst['cname'] is None:
                e['name'] = net_tok(inst['toks'][1])
        if inst['cname'] is not None:
            e['name'] = inst['cname']
        exp['insts'].append(e)
    for (a, b) in design['conns']:
        union(net_key(a), net_key(b))
    groups = {}
    for pin, net in attach:
        groups.setdefault(find(net), set()).add(pin)
    exp['nets'] = set(frozenset(g) for g in groups.values())
    for name, pr in design['prims'].items():
        ports = {}
        for (p, dr, w) in pr['ports']:
            ports[p] = [{'in': 'IN', 'out': 'OUT'}[dr] if pr['declared'] else 'UNDEFINED', 1 if w is None else w]
        if not pr['declared']:
            # wide enough for every connected bit, not wider than the highest bit mentioned
            ports = {p: ['UNDEFINED', (conn_width.get(name, {}).get(p, 0), w)] for p, w in used_width.get(name, {}).items()}
        exp['prims'][name] = {'declared': pr['declared'], 'ports': ports,
                              'instanced': any(i.get('ref') == name for i in design['insts'])}
    return exp


def describe(design):
    kinds = {}
    for i in design['insts']:
        kinds[i['kind']] = kinds.get(i['kind'], 0) + 1
    cables = [n[0] for c in design['conns'] for n in c]
    return {'insts': len(design['insts']), 'kinds': kinds, 'conns': len(design['conns']),
            'conn_pos': design.get('conn_pos', 'late'), 'conn_chain': len(cables) != len(set(cables)),
            'ports': len(design['ports']), 'prims': len(design['prims']),
            'bus_nets': sum(1 for i in design['insts'] for pr in i.get('pairs', []) if pr[1] != 'unconn' and pr[1][1] is not None),
            'unconn': sum(1 for i in design['insts'] for pr in i.get('pairs', []) if pr[1] == 'unconn')}


# ----------------------------------------------------------------------------- (de)serialisation, damage
def to_json(design):
    if design is None:
        return None
    return json.loads(json.dumps(design))


def _net(x):
    return x if isinstance(x, str) else (x[0], x[1])


def from_json(d):
    """lists back to the tuples the generator uses"""
    out = dict(d)
    out['ports'] = [tuple(p) for p in d['ports']]
    out['prims'] = {k: {'ports': [tuple(p) for p in v['ports']], 'declared': v['declared']} for k, v in d['prims'].items()}
    insts = []
    for i in d['insts']:
        i = dict(i)
        if 'pairs' in i:
            i['pairs'] = [((pr[0][0], pr[0][1]), _net(pr[1])) for pr in i['pairs']]
        if 'nets' in i:
            i['nets'] = [_net(n) for n in i['nets']]
        if 'rows' in i:
            i['rows'] = [(r[0], r[1]) for r in i['rows']]
        if 'toks' in i:
            i['toks'] = [_net(n) for n in i['toks']]
        i['attr'] = [tuple(x) for x in i['attr']]
        i['param'] = [tuple(x) for x in i['param']]
        insts.append(i)
    out['insts'] = insts
    out['conns'] = [(_net(a), _net(b)) for a, b in d['conns']]
    return out


DAMAGE_WORDS = ['.model', '.inputs', '.outputs', '.subckt', '.gate', '.names', '.latch', '.cname', '.attr', '.param',
                '.conn', '.blackbox', '.end', '.clock', '#', '\\', '=', 'x=', '=y', 'a[', 'a[]', 'a[x]', 'a[1:0]', ']', '1', '0-',
                'unconn', 'logic-gate_1', 'generic-latch', '.MODEL', 'p[2]=q[1]']


def damage(text, rng):
    """token-level damage of a valid text: delete / duplicate / replace a token, truncate at a token
    boundary, delete / duplicate / swap lines, insert a stray line"""
    lines = [l.split(' ') for l in text.split('\n')]
    for _ in range(rng.choice([1, 1, 2, 3])):
        if not lines:
            break
        op = rng.choice(['del', 'dup', 'rep', 'trunc', 'dline', 'dupline', 'swap', 'stray'])
        i = rng.randrange(len(lines))
        toks = lines[i]
        if op == 'del' and toks:
            del toks[rng.randrange(len(toks))]
        elif op == 'dup' and toks:
            k = rng.randrange(len(toks))
            toks.insert(k, toks[k])
        elif op == 'rep' and toks:
            toks[rng.randrange(len(toks))] = rng.choice(DAMAGE_WORDS)
        elif op == 'trunc':
            k = rng.randrange(len(toks) + 1)
            lines = lines[:i] + [toks[:k]]
        elif op == 'dline':
            del lines[i]
        elif op == 'dupline':
            lines.insert(i, list(toks))
        elif op == 'swap' and len(lines) > 1:
            j = rng.randrange(len(lines))
            lines[i], lines[j] = lines[j], lines[i]
        elif op == 'stray':
            lines.insert(i, [rng.choice(DAMAGE_WORDS) for _ in range(rng.randint(1, 3))])
    return '\n'.join(' '.join(l) for l in lines)
