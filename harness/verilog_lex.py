"""Character-level correspondence of the Verilog reader (C06): the extracted tokenizer model
(coq/theories/Fmt/VLex.v: tokenize_raw_loop = VerilogTokenizer.generate_tokens, tokenize_loop = the stream seen
through has_next/next; theorems C06_lex_* of Props/C06.v) against spydrnet's VerilogTokenizer, on every text a C06
run reads (generated designs, corpus, wild documents, bundled examples) and on a stream of character-level damaged
texts derived from them (comment openers, quotes, backslashes, backticks ... dropped anywhere) and of short random strings
over the characters the factory looks at: no parser involved.

Driver protocol (ocaml/driver_verilog.ml): `LEX <hex of the ASCII text | ->`  ->  `raw <n> {x<hex>} | seen <m> {x<hex>}`.
Only ASCII texts are compared (the driver reads bytes); others are counted and skipped."""
import collections, io, os, random, subprocess, sys, time, zipfile
sys.path.insert(0, os.path.dirname(os.path.abspath(__file__)))
import common
import verilog_doc as D

SINGLE = set('()*;.[]{}:,#\'=')
BATCH_CHARS = 3000000
WHAT = ('the extracted character-level tokenizer model (coq/theories/Fmt/VLex.v tokenize / tokenize_raw; theorems C06_lex_* '
        'of Props/C06.v) and spydrnet VerilogTokenizer disagree')


def real_tokens(text):
    """(all tokens of generate_tokens, tokens seen through has_next/next), each from a fresh tokenizer"""
    from spydrnet.parsers.verilog.tokenizer import VerilogTokenizer
    raw = list(VerilogTokenizer.from_string(text).generate_tokens())
    t = VerilogTokenizer.from_string(text)
    seen = []
    while t.has_next():
        seen.append(t.next())
    return raw, seen


def read_example(path):
    """the text VerilogTokenizer reads from a bundled .v.zip (same calls); None if it cannot be decoded"""
    try:
        if zipfile.is_zipfile(path):
            name = os.path.basename(path)
            name = name[:name.rindex('.')]
            with io.TextIOWrapper(zipfile.ZipFile(path).open(name)) as f:
                return f.read()
        with open(path, 'r') as f:
            return f.read()
    except (UnicodeDecodeError, KeyError, OSError):
        return None


def _unhex_tokens(part, tag):
    f = part.split()
    if len(f) < 2 or f[0] != tag or len(f) != 2 + int(f[1]):
        raise RuntimeError('driver_verilog LEX: bad answer %r' % part[:200])
    return [bytes.fromhex(x[1:]).decode('latin-1') for x in f[2:]]


def _big_stack():
    # drop_comments of VLex.v is List.filter of the Coq library: extracted as a non-tail-recursive function, one stack
    # frame per token of the text (a bundled example has a million tokens) - the driver gets the hard stack limit
    import resource
    soft, hard = resource.getrlimit(resource.RLIMIT_STACK)
    try:
        resource.setrlimit(resource.RLIMIT_STACK, (hard, hard))
    except (ValueError, OSError):
        pass


def model_tokens(texts):
    """[(raw, seen)] of the extracted model, all texts in one driver process"""
    if not texts:
        return []
    lines = ['LEX ' + (t.encode('ascii').hex() or '-') for t in texts]
    r = subprocess.run([D.DRIVER], input='\n'.join(lines) + '\n', capture_output=True, text=True, preexec_fn=_big_stack)
    if r.returncode != 0:
        raise RuntimeError('driver_verilog failed on LEX: rc %d %s' % (r.returncode, r.stderr[-500:]))
    answers = r.stdout.split('\n')[:len(lines)]
    out = []
    for a in answers:
        if ' | ' not in a:
            raise RuntimeError('driver_verilog LEX: %r' % a[:200])
        x, y = a.split(' | ', 1)
        out.append((_unhex_tokens(x, 'raw'), _unhex_tokens(y, 'seen')))
    if len(out) != len(texts):
        raise RuntimeError('driver_verilog LEX: %d answers for %d texts' % (len(out), len(texts)))
    return out


def token_class(t):
    if t.startswith('//'):
        return 'line comment'
    if t.startswith('/*'):
        return 'block comment'
    if t.startswith('`'):
        return 'directive'
    if t.startswith('"'):
        return 'string'
    if t.startswith('\\'):
        return 'escaped identifier'
    if len(t) == 1 and t in SINGLE:
        return 'punctuation'
    if "'" in t:
        return 'number-with-quote'
    if t.isdigit():
        return 'number'
    return 'word'


def first_diff(a, b):
    """index of the first position where the two token lists differ, None if equal"""
    if a == b:
        return None
    for i, (x, y) in enumerate(zip(a, b)):
        if x != y:
            return i
    return min(len(a), len(b))


def disagreement(text, real, model):
    for stream, r, m in (('raw', real[0], model[0]), ('seen', real[1], model[1])):
        i = first_diff(r, m)
        if i is not None:
            # every character of the text that is not white space is in exactly one raw token, in order
            nonws = sum(sum(1 for ch in t if ch not in ' \t\n\r\f') for t in real[0][:i]) if stream == 'raw' else None
            off = 0
            if nonws is not None:
                k = 0
                while off < len(text) and k < nonws:
                    if text[off] not in ' \t\n\r\f':
                        k += 1
                    off += 1
            return {'stream': stream, 'token_index': i, 'implementation_token': r[i] if i < len(r) else None,
                    'model_token': m[i] if i < len(m) else None, 'implementation_tokens': len(r), 'model_tokens': len(m),
                    'context': text[max(0, off - 100):off + 100] if nonws is not None else None, 'offset': off if nonws is not None else None}
    return None


def differs(texts):
    """[disagreement or None] for a list of texts (one driver process)"""
    ms = model_tokens(texts)
    return [disagreement(t, real_tokens(t), m) for t, m in zip(texts, ms)]


def shrink_text(text, rounds=400):
    """greedy chunk removal keeping a disagreement; candidates of one pass are decided in one driver process"""
    cur = text
    if len(cur) > 20000:       # shortest prefix that still disagrees (bisection, then verified)
        lo, hi = 0, len(cur)
        for _ in range(40):
            if hi - lo <= 1:
                break
            mid = (lo + hi) // 2
            if differs([cur[:mid]])[0]:
                hi = mid
            else:
                lo = mid
        if differs([cur[:hi]])[0]:
            cur = cur[:hi]
        if len(cur) > 20000:
            cur = cur[-20000:] if differs([cur[-20000:]])[0] else cur
    size = max(1, len(cur) // 2)
    n = 0
    while size >= 1 and n < rounds and len(cur) < 200000:
        cands = [cur[:i] + cur[i + size:] for i in range(0, len(cur), size)]
        cands = [c for c in cands if c != cur][:400]
        res = differs(cands) if cands else []
        n += 1
        hit = next((c for c, d in zip(cands, res) if d), None)
        if hit is not None:
            cur = hit
            size = min(size, max(1, len(cur) // 2))
        elif size == 1:
            break
        else:
            size //= 2
    return cur


DAMAGE = ['/*', '*/', '//', '/', '*', '"', '\\', '`', "'", '.', '=', '\n', '\r', '\t', ' ', '\f', '/*/', '//*', '*//', '\\\\', '""', '`x', '\\a b', '1.5', '.x', "4'b1"]
ALPHABET = '/*"\\`\'.=a1 \n\r\t\f(;#_$Z-+<@'


def damage(text, rng):
    """a character-level damaged variant of a (short) text: lexer-relevant fragments inserted, characters dropped"""
    if len(text) > 1500:
        a = rng.randrange(0, len(text) - 1500)
        text = text[a:a + 1500]
    s = list(text)
    for _ in range(rng.choice([1, 1, 2, 3, 5])):
        p = rng.randrange(0, len(s) + 1)
        k = rng.random()
        if k < 0.6 or not s:
            s[p:p] = list(rng.choice(DAMAGE))
        elif k < 0.85:
            del s[min(p, len(s) - 1)]
        else:
            q = rng.randrange(0, len(s) + 1)
            del s[min(p, q):max(p, q)]
    return ''.join(s)


class LexCheck:
    def __init__(self, seed, ndamaged=0):
        self.seed, self.ndamaged = seed, ndamaged
        self.texts = collections.OrderedDict()      # text -> (label, ctx)
        self.stats = collections.Counter()
        self.classes = collections.Counter()
        self.sources = collections.Counter()
        self.wall = 0.0

    def add(self, label, text, ctx=None):
        if text is None:
            self.stats['lex undecodable skipped'] += 1
            return
        self.stats['lex texts offered'] += 1
        if not text.isascii():
            self.stats['lex non-ascii skipped'] += 1
            return
        if text in self.texts:
            self.stats['lex duplicate texts'] += 1
            return
        self.texts[text] = (label, ctx)
        self.sources[label.split('-')[0]] += 1

    def add_file(self, label, path):
        self.add(label, read_example(path), {'file': path})

    def _damaged(self):
        base = [t for t in self.texts if t]
        out = []
        if not base:
            return out
        for c in range(self.ndamaged):
            rng = random.Random('%d/verilog-lex-damage/%d' % (self.seed, c))
            if c % 4 == 3:      # no base text at all: a short string over the characters the factory looks at
                out.append(('random-%d' % c, ''.join(rng.choice(ALPHABET) for _ in range(rng.randrange(0, 40)))))
            else:
                out.append(('damaged-%d' % c, damage(base[rng.randrange(len(base))], rng)))
        return out

    def finish(self, runner=None):
        """compare all collected texts (and the damaged stream); returns the list of disagreement records"""
        t0 = time.time()
        for label, t in self._damaged():
            self.add(label, t, {'derived': 'character-level damage of a text of this run'})
        items = list(self.texts.items())
        bad = []
        i = 0
        while i < len(items):
            j, size = i, 0
            while j < len(items) and (j == i or size + len(items[j][0]) <= BATCH_CHARS):
                size += len(items[j][0])
                j += 1
            chunk = items[i:j]
            i = j
            models = model_tokens([t for t, _ in chunk])
            for (text, (label, ctx)), model in zip(chunk, models):
                real = real_tokens(text)
                self.stats['lex texts compared'] += 1
                self.stats['lex characters'] += len(text)
                self.stats['lex raw tokens compared'] += len(real[0])
                self.stats['lex seen tokens compared'] += len(real[1])
                for t in real[0]:
                    self.classes[token_class(t)] += 1
                d = disagreement(text, real, model)
                if d:
                    self.stats['lex disagreements'] += 1
                    bad.append({'label': label, 'ctx': ctx, 'text': text, 'difference': d})
        self.wall = time.time() - t0
        return bad

    def report(self, bad, run):
        """the lexer correspondence broke: replay files (first 3), after a search for a property failure"""
        if not bad:
            return
        found = run.search_failure() if run is not None else []
        done = set()
        for b in bad[:12]:
            if len(done) >= 3:
                break
            try:
                small = shrink_text(b['text'])
                d2 = differs([small])[0]
            except Exception:  # noqa
                small, d2 = b['text'], None
            if not d2:
                small, d2 = b['text'], b['difference']
            if small in done:       # the same minimal text again
                continue
            done.add(small)
            obj = {'kind': 'lexer-correspondence', 'engine': 'verilog', 'level': 'characters', 'what': WHAT, 'source': b['label'],
                   'text': small if len(small) <= 100000 else None, 'text_length': len(small), 'difference': d2,
                   'original_difference': b['difference'], 'original_text_length': len(b['text']),
                   'replay': 'checks/run %s --replay <this file>' % run.prop if run is not None else None}
            if b['ctx']:
                obj.update({k: v for k, v in b['ctx'].items() if k in ('file', 'derived')})
            if obj['text'] is None and 'file' not in obj:
                obj['text'] = small
            if found:
                obj['property_failure_found'] = found[0]
            run.rep.violation('lex-%s' % common.sha(small), obj, found_input=bool(found))

    def evidence(self):
        return {'what': 'every Verilog text of the run (generated designs, corpus, wild documents, bundled examples as VerilogTokenizer reads '
                        'them from the zip) and %d character-level damaged variants / short random strings: extracted Fmt/VLex.v tokenize_raw_loop / tokenize_loop vs '
                        'VerilogTokenizer.generate_tokens / has_next+next, token by token' % self.ndamaged,
                'texts_compared': self.stats['lex texts compared'], 'characters': self.stats['lex characters'],
                'raw_tokens_compared': self.stats['lex raw tokens compared'], 'seen_tokens_compared': self.stats['lex seen tokens compared'],
                'disagreements': self.stats['lex disagreements'], 'non_ascii_skipped': self.stats['lex non-ascii skipped'],
                'undecodable_skipped': self.stats['lex undecodable skipped'], 'duplicates_skipped': self.stats['lex duplicate texts'],
                'texts_by_source': dict(sorted(self.sources.items())), 'token_classes': dict(sorted(self.classes.items())),
                'wall_s': round(self.wall, 2)}


def replay(obj, run):
    """re-run the comparison on the stored text (or file) of a lexer replay file"""
    lc = LexCheck(run.seed)
    if obj.get('text') is not None:
        lc.add('replay', obj['text'], None)
    elif obj.get('file'):
        lc.add_file('replay', obj['file'])
    bad = lc.finish()
    lc.report(bad, run)
    return lc
