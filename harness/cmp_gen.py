"""Engine `cmp` (property C20): netlists, faithful copies and single structural mutations.

A *case* is plain data (JSON): how to build the netlist, how the copy is obtained and which edit
operations ("mops", addressed by position paths, executed through spydrnet's public API) turn the
copy into the mutated copy.  Everything is replayable from the case alone.

  build:  {"ops": [...ir protocol ops of harness/netgen.py...], "mops": [...]}  or  {"mops": [...]}
  copy:   "rebuild" (same build run a second time) | "clone" (Netlist.clone()) |
          "edif" (compose to EDIF, parse back)
  mutate: [mop, ...] applied to the copy;   cls: name of the mutation class

        further mops: ["reorder", kind, parent path, permutation] (siblings / pins of a wire through the
        public reorder setters), ["lower", port path, index]
paths:  ["N"] netlist, ["T"] top instance, ["L",i] library, ["D",i,j] definition,
        ["P",i,j,k] port, ["C",i,j,k] cable, ["W",i,j,k,w] wire, ["U",i,j,k] child instance
pins:   ["I",i,j,k,bit] inner pin of port k;  ["O",i,j,k,[i2,j2,k2],bit] pin of child k for port
        k2 of definition (i2,j2) (= the child's reference) at that bit
"""
import io, os, contextlib, tempfile, signal
import spydrnet as sdn

DIRS = [sdn.UNDEFINED, sdn.INOUT, sdn.IN, sdn.OUT]


class Inapplicable(Exception):
    pass


# ---------------------------------------------------------------- paths
def resolve(n, p):
    k = p[0]
    if k == 'N':
        return n
    if k == 'T':
        return n.top_instance
    lib = n.libraries[p[1]]
    if k == 'L':
        return lib
    d = lib.definitions[p[2]]
    if k == 'D':
        return d
    if k == 'P':
        return d.ports[p[3]]
    if k == 'C':
        return d.cables[p[3]]
    if k == 'W':
        return d.cables[p[3]].wires[p[4]]
    if k == 'U':
        return d.children[p[3]]
    raise ValueError(p)


def resolve_pin(n, a):
    if a[0] == 'I':
        return n.libraries[a[1]].definitions[a[2]].ports[a[3]].pins[a[4]]
    inst = n.libraries[a[1]].definitions[a[2]].children[a[3]]
    ip = n.libraries[a[4][0]].definitions[a[4][1]].ports[a[4][2]].pins[a[5]]
    return inst.pins[ip]


def def_path(n, d):
    for i, l in enumerate(n.libraries):
        for j, x in enumerate(l.definitions):
            if x is d:
                return ['D', i, j]
    return None


# ---------------------------------------------------------------- mops (public API only)
def apply_mop(n, m):
    v = m[0]
    if v == 'direction':
        resolve(n, m[1]).direction = DIRS[m[2]]
    elif v == 'add_pin':
        resolve(n, m[1]).create_pin()
    elif v == 'del_pin':
        port = resolve(n, m[1])
        port.remove_pin(port.pins[m[2]])
    elif v == 'scalar':
        resolve(n, m[1]).is_scalar = bool(m[2])
    elif v == 'add_wire':
        resolve(n, m[1]).create_wire()
    elif v == 'del_wire':
        cable = resolve(n, m[1])
        cable.remove_wire(cable.wires[m[2]])
    elif v == 'disconnect':
        w = resolve(n, m[1])
        w.disconnect_pin(w.pins[m[2]])
    elif v == 'connect':
        w = resolve(n, m[1])
        pin = resolve_pin(n, m[2])
        if m[3] is None:
            w.connect_pin(pin)
        else:
            w.connect_pin(pin, position=m[3])
    elif v == 'setref':
        resolve(n, m[1]).reference = None if m[2] is None else resolve(n, m[2])
    elif v == 'props':
        e = resolve(n, m[1])
        if m[2] is None:
            del e['EDIF.properties']
        else:
            e['EDIF.properties'] = [dict(d) for d in m[2]]
    elif v == 'create':
        kind, parent, name = m[1], resolve(n, m[2]), m[3]
        if kind == 'library':
            parent.create_library(name=name)
        elif kind == 'definition':
            parent.create_definition(name=name)
        elif kind == 'port':
            p = parent.create_port(name=name, pins=m[4])
            if len(m) > 5 and m[5] is not None:
                p.direction = DIRS[m[5]]
        elif kind == 'cable':
            parent.create_cable(name=name, wires=m[4])
        elif kind == 'child':
            parent.create_child(name=name, reference=None if m[4] is None else resolve(n, m[4]))
        else:
            raise ValueError(m)
    elif v == 'remove':
        kind, e = m[1], resolve(n, m[2])
        if kind == 'library':
            n.remove_library(e)
        elif kind == 'definition':
            e.library.remove_definition(e)
        elif kind == 'port':
            e.definition.remove_port(e)
        elif kind == 'cable':
            e.definition.remove_cable(e)
        elif kind == 'child':
            e.parent.remove_child(e)
        else:
            raise ValueError(m)
    elif v == 'settop':
        n.top_instance = None if m[1] is None else resolve(n, m[1])
    elif v == 'rename':
        e = resolve(n, m[1])
        if m[2] is None:
            if e.name is not None:
                del e.name
        else:
            e.name = m[2]
    elif v == 'reorder':
        # public reorder setters (they accept permutations of the current members only)
        kind, parent, perm = m[1], resolve(n, m[2]), m[3]
        attr = {'library': 'libraries', 'definition': 'definitions', 'port': 'ports', 'cable': 'cables',
                'child': 'children', 'pin': 'pins', 'portpin': 'pins'}[kind]
        cur = list(getattr(parent, attr))
        if sorted(perm) != list(range(len(cur))):
            raise ValueError(m)
        setattr(parent, attr, [cur[x] for x in perm])
    elif v == 'lower':
        resolve(n, m[1]).lower_index = m[2]
    elif v == 'oid':
        e = resolve(n, m[1])
        if m[2] is None:
            del e['EDIF.original_identifier']
        else:
            e['EDIF.original_identifier'] = m[2]
    else:
        raise ValueError(m)


def apply_mops(n, mops):
    for m in mops:
        apply_mop(n, m)


# ---------------------------------------------------------------- building
def build_netlist(build):
    """-> real netlist.  ir-protocol ops run in an ir_world.World (closed before returning)."""
    if build.get('ops'):
        from ir_world import World
        w = World(listen=False)
        try:
            for op in build['ops']:
                out = w.apply(op)
                if out != 'ok':
                    raise RuntimeError('build op refused: %r -> %s' % (op, out))
            n = w.objs[0]
        finally:
            w.close()
    else:
        n = sdn.Netlist()
    apply_mops(n, build.get('mops', []))
    return n


class _Timeout(Exception):
    pass


def _alarm(*a):
    raise _Timeout()


def make_copy(n, build, kind):
    """a faithful copy of n; Inapplicable if the route is not available for this netlist"""
    if kind == 'rebuild':
        return build_netlist(build)
    if kind == 'clone':
        return n.clone()
    if kind == 'edif':
        # the EDIF composer orders libraries by dependency and does not terminate when two
        # libraries instantiate each other's cells (reported to the EDIF engine; not C20's business)
        deps = set()
        for l in n.libraries:
            for d in l.definitions:
                for c in d.children:
                    if c.reference is not None and c.reference.library is not l:
                        deps.add((id(l), id(c.reference.library)))
        if any((y, x) in deps for (x, y) in deps):
            raise Inapplicable('edif route: mutually dependent libraries')
        old = signal.signal(signal.SIGALRM, _alarm)
        try:
            with tempfile.TemporaryDirectory() as td:
                f = os.path.join(td, 'x.edf')
                signal.alarm(4)
                try:
                    with contextlib.redirect_stdout(io.StringIO()):
                        sdn.compose(n, f)
                        m = sdn.parse(f)
                finally:
                    signal.alarm(0)
            return m
        except _Timeout:
            raise Inapplicable('edif route timed out')
        except Exception as e:  # noqa  - the round trip itself is the business of C03/C05
            raise Inapplicable('edif route: %s' % type(e).__name__)
        finally:
            signal.signal(signal.SIGALRM, old)
            sdn.namespace_manager.default = 'DEFAULT'
    raise ValueError(kind)


# ---------------------------------------------------------------- random base netlists
def tok_of_s(s):
    return '-' if s == '' else ','.join(str(ord(c)) for c in s)


def rand_props(rng):
    ps = []
    for k in range(rng.randint(1, 3)):
        d = {'identifier': 'P%d' % k,
             'value': rng.choice(['abc', 'x', 0, 1, 7, True, False, '1'])}
        if rng.random() < 0.3:
            d['original_identifier'] = 'p[%d]' % k
        ps.append(d)
    return ps


def gen_build(rng, mode):
    """mode 'named': everything named (the property's domain); since the repairs of the comparer's
       lookups / assignment-name test / compare_ports this includes, as ordinary cases, names with
       the characters * ? [ ] (among them the sibling pair 'ab', 'a*'), names SDN_Assignment_<x>
       with fewer than four fields, and ports without pins.
       mode 'wild': unnamed elements (connected unnamed instances included), assignment names,
       wildcard characters, original identifiers, missing top instance (outside the domain:
       correspondence, no exception other than AssertionError, an equal copy is accepted)."""
    import netgen
    from ir_world import World
    depth = rng.choice([1, 1, 2, 2, 3])
    ops, info = netgen.build(rng, depth=depth, max_leaf=rng.randint(1, 3),
                             max_children=rng.randint(1, 4))
    extra = []
    ports = [p for d in info['ports'] for p, _ in info['ports'][d]]
    cables = [c for d in info['cables'] for c, _ in info['cables'][d]]
    kids = [x for d in info['children'] for x, _ in info['children'][d]]
    defs = list(info['all_defs'])
    libs = list(info['libs'])
    cand = []
    if mode == 'named' and rng.random() < 0.5:
        # names that are not plain identifiers: taken literally by the comparer
        odd = ['a*', 'p?', 'q[0]', 'x]', '[k', '*', 'u?', 'LEAF*', 'M?_0', 'b[1:0]', '?*', '[]', 'a[*]', 'ab*', '*b']
        pool = ports + cables + kids + defs
        for e in rng.sample(pool, k=min(rng.randint(1, 4), len(pool))):
            cand.append(['setname', str(e), tok_of_s(rng.choice(odd))])
        groups = [g for g in list(info['ports'].values()) + list(info['cables'].values()) + list(info['children'].values())
                  if len(g) >= 2]
        if groups and rng.random() < 0.6:
            # the second name, read as a pattern, matches the first
            a, b = rng.sample(rng.choice(groups), 2)
            first, second = rng.choice([('ab', 'a*'), ('ab', 'a?'), ('x1', '*'), ('q[0]', 'q[*]'), ('ab', '*b')])
            cand.append(['setname', str(a[0]), tok_of_s(first)])
            cand.append(['setname', str(b[0]), tok_of_s(second)])
        rng.shuffle(cand)
    if mode == 'named' and rng.random() < 0.3:
        # SDN_Assignment_ names with fewer than four fields are ordinary names
        for x in rng.sample(kids, k=min(rng.randint(1, 2), len(kids))):
            cand.append(['setname', str(x), tok_of_s(rng.choice(['SDN_Assignment_7', 'SDN_Assignment_', 'SDN_Assignment_x',
                                                                 'SDN_Assignment_*']))])
    if mode == 'wild':
        for e in rng.sample(ports + cables + kids + defs + libs, k=min(rng.randint(0, 4), len(ports + cables + kids + defs + libs))):
            cand.append(['delname', str(e)])
        for x in rng.sample(kids, k=min(rng.randint(0, 3), len(kids))):
            r = rng.random()
            nm = 'SDN_Assignment_%d_%d' % (rng.randint(0, 2), rng.randint(1, 2)) if r < 0.85 else rng.choice(['SDN_Assignment_7', 'SDN_Assignment_'])
            cand.append(['setname', str(x), tok_of_s(nm)])
        if rng.random() < 0.3:
            e = rng.choice(ports + cables + kids + defs)
            cand.append(['setname', str(e), tok_of_s(rng.choice(['*', 'p?', 'q*', 'c?', 'u*', 'u?', 'LEAF*', 'M?_0']))])
        for e in rng.sample(ports + cables + kids + defs + libs, k=min(rng.randint(0, 2), len(ports))):
            cand.append(['dset', str(e), tok_of_s('EDIF.original_identifier'), 's:' + tok_of_s('o[%d]' % rng.randint(0, 3))])
        if rng.random() < 0.1:
            cand.append(['settop', str(info['netlist']), 'N'])
        if rng.random() < 0.1:
            cand.append(['delname', str(info['netlist'])])
        rng.shuffle(cand)
    if cand:
        # keep the decorations the API accepts
        w = World(listen=False)
        try:
            for op in ops:
                assert w.apply(op) == 'ok'
            for op in cand:
                if w.apply(op) == 'ok':
                    extra.append(op)
        finally:
            w.close()
    if mode == 'named' and rng.random() < 0.35:
        # sibling instances whose names differ only in letter case (legal in the IR and in Verilog)
        groups = [kids for kids in info['children'].values() if len(kids) >= 2]
        if groups:
            kids = rng.choice(groups)
            a, b = rng.sample(kids, 2)
            extra.append(['setname', str(a[0]), tok_of_s('sync')])
            extra.append(['setname', str(b[0]), tok_of_s('SYNC')])
    build = {'ops': ops + extra, 'mops': []}
    # a twin: a definition with the name and the ports of an existing one, in another library
    # (so that re-pointing an instance can change only the library of its reference)
    n = build_netlist(build)
    if len(n.libraries) >= 2 and rng.random() < 0.5:
        i = rng.randrange(len(n.libraries))
        j = rng.choice([x for x in range(len(n.libraries)) if x != i])
        cands = [d for d in n.libraries[i].definitions
                 if d.name is not None and d.ports and all(e.name != d.name for e in n.libraries[j].definitions)]
        if cands:
            d = rng.choice(cands)
            k = len(n.libraries[j].definitions)
            build['mops'].append(['create', 'definition', ['L', j], d.name])
            for p in d.ports:
                build['mops'].append(['create', 'port', ['D', j, k], p.name, len(p.pins), DIRS.index(p.direction)])
    # ports without pins (an ordinary case since the repair of compare_ports)
    n = build_netlist(build)
    if rng.random() < (0.3 if mode == 'named' else 0.15):
        for _ in range(rng.randint(1, 2)):
            i = rng.randrange(len(n.libraries))
            if n.libraries[i].definitions:
                j = rng.randrange(len(n.libraries[i].definitions))
                nm = 'zw%d' % len(build['mops'])
                if all(p.name != nm for p in n.libraries[i].definitions[j].ports):
                    build['mops'].append(['create', 'port', ['D', i, j], nm, 0, rng.randrange(4)])
    # properties on some instances (same on the netlist and on its copy)
    n = build_netlist(build)
    for i, l in enumerate(n.libraries):
        for j, d in enumerate(l.definitions):
            for k, c in enumerate(d.children):
                if rng.random() < 0.5:
                    build['mops'].append(['props', ['U', i, j, k], rand_props(rng)])
    if n.top_instance is not None and rng.random() < 0.5:
        build['mops'].append(['props', ['T'], rand_props(rng)])
    return build


# ---------------------------------------------------------------- mutation classes
def _defs(n):
    return [(i, j, d) for i, l in enumerate(n.libraries) for j, d in enumerate(l.definitions)]


def _pick(rng, l):
    if not l:
        raise Inapplicable('no target')
    return rng.choice(l)


def _fresh(n, base):
    return base  # names 'zz_*' never occur in generated netlists


def _outer_addr(n, i, j, k, inst, ip):
    rp = def_path(n, inst.reference)
    port = ip.port
    return ['O', i, j, k, [rp[1], rp[2], inst.reference.ports.index(port)], port.pins.index(ip)]


def m_port_dir(rng, n):
    i, j, d = _pick(rng, [x for x in _defs(n) if x[2].ports])
    k = rng.randrange(len(d.ports))
    cur = DIRS.index(d.ports[k].direction)
    return [['direction', ['P', i, j, k], rng.choice([x for x in range(4) if x != cur])]]


def m_port_width(rng, n):
    i, j, d = _pick(rng, [x for x in _defs(n) if x[2].ports])
    k = rng.randrange(len(d.ports))
    if rng.random() < 0.5:
        return [['add_pin', ['P', i, j, k]]]
    return [['del_pin', ['P', i, j, k], rng.randrange(len(d.ports[k].pins))]]


def m_port_array(rng, n):
    c = [(i, j, k, p) for i, j, d in _defs(n) for k, p in enumerate(d.ports) if len(p.pins) == 1]
    i, j, k, p = _pick(rng, c)
    return [['scalar', ['P', i, j, k], 0 if p.is_scalar else 1]]


def m_cable_width(rng, n):
    c = [(i, j, k, cb) for i, j, d in _defs(n) for k, cb in enumerate(d.cables)]
    i, j, k, cb = _pick(rng, c)
    if rng.random() < 0.5 or not cb.wires:
        return [['add_wire', ['C', i, j, k]]]
    return [['del_wire', ['C', i, j, k], rng.randrange(len(cb.wires))]]


def _connections(n, outer):
    out = []
    for i, j, d in _defs(n):
        for k, cb in enumerate(d.cables):
            for w, wire in enumerate(cb.wires):
                for pos, pin in enumerate(wire.pins):
                    if isinstance(pin, sdn.OuterPin) == outer:
                        out.append((i, j, d, k, w, pos, pin))
    return out


def _move(rng, n, i, j, k, w, pos, target_addr, target_pin, in_place):
    mops = []
    if target_pin.wire is not None:
        # the target is in use: free it first (a second difference; class gets the suffix +steal)
        for (i2, j2, d2, k2, w2, pos2, pin2) in _connections(n, True) + _connections(n, False):
            if pin2 is target_pin or (isinstance(pin2, sdn.OuterPin) and isinstance(target_pin, sdn.OuterPin)
                                      and pin2 == target_pin):
                if (i2, j2, k2, w2) == (i, j, k, w):
                    raise Inapplicable('target on the same wire')
                mops.append(['disconnect', ['W', i2, j2, k2, w2], pos2])
                break
        else:
            raise Inapplicable('target wire not found')
    mops.append(['disconnect', ['W', i, j, k, w], pos])
    mops.append(['connect', ['W', i, j, k, w], target_addr, pos if in_place else None])
    return mops


def _m_conn_outer(which):
    def f(rng, n):
        i, j, d, k, w, pos, pin = _pick(rng, _connections(n, True))
        inst, ip = pin.instance, pin.inner_pin
        ki = list(d.children).index(inst)
        cands = []
        if which == 'inst':
            for k2, other in enumerate(d.children):
                if other is not inst and other.reference is not None:
                    for port in other.reference.ports:
                        for q in port.pins:
                            cands.append((k2, other, q))
        elif which == 'port':
            for port in inst.reference.ports:
                if port is not ip.port:
                    for q in port.pins:
                        cands.append((ki, inst, q))
        else:
            for q in ip.port.pins:
                if q is not ip:
                    cands.append((ki, inst, q))
        free = [c for c in cands if c[1].pins[c[2]].wire is None]
        if which == 'inst' and rng.random() < 0.9:
            # the hardest move to see: same pin of another instance of the SAME cell, target open
            twins = [c for c in free if c[1].reference is inst.reference and c[2] is ip]
            if twins:
                k2, other, q = _pick(rng, twins)
                return _move(rng, n, i, j, k, w, pos, _outer_addr(n, i, j, k2, other, q), other.pins[q], rng.random() < 0.7)
        steal = not free or rng.random() < 0.15
        k2, other, q = _pick(rng, cands if steal else free)
        return _move(rng, n, i, j, k, w, pos, _outer_addr(n, i, j, k2, other, q), other.pins[q], rng.random() < 0.7)
    return f


def _m_conn_inner(which):
    def f(rng, n):
        i, j, d, k, w, pos, pin = _pick(rng, _connections(n, False))
        port = pin.port
        cands = []
        if which == 'port':
            for kp, p2 in enumerate(d.ports):
                if p2 is not port:
                    for b, q in enumerate(p2.pins):
                        cands.append((kp, b, q))
        else:
            kp = list(d.ports).index(port)
            for b, q in enumerate(port.pins):
                if q is not pin:
                    cands.append((kp, b, q))
        free = [c for c in cands if c[2].wire is None]
        steal = not free or rng.random() < 0.15
        kp, b, q = _pick(rng, cands if steal else free)
        return _move(rng, n, i, j, k, w, pos, ['I', i, j, kp, b], q, rng.random() < 0.7)
    return f


def m_net_bit(rng, n):
    """a whole net moves to another (so far floating) bit of its own cable: every pin keeps its wire-mates, the
    cable keeps its width and the number of connected wires - only WHICH BIT of the cable the net is changes"""
    cands = []
    for i, j, d in _defs(n):
        for k, cb in enumerate(d.cables):
            used = [w for w, wire in enumerate(cb.wires) if len(wire.pins) > 0]
            free = [w for w, wire in enumerate(cb.wires) if len(wire.pins) == 0]
            for w in used:
                for w2 in free:
                    cands.append((i, j, d, k, w, w2))
    if not cands:
        raise Inapplicable('no cable with a connected and a floating wire')
    i, j, d, k, w, w2 = _pick(rng, cands)
    mops = []
    for pin in list(d.cables[k].wires[w].pins):
        if isinstance(pin, sdn.OuterPin):
            inst = pin.instance
            addr = _outer_addr(n, i, j, list(d.children).index(inst), inst, pin.inner_pin)
        else:
            port = pin.port
            addr = ['I', i, j, list(d.ports).index(port), list(port.pins).index(pin)]
        mops.append(['disconnect', ['W', i, j, k, w], 0])
        mops.append(['connect', ['W', i, j, k, w2], addr, None])
    return mops


def m_port_bits(rng, n):
    """the pins of a multi-bit port are re-ordered (public Port.pins setter): every net that touches the port - inside
    the cell and on every instance of it - now touches another BIT of it; widths, names and the number of
    connections stay the same"""
    cands = []
    for i, j, d in _defs(n):
        for k, p in enumerate(d.ports):
            pins = list(p.pins)
            if len(pins) >= 2:
                marks = []
                for ip in pins:
                    outer = tuple(sorted(id(x.pins[ip].wire) for x in d.references if ip in x.pins))
                    marks.append((id(ip.wire), outer))
                if len(set(marks)) >= 2:
                    cands.append((i, j, k, marks))
    if not cands:
        raise Inapplicable('no multi-bit port whose bits are connected differently')
    i, j, k, marks = _pick(rng, cands)
    for _ in range(20):
        perm = _perm(rng, len(marks))
        if [marks[x] for x in perm] != marks:
            return [['reorder', 'portpin', ['P', i, j, k], perm]]
    raise Inapplicable('no effective permutation')


def _shape(d):
    return [len(p.pins) for p in d.ports]


def m_inst_ref(rng, n):
    c = [(i, j, k, x) for i, j, d in _defs(n) for k, x in enumerate(d.children) if x.reference is not None]
    i, j, k, x = _pick(rng, c)
    same = [(i2, j2) for i2, j2, d2 in _defs(n) if d2 is not x.reference and _shape(d2) == _shape(x.reference)]
    twins = [(i2, j2) for i2, j2 in same if n.libraries[i2].definitions[j2].name == x.reference.name]
    if twins and rng.random() < 0.7:
        same = twins
    if same and rng.random() < 0.8:
        i2, j2 = rng.choice(same)
        return [['setref', ['U', i, j, k], ['D', i2, j2]]]
    i2, j2, d2 = _pick(rng, [t for t in _defs(n) if t[2] is not x.reference])
    return [['setref', ['U', i, j, k], None], ['setref', ['U', i, j, k], ['D', i2, j2]]]


def m_top_ref(rng, n):
    t = n.top_instance
    if t is None or t.reference is None:
        raise Inapplicable('no top')
    i2, j2, d2 = _pick(rng, [x for x in _defs(n) if x[2] is not t.reference and _shape(x[2]) == _shape(t.reference)])
    return [['setref', ['T'], ['D', i2, j2]]]


def _insts(n, with_props=None):
    out = [(['U', i, j, k], x) for i, j, d in _defs(n) for k, x in enumerate(d.children)]
    if n.top_instance is not None:
        out.append((['T'], n.top_instance))
    if with_props is not None:
        out = [t for t in out if ('EDIF.properties' in t[1]) == with_props]
    return out


def _copy_props(x):
    return [dict(d) for d in x['EDIF.properties']]


def m_prop_value(rng, n):
    p, x = _pick(rng, _insts(n, True))
    ps = _copy_props(x)
    di = rng.randrange(len(ps))
    key = rng.choice(sorted(ps[di]))
    old = ps[di][key]
    ps[di][key] = rng.choice([v for v in ['abc', 'x', 'zz', 0, 7, 9, '1'] if not (v == old)])
    return [['props', p, ps]]


def m_prop_added_entry(rng, n):
    p, x = _pick(rng, _insts(n, True))
    return [['props', p, _copy_props(x) + [{'identifier': 'EXTRA', 'value': 5}]]]


def m_prop_added_key(rng, n):
    p, x = _pick(rng, _insts(n, True))
    ps = _copy_props(x)
    ps[rng.randrange(len(ps))]['zz_extra'] = 'e'
    return [['props', p, ps]]


def m_prop_new(rng, n):
    p, x = _pick(rng, _insts(n, False))
    return [['props', p, [{'identifier': 'NEW', 'value': 1}]]]


def m_prop_dropped_entry(rng, n):
    p, x = _pick(rng, _insts(n, True))
    ps = _copy_props(x)
    del ps[rng.randrange(len(ps))]
    return [['props', p, ps]]


def m_prop_dropped_key(rng, n):
    p, x = _pick(rng, _insts(n, True))
    ps = _copy_props(x)
    di = rng.randrange(len(ps))
    del ps[di][rng.choice(sorted(ps[di]))]
    return [['props', p, ps]]


def m_prop_deleted(rng, n):
    p, x = _pick(rng, _insts(n, True))
    return [['props', p, None]]


def _nm(rng, base):
    return base if rng.random() < 0.85 else None


def m_lib_add(rng, n):
    return [['create', 'library', ['N'], _nm(rng, 'zz_lib')]]


def m_lib_drop(rng, n):
    if not n.libraries:
        raise Inapplicable('no library')
    return [['remove', 'library', ['L', rng.randrange(len(n.libraries))]]]


def m_def_add(rng, n):
    return [['create', 'definition', ['L', rng.randrange(len(n.libraries))], _nm(rng, 'zz_def')]]


def m_def_drop(rng, n):
    i, j, d = _pick(rng, _defs(n))
    return [['remove', 'definition', ['D', i, j]]]


def m_port_add(rng, n):
    i, j, d = _pick(rng, _defs(n))
    return [['create', 'port', ['D', i, j], _nm(rng, 'zz_port'), rng.randint(1, 2), rng.randrange(4)]]


def m_port_drop(rng, n):
    i, j, d = _pick(rng, [x for x in _defs(n) if x[2].ports])
    return [['remove', 'port', ['P', i, j, rng.randrange(len(d.ports))]]]


def m_cable_add(rng, n):
    i, j, d = _pick(rng, _defs(n))
    return [['create', 'cable', ['D', i, j], _nm(rng, 'zz_cable'), rng.randint(1, 2)]]


def m_cable_drop(rng, n):
    i, j, d = _pick(rng, [x for x in _defs(n) if x[2].cables])
    return [['remove', 'cable', ['C', i, j, rng.randrange(len(d.cables))]]]


def m_inst_add(rng, n):
    i, j, d = _pick(rng, _defs(n))
    i2, j2, d2 = _pick(rng, [x for x in _defs(n) if x[2] is not d])
    return [['create', 'child', ['D', i, j], _nm(rng, 'zz_inst'), ['D', i2, j2]]]


def m_inst_drop(rng, n):
    i, j, d = _pick(rng, [x for x in _defs(n) if x[2].children])
    return [['remove', 'child', ['U', i, j, rng.randrange(len(d.children))]]]


def m_top_drop(rng, n):
    if n.top_instance is None:
        raise Inapplicable('no top')
    return [['settop', None]]


def m_oid(rng, n):
    c = [['L', i] for i, l in enumerate(n.libraries)] + [['D', i, j] for i, j, d in _defs(n)]
    c += [['P', i, j, k] for i, j, d in _defs(n) for k in range(len(d.ports))]
    c += [['C', i, j, k] for i, j, d in _defs(n) for k in range(len(d.cables))]
    c += [['U', i, j, k] for i, j, d in _defs(n) for k in range(len(d.children))]
    return [['oid', _pick(rng, c), 'zz_oid']]


def m_rename(rng, n):
    c = [['L', i] for i, l in enumerate(n.libraries)] + [['D', i, j] for i, j, d in _defs(n)]
    c += [['P', i, j, k] for i, j, d in _defs(n) for k in range(len(d.ports))]
    c += [['C', i, j, k] for i, j, d in _defs(n) for k in range(len(d.cables))]
    c += [['U', i, j, k] for i, j, d in _defs(n) for k in range(len(d.children))]
    c += [['N']]
    return [['rename', _pick(rng, c), rng.choice(['zz_other', None, 'SDN_Assignment_0_1'])]]


# ---------------------------------------------------------------- the same structure, listed differently
def _perm(rng, k):
    p = list(range(k))
    for _ in range(6):
        rng.shuffle(p)
        if p != list(range(k)):
            break
    return p


def m_perm(rng, n):
    """sibling lists of the copy in another order (pins of wires, ports / cables / children of
    definitions, definitions of libraries, libraries): structurally the same netlist.  Inner lists
    first, so that every positional path is valid when its mop runs."""
    mops = []
    for i, l in enumerate(n.libraries):
        for j, d in enumerate(l.definitions):
            for k, cb in enumerate(d.cables):
                for w, wire in enumerate(cb.wires):
                    if len(wire.pins) >= 2 and rng.random() < 0.5:
                        mops.append(['reorder', 'pin', ['W', i, j, k, w], _perm(rng, len(wire.pins))])
            for kind, lst in (('port', d.ports), ('cable', d.cables), ('child', d.children)):
                if len(lst) >= 2 and rng.random() < 0.7:
                    mops.append(['reorder', kind, ['D', i, j], _perm(rng, len(lst))])
        if len(l.definitions) >= 2 and rng.random() < 0.7:
            mops.append(['reorder', 'definition', ['L', i], _perm(rng, len(l.definitions))])
    if len(n.libraries) >= 2 and rng.random() < 0.7:
        mops.append(['reorder', 'library', ['N'], _perm(rng, len(n.libraries))])
    if not mops:
        raise Inapplicable('nothing to reorder')
    return mops


def m_pin_order(rng, n):
    """the pins of one or more wires listed in another order: the same connectivity"""
    c = [(i, j, k, w, wire) for i, j, d in _defs(n) for k, cb in enumerate(d.cables)
         for w, wire in enumerate(cb.wires) if len(wire.pins) >= 2]
    if not c:
        raise Inapplicable('no wire with two pins')
    mops = []
    for i, j, k, w, wire in rng.sample(c, k=min(len(c), rng.randint(1, 3))):
        mops.append(['reorder', 'pin', ['W', i, j, k, w], _perm(rng, len(wire.pins))])
    return mops


def m_lower_index(rng, n):
    c = [(i, j, k, p) for i, j, d in _defs(n) for k, p in enumerate(d.ports)]
    i, j, k, p = _pick(rng, c)
    return [['lower', ['P', i, j, k], p.lower_index + rng.randint(1, 3)]]


# classes outside the rotation of single differences (kept apart so that the stream of generated
# single-difference cases does not depend on them)
EXTRA_CLASSES = {
    'perm': (m_perm, 'perm'),                 # equivalent: must be accepted
    'pin_order': (m_pin_order, 'pin_order'),  # equivalent (the pins of a wire are a set): must be accepted
    'lower_index': (m_lower_index, 'lower_index'),  # not listed by the property, never read
}

# class -> (generator, class of the same pair read in the other direction)
CLASSES = {
    'port_dir': (m_port_dir, 'port_dir'),
    'port_width': (m_port_width, 'port_width'),
    'port_array': (m_port_array, 'port_array'),
    'cable_width': (m_cable_width, 'cable_width'),
    'conn_inst': (_m_conn_outer('inst'), 'conn_inst'),
    'conn_port': (_m_conn_outer('port'), 'conn_port'),
    'conn_bit': (_m_conn_outer('bit'), 'conn_bit'),
    'conn_port_in': (_m_conn_inner('port'), 'conn_port_in'),
    'conn_bit_in': (_m_conn_inner('bit'), 'conn_bit_in'),
    'net_bit': (m_net_bit, 'net_bit'),
    'port_bits': (m_port_bits, 'port_bits'),
    'inst_ref': (m_inst_ref, 'inst_ref'),
    'top_ref': (m_top_ref, 'top_ref'),
    'prop_value': (m_prop_value, 'prop_value'),
    'prop_added_entry': (m_prop_added_entry, 'prop_dropped_entry'),
    'prop_added_key': (m_prop_added_key, 'prop_dropped_key'),
    'prop_new': (m_prop_new, 'prop_deleted'),
    'prop_dropped_entry': (m_prop_dropped_entry, 'prop_added_entry'),
    'prop_dropped_key': (m_prop_dropped_key, 'prop_added_key'),
    'prop_deleted': (m_prop_deleted, 'prop_new'),
    'lib_add': (m_lib_add, 'lib_drop'), 'lib_drop': (m_lib_drop, 'lib_add'),
    'def_add': (m_def_add, 'def_drop'), 'def_drop': (m_def_drop, 'def_add'),
    'port_add': (m_port_add, 'port_drop'), 'port_drop': (m_port_drop, 'port_add'),
    'cable_add': (m_cable_add, 'cable_drop'), 'cable_drop': (m_cable_drop, 'cable_add'),
    'inst_add': (m_inst_add, 'inst_drop'), 'inst_drop': (m_inst_drop, 'inst_add'),
    # examined by the comparer but not listed by the property (correspondence only)
    'top_drop': (m_top_drop, 'top_add'),
    'oid': (m_oid, 'oid_rev'),
    'rename': (m_rename, 'rename'),
}

# the classes the property says the comparer examines (among named elements)
PROPERTY_CLASSES = [c for c in CLASSES if c not in ('top_drop', 'oid', 'rename')]


def lookup_class(cls):
    return CLASSES.get(cls) or EXTRA_CLASSES.get(cls)


def rev_class(cls):
    """label of the same pair read in the other direction; 'x&y' = two differences at once"""
    out = []
    for part in cls.split('&'):
        base, _, suf = part.partition('+')
        e = lookup_class(base)
        out.append((e[1] if e else base + '~rev') + ('+' + suf if suf else ''))
    return '&'.join(out)


def class_parts(cls):
    return [part.split('+')[0] for part in cls.split('&')]


def gen_mutation(rng, n, cls):
    """mops for one mutation of class cls on netlist n (inspected, not modified)"""
    return lookup_class(cls)[0](rng, n)
