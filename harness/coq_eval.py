"""Cross-check of extraction + driver glue against the kernel's own evaluator (engines ir, xform, hier).

The correspondence runs execute the Gallina models through OCaml extraction and the hand-written
line-protocol drivers (ocaml/driver_<engine>.ml). This module evaluates THE SAME Gallina
definitions on THE SAME inputs with `Eval vm_compute` inside coqc and compares:

  ir / xform   for every op history: outcome code of every op, running hash of the per-call event
               logs, hash of a canonical serialisation of the final state (all computed in Coq by
               coq/theories/Extract/Digest.v: ir_case / x_case)  versus  the driver's `digest`
               line, which reports the same triple twice: from the extracted ir_case / x_case applied
               to the parsed ops, and from the driver's own incremental loop (the one the
               correspondence uses) + extracted ev_more / state_digest; and versus the first token
               of the driver's dump lines (printing of outcomes).
  hier         for every session (ops, queries, edit ops, queries ...): the canonical answers of
               coq/theories/Extract/DigestHier.v: hcase  versus  the driver's `qd` answers (extracted
               hanswer) and versus the driver's own `q` answers (hand-written dispatch on the memoised
               state - the path the correspondence uses).

The printer from protocol tokens to Coq constructor terms below is written independently of the OCaml
parsers; it is strict (exact token counts, known tokens only) and raises TokenError on anything else.
Coq numerals: nat literals above 1000 are written `(N.to_nat k%N)`; strings are `list N` code points."""
import collections, concurrent.futures, os, re, shutil, subprocess, tempfile, time
import common

MAX_CASES_PER_FILE = 300
NAT_LITERAL_MAX = 1000


class TokenError(ValueError):
    pass


# ------------------------------------------------------------------------------------------------
# tokens -> Coq terms

def _int(t, what):
    if not re.fullmatch(r'-?\d+', t):
        raise TokenError('bad %s token %r' % (what, t))
    return int(t)


def c_nat(t, what='nat'):
    n = _int(t, what)
    if n < 0:
        raise TokenError('negative %s token %r' % (what, t))
    return '%d%%nat' % n if n <= NAT_LITERAL_MAX else '(N.to_nat %d%%N)' % n


def c_optnat(t, what='nat'):
    return 'None' if t == '~' else '(Some %s)' % c_nat(t, what)


def c_str(t):
    if t == '-':
        return '(@nil N)'
    cps = t.split(',')
    for c in cps:
        if not re.fullmatch(r'\d+', c):
            raise TokenError('bad string token %r' % t)
    return '[%s]%%N' % ';'.join(cps)


def c_optstr(t):
    return 'None' if t == '~' else '(Some %s)' % c_str(t)


def c_bool(t, what='bool'):
    if t not in ('0', '1'):
        raise TokenError('bad %s token %r' % (what, t))
    return 'true' if t == '1' else 'false'


def c_val(t):
    if t == 'n':
        return 'VNone'
    if t.startswith('s:'):
        return '(VStr %s)' % c_str(t[2:])
    if t.startswith('i:'):
        return '(VInt (%d)%%Z)' % _int(t[2:], 'int value')
    if t in ('b:0', 'b:1'):
        return '(VBool %s)' % ('true' if t == 'b:1' else 'false')
    raise TokenError('bad value token %r' % t)


def c_pin(t):
    if t == 'D':
        return 'PDet'
    if t[:1] == 'I':
        return '(PIn %s)' % c_nat(t[1:], 'pin id')
    if t[:1] in ('O', 'S'):      # S = "the stored outer pin object of (instance, inner pin)": same model value
        ab = t[1:].split('.')
        if len(ab) != 2:
            raise TokenError('bad pin token %r' % t)
        return '(POut %s %s)' % (c_nat(ab[0], 'pin instance'), c_nat(ab[1], 'pin inner'))
    raise TokenError('bad pin token %r' % t)


KIND = {'netlist': 'KNetlist', 'library': 'KLibrary', 'definition': 'KDefinition', 'port': 'KPort',
        'cable': 'KCable', 'wire': 'KWire', 'pin': 'KPin', 'instance': 'KInstance'}
REL = {'libs': 'RLibs', 'defs': 'RDefs', 'ports': 'RPorts', 'cables': 'RCables', 'children': 'RChildren',
       'pins': 'RPins', 'wires': 'RWires'}
DIR = {'0': 'DUndef', '1': 'DInout', '2': 'DIn', '3': 'DOut'}


def _look(tab, t, what):
    if t not in tab:
        raise TokenError('bad %s token %r' % (what, t))
    return tab[t]


def c_list(items):
    return '[%s]' % '; '.join(items) if items else '[]'


def _take_props(toks):
    """<count> (<key> <value>)*  ->  (coq term, rest)"""
    if not toks:
        raise TokenError('missing property count')
    n = _int(toks[0], 'count')
    if n < 0 or len(toks) < 1 + 2 * n:
        raise TokenError('short property list')
    kv = ['(%s, %s)' % (c_str(toks[1 + 2 * j]), c_val(toks[2 + 2 * j])) for j in range(n)]
    return c_list(kv), toks[1 + 2 * n:]


def _take_n(toks, f):
    if not toks:
        raise TokenError('missing count')
    n = _int(toks[0], 'count')
    if n < 0 or len(toks) != 1 + n:
        raise TokenError('list length does not match its count: %r' % (toks,))
    return c_list([f(x) for x in toks[1:]])


def _arity(t, n):
    if len(t) != n:
        raise TokenError('op %r: expected %d tokens, got %d' % (' '.join(t), n, len(t)))


def c_op(t):
    """one `ir` op (list of tokens) as a term of IR.Ops.op"""
    if not t:
        raise TokenError('empty op')
    o = t[0]
    if o == 'new':
        if len(t) < 4:
            raise TokenError('short op %r' % (t,))
        props, rest = _take_props(t[3:])
        if rest:
            raise TokenError('trailing tokens in %r' % (t,))
        return '(ONew %s %s %s)' % (_look(KIND, t[1], 'kind'), c_optstr(t[2]), props)
    if o == 'create':
        if len(t) < 7:
            raise TokenError('short op %r' % (t,))
        props, rest = _take_props(t[4:])
        if len(rest) != 2:
            raise TokenError('bad create %r' % (t,))
        return '(OCreate %s %s %s %s %s %s)' % (_look(REL, t[1], 'rel'), c_nat(t[2], 'id'), c_optstr(t[3]), props,
                                                c_nat(rest[0], 'items'), c_optnat(rest[1], 'id'))
    if o == 'items':
        _arity(t, 4)
        return '(OCreateItems %s %s %s)' % (_look(REL, t[1], 'rel'), c_nat(t[2], 'id'), c_nat(t[3], 'items'))
    if o == 'add':
        _arity(t, 5)
        return '(OAdd %s %s %s %s)' % (_look(REL, t[1], 'rel'), c_nat(t[2], 'id'), c_nat(t[3], 'id'), c_optnat(t[4], 'position'))
    if o == 'remove':
        _arity(t, 4)
        return '(ORemove %s %s %s)' % (_look(REL, t[1], 'rel'), c_nat(t[2], 'id'), c_nat(t[3], 'id'))
    if o in ('removefrom', 'reorder'):
        if o == 'removefrom' and t[-1] == 'set' and len(t) >= 5:
            t = t[:-1]   # spelling marker of the harness (the caller hands the same elements over as a set): not part of the model's op
        if len(t) < 4:
            raise TokenError('short op %r' % (t,))
        return '(%s %s %s %s)' % ('ORemoveFrom' if o == 'removefrom' else 'OReorder', _look(REL, t[1], 'rel'),
                                  c_nat(t[2], 'id'), _take_n(t[3:], lambda x: c_nat(x, 'id')))
    if o in ('reorderwire', 'disconnectfrom'):
        if len(t) < 3:
            raise TokenError('short op %r' % (t,))
        return '(%s %s %s)' % ('OReorderWire' if o == 'reorderwire' else 'ODisconnectFrom', c_nat(t[1], 'id'), _take_n(t[2:], c_pin))
    if o == 'connect':
        _arity(t, 4)
        return '(OConnect %s %s %s)' % (c_nat(t[1], 'id'), c_pin(t[2]), c_optnat(t[3], 'position'))
    if o == 'disconnect':
        _arity(t, 3)
        return '(ODisconnect %s %s)' % (c_nat(t[1], 'id'), c_pin(t[2]))
    if o == 'setref':
        if len(t) == 4 and t[2] == '~' and t[3] == 'del':
            t = t[:3]    # spelling marker of the harness (`del inst.reference`): the same op
        _arity(t, 3)
        return '(OSetReference %s %s)' % (c_nat(t[1], 'id'), c_optnat(t[2], 'id'))
    if o == 'settop':
        _arity(t, 3)
        a = t[2]
        if a == 'N':
            arg = 'TopNone'
        elif a[:1] == 'I':
            arg = '(TopInst %s)' % c_nat(a[1:], 'id')
        elif a[:1] == 'D':
            arg = '(TopDef %s)' % c_nat(a[1:], 'id')
        else:
            raise TokenError('bad top argument %r' % a)
        return '(OSetTop %s %s)' % (c_nat(t[1], 'id'), arg)
    if o == 'setname':
        _arity(t, 3)
        return '(OSetName %s %s)' % (c_nat(t[1], 'id'), c_optstr(t[2]))
    if o == 'delname':
        _arity(t, 2)
        return '(ODelName %s)' % c_nat(t[1], 'id')
    if o == 'dset':
        _arity(t, 4)
        return '(ODSet %s %s %s)' % (c_nat(t[1], 'id'), c_str(t[2]), c_val(t[3]))
    if o in ('ddel', 'dpop'):
        _arity(t, 3)
        return '(%s %s %s)' % ('ODDel' if o == 'ddel' else 'ODPop', c_nat(t[1], 'id'), c_str(t[2]))
    if o in ('downto', 'scalar'):
        if o == 'scalar' and len(t) == 4 and t[3] == 'array':
            t = t[:3]    # spelling marker of the harness (the caller assigns the inverse attribute is_array): the same op
        _arity(t, 3)
        return '(%s %s %s)' % ('OSetDownto' if o == 'downto' else 'OSetScalar', c_nat(t[1], 'id'), c_bool(t[2]))
    if o == 'lower':
        _arity(t, 3)
        return '(OSetLower %s (%d)%%Z)' % (c_nat(t[1], 'id'), _int(t[2], 'lower index'))
    if o == 'direction':
        if len(t) == 4 and t[3] in ('enum', 'int', 'strl', 'stru', 'strc'):
            t = t[:3]    # spelling marker of the harness (Port.Direction member / documented int / documented string): the same op
        _arity(t, 3)
        return '(OSetDirection %s %s)' % (c_nat(t[1], 'id'), _look(DIR, t[2], 'direction'))
    if o == 'policy':
        _arity(t, 2)
        return '(OSetPolicy %s)' % ('PolEdif' if c_bool(t[1], 'policy') == 'true' else 'PolDefault')
    raise TokenError('unknown op kind %r' % o)


def c_xop(t):
    """one `xform` op as a term of Xform.Xform.xop"""
    if t and t[0] == 'clone':
        _arity(t, 2)
        return '(XClone %s)' % c_nat(t[1], 'id')
    if t and t[0] in ('uniquify', 'flatten'):
        _arity(t, 3)
        return '(%s %s %s)' % ('XUniquify' if t[0] == 'uniquify' else 'XFlatten', c_nat(t[1], 'id'), c_nat(t[2], 'fuel'))
    return '(XIr %s)' % c_op(t)


def c_href(t):
    """protocol: ids ROOT FIRST joined by '.', '-' = empty; model: LEAF FIRST"""
    if t == '-':
        return '(@nil nat)'
    return c_list([c_nat(x, 'href id') for x in reversed(t.split('.'))])


HKIND = {'inst': 'HKInst', 'port': 'HKPort', 'pin': 'HKPin', 'cable': 'HKCable', 'wire': 'HKWire'}
SEL = {'INSIDE': 'SInside', 'OUTSIDE': 'SOutside', 'BOTH': 'SBoth', 'ALL': 'SAll'}


def c_hq(t):
    """one `hier` query (tokens after 'q') as a term of Extract.DigestHier.hq"""
    if not t:
        raise TokenError('empty query')
    o = t[0]
    if o in ('wf', 'ipaths', 'prep'):
        _arity(t, 2)
        return '(%s %s)' % ({'wf': 'HWf', 'ipaths': 'HIpaths', 'prep': 'HPrep'}[o], c_nat(t[1], 'id'))
    if o == 'enum':
        _arity(t, 4)
        return '(HEnum %s %s %s)' % (_look(HKIND, t[1], 'kind'), c_nat(t[2], 'id'), c_bool(t[3]))
    if o == 'below':
        _arity(t, 4)
        return '(HBelow %s %s %s)' % (_look(HKIND, t[1], 'kind'), c_bool(t[2]), c_href(t[3]))
    if o == 'hrefs':
        _arity(t, 2)
        it = t[1]
        if it[:1] == 'O':
            ab = it[1:].split('.')
            if len(ab) != 2:
                raise TokenError('bad item token %r' % it)
            return '(HHrefs (QOuter %s %s))' % (c_nat(ab[0], 'id'), c_nat(ab[1], 'id'))
        return '(HHrefs (QId %s))' % c_nat(it, 'id')
    if o == 'hrefsin':
        _arity(t, 3)
        return '(HHrefsIn %s %s)' % (c_nat(t[1], 'id'), c_href(t[2]))
    if o in ('valid', 'unique', 'name', 'inner', 'outer'):
        _arity(t, 2)
        return '(%s %s)' % ({'valid': 'HValid', 'unique': 'HUnique', 'name': 'HName', 'inner': 'HInner', 'outer': 'HOuter'}[o], c_href(t[1]))
    if o in ('hwires', 'hcables'):
        _arity(t, 5)
        return '(%s %s %s %s %s)' % ('HHwires' if o == 'hwires' else 'HHcables', c_nat(t[1], 'id'), _look(SEL, t[2], 'selection'),
                                     c_bool(t[3]), c_href(t[4]))
    if o == 'hpins':
        _arity(t, 3)
        return '(HHpins %s %s)' % (c_bool(t[1]), c_href(t[2]))
    if o == 'ordered':
        _arity(t, 5)
        kind = _look({'hwires': 'OWires', 'hcables': 'OCables', 'hpins': 'OPins', 'hports': 'OPorts'}, t[1], 'ordered query')
        return '(HOrdered %s %s %s %s)' % (kind, c_bool(t[2]), c_list([c_str(x) for x in t[3].split(';')]), c_href(t[4]))
    if o == 'roots':
        if len(t) < 7:
            raise TokenError('short roots query')
        kind = _look({'hwires': 'HKWire', 'hcables': 'HKCable', 'hpins': 'HKPin', 'hports': 'HKPort'}, t[1], 'roots query')
        roots = []
        for r in t[6:]:
            if r[:1] == 'H':
                roots.append('(RHref %s)' % c_href(r[1:]))
            elif r[:1] == 'X':
                roots.append('(RObj (QId %s))' % c_nat(r[1:], 'id'))
            elif r[:1] == 'O' and len(r[1:].split('.')) == 2:
                a, b = r[1:].split('.')
                roots.append('(RObj (QOuter %s %s))' % (c_nat(a, 'id'), c_nat(b, 'id')))
            else:
                raise TokenError('bad root token %r' % r)
        return '(HRoots %s %s %s %s %s %s)' % (kind, c_nat(t[2], 'id'), _look(SEL, t[3], 'selection'), c_bool(t[4]),
                                               c_list([c_str(x) for x in t[5].split(';')]), c_list(roots))
    raise TokenError('unknown query kind %r' % o)


def c_hitem(line):
    """one line of a hier session: 'q <query>' or an ir op"""
    toks = [x for x in line.strip().split(' ') if x != '']
    if toks and toks[0] == 'q':
        return '(HQ %s)' % c_hq(toks[1:])
    return '(HOp %s)' % c_op(toks)


ENGINES = {
    'ir': dict(imports='From SV Require Import Base.Base IR.State IR.NS IR.Ops Extract.Digest.',
               fn='ir_case', elem='list op', item=c_op),
    'xform': dict(imports='From SV Require Import Base.Base IR.State IR.NS IR.Ops Xform.Clone Xform.Xform Extract.Digest.',
                  fn='x_case', elem='list xop', item=c_xop),
    'hier': dict(imports='From SV Require Import Base.Base IR.State IR.NS IR.Ops Hier.Paths Hier.Enum Hier.Trace Hier.TraceRoots Extract.DigestHier.',
                 fn='hcase', elem='list hitem', item=c_hitem),
}


def coq_source(engine, cases):
    """cases: list of histories (ir/xform: list of token lists; hier: list of protocol lines)"""
    e = ENGINES[engine]
    body = []
    for h in cases:
        body.append('  [' + ';\n   '.join(e['item'](x) for x in h) + ']')
    return ('From Coq Require Import List Arith NArith ZArith.\n%s\nImport ListNotations.\n'
            'Eval vm_compute in (map %s ([\n%s\n] : list (%s))).\n' % (e['imports'], e['fn'], ';\n'.join(body), e['elem']))


# ------------------------------------------------------------------------------------------------
# parser of the value coqc prints: nested lists [a; b], tuples (a, b), numbers (optional %scope)

_TOK = re.compile(r'\s*(\d+|[\[\]();,:]|%[A-Za-z_]+|[A-Za-z_][A-Za-z_0-9\'.]*)')


def parse_coq_value(text):
    """text: stdout of coqc for ONE `Eval`: `     = <value>\\n     : <type>`. Returns nested python lists/tuples/ints."""
    flat = ' '.join(text.split())        # join the wrapped lines
    k = flat.find('= ')
    if k < 0:
        raise ValueError('no value in coqc output: %r' % flat[:200])
    s = flat[k + 2:]
    pos = 0
    depth = 0
    toks = []
    while pos < len(s):
        m = _TOK.match(s, pos)
        if not m:
            if s[pos:].strip() == '':
                break
            raise ValueError('unexpected character in coqc output at %r' % s[pos:pos + 40])
        toks.append(m.group(1))
        pos = m.end()
        if toks[-1] in '[(':
            depth += 1
        elif toks[-1] in '])':
            depth -= 1
        elif toks[-1] == ':' and depth == 0:
            break                        # the type follows: not part of the value
    i = [0]

    def value():
        if i[0] >= len(toks):
            raise ValueError('truncated value')
        t = toks[i[0]]
        i[0] += 1
        if t == '[':
            out = []
            if toks[i[0]] == ']':
                i[0] += 1
            else:
                while True:
                    out.append(value())
                    sep = toks[i[0]]
                    i[0] += 1
                    if sep == ']':
                        break
                    if sep != ';':
                        raise ValueError('expected ; or ] but got %r' % sep)
            v = out
        elif t == '(':
            out = [value()]
            while True:
                sep = toks[i[0]]
                i[0] += 1
                if sep == ')':
                    break
                if sep != ',':
                    raise ValueError('expected , or ) but got %r' % sep)
                out.append(value())
            v = out[0] if len(out) == 1 else tuple(out)
        elif t.isdigit():
            v = int(t)
        elif t == 'nil':
            v = []
        else:
            raise ValueError('unexpected token %r in coqc value' % t)
        while i[0] < len(toks) and toks[i[0]].startswith('%'):
            i[0] += 1
        return v
    v = value()
    if i[0] >= len(toks) or toks[i[0]] != ':':
        raise ValueError('value not followed by its type: %r' % toks[i[0]:i[0] + 5])
    return v


# ------------------------------------------------------------------------------------------------
# kernel side: write cases_<k>.v, run coqc in parallel, parse

def _run_coqc(path):
    t0 = time.time()
    r = subprocess.run(['timeout', '600', 'coqc', '-R', os.path.join(common.COQ, 'theories'), 'SV', path],
                       capture_output=True, text=True, cwd=os.path.dirname(path))
    return r.returncode, r.stdout, r.stderr, time.time() - t0


def kernel_eval(engine, cases, per_file=None, workers=8, weights=None):
    """Evaluate the cases inside coqc. Returns (values, info): values[i] is the parsed value of case i, or
    ('error', text) when its file failed; info = dict(files, wall_s, errors)."""
    t0 = time.time()
    n = len(cases)
    if n == 0:
        return [], dict(files=0, wall_s=0.0, errors=[])
    if per_file is None:
        per_file = max(1, min(MAX_CASES_PER_FILE, -(-n // workers)))
    per_file = min(per_file, MAX_CASES_PER_FILE)
    # balanced files: the cost of a case grows faster than its length, so the longest cases are spread first
    nfiles = -(-n // per_file)
    bins = [[] for _ in range(nfiles)]
    load = [0] * nfiles
    wt = [len(c) ** 2 for c in cases] if weights is None else list(weights)
    for i in sorted(range(n), key=lambda i: -wt[i]):
        j = min((j for j in range(nfiles) if len(bins[j]) < per_file), key=lambda j: load[j])
        bins[j].append(i)
        load[j] += wt[i]
    chunks = [sorted(b) for b in bins if b]
    d = tempfile.mkdtemp(prefix='coq_eval_%s_' % engine)
    values = [None] * n
    errors = []
    try:
        paths = []
        for j, idx in enumerate(chunks):
            p = os.path.join(d, 'cases_%d.v' % j)
            with open(p, 'w') as f:
                f.write(coq_source(engine, [cases[i] for i in idx]))
            paths.append(p)
        with concurrent.futures.ThreadPoolExecutor(max_workers=workers) as ex:
            results = list(ex.map(_run_coqc, paths))
        for idx, p, (rc, out, err, wall) in zip(chunks, paths, results):
            bad = None
            if rc != 0:
                bad = 'coqc exit %d on %s: %s' % (rc, os.path.basename(p), (out + err)[-600:])
            else:
                try:
                    v = parse_coq_value(out)
                    if not isinstance(v, list) or len(v) != len(idx):
                        bad = 'parsed %s values for %d cases' % (len(v) if isinstance(v, list) else '?', len(idx))
                except ValueError as e:
                    bad = 'cannot parse coqc output: %s' % e
            if bad:
                errors.append(bad)
                for i in idx:
                    values[i] = ('error', bad)
            else:
                for i, x in zip(idx, v):
                    values[i] = x
    finally:
        shutil.rmtree(d, ignore_errors=True)
    return values, dict(files=len(chunks), wall_s=round(time.time() - t0, 2), errors=errors)


# ------------------------------------------------------------------------------------------------
# extracted side: the drivers

OUT_CODE = {'ok': (0,), 'assert': (1,), 'value': (2,), 'key': (3, 6), 'runtime': (4,), 'type': (5,),
            'outoffuel': (7,), 'attr': (8,)}   # XStuck (6) is printed like KeyError by the drivers


def driver_digests(engine, histories):
    """[(dump outcome tokens, digest line fields or error text)] per history, through `digest`"""
    drv = os.path.join(common.OCAML_BUILD, 'driver_' + engine)
    lines = []
    for h in histories:
        lines.append('reset')
        lines += [' '.join(op) for op in h]
        lines.append('digest')
    r = subprocess.run([drv], input='\n'.join(lines) + '\n', capture_output=True, text=True)
    res, cur = [], None
    for l in r.stdout.split('\n'):
        if l == 'reset':
            cur = {'outs': [], 'digest': None}
            res.append(cur)
        elif l.startswith('digest ') and cur is not None:
            cur['digest'] = l.split(' ')[1:]
        elif l and cur is not None:
            cur['outs'].append(l.split(' ', 1)[0])
    if r.returncode != 0 or len(res) != len(histories):
        err = 'driver_%s exit %d: %s' % (engine, r.returncode, r.stderr[-400:])
        res += [{'outs': [], 'digest': None, 'error': err} for _ in range(len(histories) - len(res))]
        if res and r.returncode != 0:
            res[-1]['error'] = err
    return res


def check_digests(engine, histories, per_file=None, weights=None):
    """ir / xform. Returns dict(cases, files, mismatches=[...], wall_s, errors)."""
    t0 = time.time()
    # the driver runs (4 processes) go on while coqc works
    nchunk = max(1, -(-len(histories) // 4))
    pool = concurrent.futures.ThreadPoolExecutor(max_workers=4)
    futs = [pool.submit(driver_digests, engine, histories[k:k + nchunk]) for k in range(0, len(histories), nchunk)]
    try:
        kern, info = kernel_eval(engine, histories, per_file, weights=weights)
    except TokenError as e:
        pool.shutdown(wait=True)
        return dict(cases=len(histories), files=0, mismatches=[dict(case=None, what='printer', detail=str(e))],
                    wall_s=round(time.time() - t0, 2), errors=[str(e)])
    drv = [x for f in futs for x in f.result()]
    pool.shutdown(wait=True)
    mism = []
    for c, (h, k, d) in enumerate(zip(histories, kern, drv)):
        if isinstance(k, tuple) and len(k) == 2 and k[0] == 'error':
            mism.append(dict(case=c, what='kernel evaluation failed', detail=k[1]))
            continue
        if d.get('error') or d['digest'] is None or len(d['digest']) != 5:
            mism.append(dict(case=c, what='driver gave no digest', detail=d.get('error') or d['digest']))
            continue
        k_outs, k_ev, k_st = k
        f = d['digest']
        pure = ([] if f[0] == '-' else [int(x) for x in f[0].split(',')], int(f[1]), int(f[2]))
        loop = (int(f[3]), int(f[4]))
        bad = []
        if pure[0] != list(k_outs):
            j = next((j for j, (a, b) in enumerate(zip(pure[0], k_outs)) if a != b), min(len(pure[0]), len(k_outs)))
            bad.append(dict(field='outcome codes (extracted case function)', step=j, op=' '.join(h[j]) if j < len(h) else None,
                            vm_compute=list(k_outs)[j:j + 1], extracted=pure[0][j:j + 1]))
        if pure[1] != k_ev:
            bad.append(dict(field='event hash (extracted case function)', vm_compute=k_ev, extracted=pure[1]))
        if pure[2] != k_st:
            bad.append(dict(field='final state digest (extracted case function)', vm_compute=k_st, extracted=pure[2]))
        if loop[0] != k_ev:
            bad.append(dict(field='event hash (driver loop)', vm_compute=k_ev, driver=loop[0]))
        if loop[1] != k_st:
            bad.append(dict(field='final state digest (driver loop)', vm_compute=k_st, driver=loop[1]))
        toks = d['outs']
        if len(toks) != len(k_outs):
            bad.append(dict(field='number of dump lines', vm_compute=len(k_outs), driver=len(toks)))
        else:
            for j, (tk, code) in enumerate(zip(toks, k_outs)):
                if code not in OUT_CODE.get(tk, ()):
                    bad.append(dict(field='printed outcome', step=j, op=' '.join(h[j]), vm_compute=code, driver=tk))
                    break
        if bad:
            mism.append(dict(case=c, what='vm_compute and extracted model differ', differences=bad[:4],
                             ops=[' '.join(o) for o in h]))
    kinds = collections.Counter(o[0] + (':' + o[1] if o[0] in ('new', 'create', 'add', 'remove', 'removefrom', 'reorder', 'items') else '')
                                for h in histories for o in h)
    distinct = len(set(k[2] for k in kern if isinstance(k, tuple) and len(k) == 3))
    return dict(cases=len(histories), files=info['files'], mismatches=mism, wall_s=round(time.time() - t0, 2),
                errors=info['errors'], coqc_wall_s=info['wall_s'], kinds=dict(sorted(kinds.items())),
                distinct_values=distinct, steps=sum(len(h) for h in histories))


# -- hier

def canon_q_answer(query_toks, line):
    """the driver's `q` answer line -> the canonical rows of DigestHier.hanswer"""
    o = query_toks[0]
    if line.startswith('ERROR'):
        return ('error', line)
    if line == 'FUEL':
        return [[0]]
    if line == 'RAISES' and o == 'ordered':
        return [[2]]
    if o == 'wf':
        m = re.fullmatch(r'inv1a=([01]) inv2a=([01]) kinds=([01]) acyclic=([01]) pinwire=([01]) standalone=([01])', line)
        if not m:
            return ('error', line)
        return [[1], [int(x) for x in m.groups()]]
    if o in ('valid', 'unique'):
        if line not in ('0', '1'):
            return ('error', line)
        return [[1], [int(line)]]
    if o == 'name':
        if line == '!':
            return [[1], [0]]
        if not line.startswith('s:'):
            return ('error', line)
        return [[1], [1] + ([] if line[2:] == '-' else [int(x) for x in line[2:].split(',')])]
    if o == 'prep':
        if not line.startswith('usum='):
            return ('error', line)
        return [[1], [int(line[5:])]]
    # lists of references, printed ROOT FIRST
    return [[1]] + [[int(x) for x in reversed(h.split('.'))] for h in line.split(' ') if h]


def canon_qd_answer(line):
    if line.startswith('ERROR'):
        return ('error', line)
    return [[int(x) for x in row.split('.')] if row else [] for row in line.split('|')]


def driver_sessions(sessions, mode):
    """mode 'q' or 'qd': one driver run over all sessions; returns the answer lines per session"""
    drv = os.path.join(common.OCAML_BUILD, 'driver_hier')
    lines = []
    for s in sessions:
        lines.append('reset')
        for l in s:
            lines.append(mode + l[1:] if l.startswith('q ') else l)
    r = subprocess.run([drv], input='\n'.join(lines) + '\n', capture_output=True, text=True)
    out = r.stdout.split('\n')
    res, j = [], 0
    for s in sessions:
        if j >= len(out) or out[j] != 'reset':
            res.append(None)
            continue
        res.append(out[j + 1:j + 1 + len(s)])
        j += 1 + len(s)
    return res


def sample_session(rec, k, rng):
    """rec: [(line sent to driver_hier, answer line)] of one case as recorded by hier_world.Model. Keeps the
    lines after the last 'reset': every op, and at most k of the queries (chosen by rng evenly over the kinds
    of query, order kept).
    Returns (lines, answers)."""
    last = max([j for j, (l, _a) in enumerate(rec) if l == 'reset'], default=-1)
    seg = rec[last + 1:]
    qidx = [j for j, (l, a) in enumerate(seg) if l.startswith('q ') and not a.startswith('ERROR')]
    if len(qidx) > k:
        # stratified over the kinds of query, so that the rare ones (wf, prep, enum ...) are evaluated too
        groups = collections.OrderedDict()
        for j in qidx:
            t = seg[j][0].split(' ')
            groups.setdefault(' '.join(t[1:3]) if t[1] in ('enum', 'below') else t[1] + t[3] if t[1] in ('hwires', 'hcables') else t[1] + t[2] if t[1] in ('roots', 'ordered') else t[1], []).append(j)
        order = list(groups.values())
        for g in order:
            rng.shuffle(g)
        rng.shuffle(order)
        keep = set()
        while len(keep) < k:
            for g in order:
                if g and len(keep) < k:
                    keep.add(g.pop())
    else:
        keep = set(qidx)
    sel = [(l, a) for j, (l, a) in enumerate(seg) if (not l.startswith('q ')) or j in keep]
    if not any(l.startswith('q ') for l, _a in sel):
        return [], []
    # kinds of query the driver serves but the checks never ask (ipaths, inner, outer): derived from what was asked
    # and appended, so that their glue is evaluated too (no recorded answer: None)
    extra = []
    nid = next((l.split(' ')[2] for l, _a in seg if l.startswith(('q wf ', 'q prep '))), None)
    if nid is not None:
        extra.append('q ipaths ' + nid)
    pins = [h for l, a in seg if l.startswith(('q hpins ', 'q enum pin ', 'q below pin ')) and a != 'FUEL' for h in a.split(' ') if h]
    for h in (rng.sample(pins, 2) if len(pins) > 2 else pins):
        extra += ['q inner ' + h, 'q outer ' + h]
    return [l for l, _a in sel] + extra, [a for _l, a in sel] + [None] * len(extra)


def check_hier(sessions, recorded=None, per_file=None):
    """sessions: list of lists of protocol lines (ops and 'q ...' queries, in order). recorded: the answers the
    correspondence run itself got from the driver for these lines (same shape), if available."""
    t0 = time.time()
    try:
        kern, info = kernel_eval('hier', sessions, per_file)
    except TokenError as e:
        return dict(cases=len(sessions), files=0, mismatches=[dict(case=None, what='printer', detail=str(e))],
                    wall_s=round(time.time() - t0, 2), errors=[str(e)], queries=0)
    qd = driver_sessions(sessions, 'qd')
    q = driver_sessions(sessions, 'q')
    mism = []
    nq = 0
    for c, (s, k) in enumerate(zip(sessions, kern)):
        if isinstance(k, tuple) and len(k) == 2 and k[0] == 'error':
            mism.append(dict(case=c, what='kernel evaluation failed', detail=k[1]))
            continue
        routes = [('extracted hanswer (qd)', qd[c]), ('driver dispatch (q)', q[c])]
        if recorded is not None and recorded[c] is not None:
            routes.append(('driver dispatch (q), as answered during the correspondence run', recorded[c]))
        bad = []
        for name, ans in routes:
            if ans is None or len(ans) != len(s) or len(k) != len(s):
                bad.append(dict(route=name, field='number of answers', vm_compute=len(k), driver=None if ans is None else len(ans)))
                continue
            for j, (l, kv, a) in enumerate(zip(s, k, ans)):
                if a is None:       # a derived query: nothing was recorded for it
                    continue
                toks = [x for x in l.split(' ') if x]
                if toks[0] == 'q':
                    got = canon_qd_answer(a) if name.startswith('extracted') else canon_q_answer(toks[1:], a)
                    ok = got == kv
                else:   # an op: the driver prints the outcome token, the kernel gives [[1]; [code]]
                    ok = len(kv) == 2 and kv[0] == [1] and len(kv[1]) == 1 and kv[1][0] in OUT_CODE.get(a, ())
                if not ok:
                    bad.append(dict(route=name, line=l, position=j, vm_compute=kv if len(str(kv)) < 400 else str(kv)[:400],
                                    driver=a[:400]))
                    break
        nq += sum(1 for l in s if l.startswith('q '))
        if bad:
            mism.append(dict(case=c, what='vm_compute and extracted model differ', differences=bad[:4], session=s))
    kinds = collections.Counter()
    for s in sessions:
        for l in s:
            t = l.split(' ')
            kinds['q ' + t[1] + (':' + t[2] if t[1] in ('enum', 'below') else ':' + t[3] if t[1] in ('hwires', 'hcables') else '')
                  if t[0] == 'q' else 'op ' + t[0]] += 1
    distinct = len(set(repr(a) for k in kern if isinstance(k, list) for a in k))
    return dict(cases=len(sessions), files=info['files'], mismatches=mism, wall_s=round(time.time() - t0, 2),
                errors=info['errors'], coqc_wall_s=info['wall_s'], queries=nq, kinds=dict(sorted(kinds.items())),
                distinct_values=distinct, steps=sum(len(s) for s in sessions))


# ------------------------------------------------------------------------------------------------
# reporting shared by the three checks

def first_bad_prefix(engine, lines):
    """shortest prefix of a mismatching case (op lines, or session lines for hier) on which the sides still differ"""
    n = len(lines)
    if engine == 'hier':
        cuts = [j + 1 for j, l in enumerate(lines) if l.startswith('q ')]
        res = check_hier([lines[:c] for c in cuts])
    else:
        cuts = list(range(1, n + 1))
        res = check_digests(engine, [[l.split(' ') for l in lines[:c]] for c in cuts])
    bad = sorted(m['case'] for m in res['mismatches'] if m.get('case') is not None)
    return cuts[bad[0]] if bad else n


def report(rep, prop, engine, res, source='sample'):
    """VIOLATION lines (at most 3) for the mismatches of one cross-check; returns the evidence entry"""
    for k, m in enumerate(res['mismatches'][:3]):
        name = 'xcheck-%s' % common.sha(repr(sorted(m.items(), key=lambda kv: kv[0])))
        lines = m.get('ops') or m.get('session') or []
        obj = {'kind': 'correspondence-broken', 'engine': engine, 'xcheck': engine,
               'what': 'extraction/driver cross-check: the extracted model behind ocaml/driver_%s.ml and the '
                       'evaluation of the same Gallina definitions by `Eval vm_compute` inside coqc disagree '
                       '(or one of them failed) on this case' % engine,
               'source': m.get('source', source), 'differences': m.get('differences') or m.get('detail'),
               'replay': 'checks/run %s --replay <this file>' % prop}
        if k == 0 and lines:
            try:      # the first mismatch is cut down to the shortest prefix that still differs
                cut = first_bad_prefix(engine, lines)
                obj['first_differing_line'] = {'position': cut - 1, 'line': lines[cut - 1]}
                lines = lines[:cut]
            except Exception as e:  # noqa
                obj['first_differing_line'] = 'not localised: %s' % e
        obj['session' if engine == 'hier' else 'ops'] = lines
        rep.violation(name, obj, found_input=False)
    ev = {'cases': res['cases'], 'files': res['files'], 'mismatches': len(res['mismatches']), 'wall_s': res['wall_s'],
          'coqc_wall_s': res.get('coqc_wall_s'), 'errors': res.get('errors', [])[:3]}
    if 'queries' in res:
        ev['queries'] = res['queries']
    # sanity of the comparison itself: how many different final-state digests (ir, xform) / answers (hier) were compared
    ev['distinct_values_compared'] = res.get('distinct_values')
    ev['lines_evaluated'] = res.get('steps')
    ev['kinds_of_lines_evaluated'] = res.get('kinds', {})
    return ev


def replay(prop, obj, path):
    """--replay of a file written by report(): exit code, or None when the file is not one of ours"""
    engine = obj.get('xcheck')
    if engine not in ENGINES:
        return None
    import json
    if engine == 'hier':
        res = check_hier([obj.get('session', [])])
    else:
        res = check_digests(engine, [[l.split(' ') for l in obj.get('ops', [])]])
    print(json.dumps({'extraction_crosscheck': {k: v for k, v in res.items() if k != 'kinds'}}, indent=1, default=str))
    if res['mismatches']:
        print('VIOLATION property=%s replay=%s no-failing-input-found' % (prop, path))
        return 1
    return 0


def trusted_base_line(engine, ev):
    if ev is None:
        return ('extraction + ocaml/driver_%s.ml parsing: NOT cross-checked against vm_compute in this run' % engine)
    return ('extraction (ExtrOcamlBasic) + ocaml/driver_%s.ml op/query parsing and outcome printing are cross-checked in this run against '
            '`Eval vm_compute` of the same Gallina definitions (coq/theories/Extract/Digest*.v) on %d cases (%s); what stays '
            'trusted there: the printing of the dump lines and harness/coq_eval.py (token -> Coq term printer, output parser)'
            % (engine, ev['cases'], 'all agree' if not ev['mismatches'] else '%d MISMATCHES' % ev['mismatches']))


if __name__ == '__main__':
    import sys, json
    eng = sys.argv[1]
    lines = [l.strip() for l in open(sys.argv[2]).read().split('\n') if l.strip() and not l.startswith('#')]
    if eng == 'hier':
        out = check_hier([lines])
    else:
        out = check_digests(eng, [[l.split(' ') for l in lines]])
    print(json.dumps(out, indent=1, default=str))
    sys.exit(1 if out['mismatches'] else 0)
