"""EBLIF engine, implementation side: run the real reader/composer of spydrnet on a text, dump
the resulting objects canonically (same JSON shape as ocaml/driver_eblif.ml prints for the model),
tokenise a text into the model's documents (lines of tokens) and talk to the model driver.

Reusable by other properties (see the functions marked C15 / C16 at the end)."""
import io, json, os, shutil, subprocess, sys, tempfile, zipfile
sys.path.insert(0, os.path.dirname(os.path.abspath(__file__)))
import common

DRIVER = os.path.join(common.OCAML_BUILD, 'driver_eblif')
KNOWN_DATA_KEYS = {'.NAME', '.NS', 'EBLIF.type', 'EBLIF.cname', 'EBLIF.attr', 'EBLIF.param',
                   'EBLIF.output_covers', 'unconn'}


# ----------------------------------------------------------------------------- tokenising
def raw_stream(text):
    """what Tokenizer.generate_tokens yields: the words of every line up to a trailing comment, then a
    newline token (checked against the real tokenizer on every case: tokenisation_agrees)"""
    out = []
    for line in io.StringIO(text):
        words = line.split()
        if words and words[0].startswith('#') and words[0] != '#':
            words[0:1] = ['#', words[0][1:]]          # "#text" at the start of a line is the comment "# text"
        for k, w in enumerate(words):
            if k > 0 and w.startswith('#') and words[0] != '#':
                break                                 # a word starting with "#" ends a statement line
            out.append(w)
        out.append('\n')
    return out


class _Dangling(Exception):
    pass


def _next(st, pos, nested=False):
    """Tokenizer.next() on the raw stream: a backslash token makes next() call itself twice and return
    what the second call produced"""
    if pos >= len(st):
        if nested:
            raise _Dangling()
        raise StopIteration
    tok = st[pos]
    pos += 1
    if tok == '\\':
        _, pos = _next(st, pos, True)
        tok, pos = _next(st, pos, True)
    return tok, pos


def join_continuations(stream):
    """the tokens Tokenizer.next() returns, one after the other"""
    out, pos = [], 0
    while pos < len(stream):
        tok, pos = _next(stream, pos)
        out.append(tok)
    return out


def dangling_continuation(text):
    """texts whose continuations cannot be joined into lines beforehand: the input ends while next()
    is swallowing a continuation (StopIteration inside next()), or a backslash is the first word of a
    line (the reader's peek() sees the raw backslash)"""
    st = raw_stream(text)
    try:
        join_continuations(st)
    except _Dangling:
        return True
    return any(t == '\\' and (k == 0 or st[k - 1] == '\n') for k, t in enumerate(st))


def tokenise(text):
    """text -> document of the model: list of lines, each a list of tokens"""
    lines, cur = [], []
    try:
        joined = join_continuations(raw_stream(text))
    except _Dangling:
        joined = []
    for t in joined:
        if t == '\n':
            lines.append(cur)
            cur = []
        else:
            cur.append(t)
    if cur:
        lines.append(cur)
    return lines


def real_tokens(text):
    """the token stream of the real tokenizer, read with next() only"""
    from spydrnet.parsers.eblif.eblif_tokenizer import Tokenizer
    tk = Tokenizer.from_string(text)
    out = []
    while True:
        try:
            out.append(tk.next())
        except StopIteration:
            break
    return out


def tokenisation_agrees(text):
    """harness tokenisation vs the real tokenizer, token by token.  Returns None or a description."""
    mine = []
    for l in tokenise(text):
        mine += l + ['\n']
    real = real_tokens(text)
    if mine != real:
        for k, (a, b) in enumerate(zip(mine, real)):
            if a != b:
                return 'token %d: harness %r, tokenizer %r' % (k, a, b)
        return 'length: harness %d, tokenizer %d' % (len(mine), len(real))
    return None


def doc_ascii(doc):
    return all(ord(c) < 128 for l in doc for t in l for c in t)


# ----------------------------------------------------------------------------- model side
def enc_tok(t):
    return ','.join(str(ord(c)) for c in t) if t else '-'


def dec_doc(s):
    """the W line of the driver -> list of lines of tokens"""
    if s == '':
        return [[]]
    out = []
    for l in s.split(';'):
        out.append([''.join(chr(int(x)) for x in t.split(',')) if t != '-' else '' for t in l.split(' ') if t != ''])
    return out


def run_model(docs):
    """[doc] -> [(elab dump | {'error':..}, emitted doc | None, re-elab dump | None, predicates)]
    predicates = {'supported', 'roundtrippable', 'rt_check', 'written_supported'}: the boolean
    predicates of BlifSpec (supported d, roundtrippable n, equiv_b n (elab (emit n)), supported (emit n)) evaluated by the
    extracted model; None when the model has no netlist for the document"""
    inp = []
    for d in docs:
        inp.append('doc')
        for l in d:
            inp.append('L ' + ' '.join(enc_tok(t) for t in l))
        inp.append('end')
    r = subprocess.run([DRIVER], input='\n'.join(inp) + '\n', capture_output=True, text=True)
    if r.returncode != 0:
        raise RuntimeError('driver_eblif failed: ' + r.stderr[-500:])
    lines = r.stdout.split('\n')
    out = []
    tri = {'1': True, '0': False, '-': None}
    for k in range(len(docs)):
        e, w, rr, pp = lines[4 * k:4 * k + 4]
        assert e.startswith('E ') and w.startswith('W ') and rr.startswith('R ') and pp.startswith('P '), (e[:40], w[:40], rr[:40], pp[:40])
        ej = json.loads(e[2:])
        ps = pp.split()
        preds = {'supported': tri[ps[1]], 'roundtrippable': tri[ps[2]], 'rt_check': tri[ps[3]], 'written_supported': tri[ps[4]]}
        if w == 'W !':
            out.append((ej, None, None, preds))
        else:
            out.append((ej, dec_doc(w[2:]), json.loads(rr[2:]), preds))
    return out


# ----------------------------------------------------------------------------- implementation side
class TempDir:
    def __enter__(self):
        self.path = tempfile.mkdtemp(prefix='verif-eblif-')
        return self.path

    def __exit__(self, *a):
        shutil.rmtree(self.path, ignore_errors=True)


def parse_text(text, tmp, name='case.eblif'):
    """run the real reader; returns (netlist, None) or (None, exception class name)"""
    import spydrnet as sdn
    p = os.path.join(tmp, name)
    with open(p, 'w') as f:
        f.write(text)
    try:
        return sdn.parse(p), None
    except BaseException as e:  # StopIteration / AssertionError / ... are all outcomes of the reader
        if isinstance(e, (KeyboardInterrupt, SystemExit, MemoryError)):
            raise
        return None, type(e).__name__


def compose_text(netlist, tmp, name='out.eblif'):
    """run the real composer; returns (text, None) or (None, exception class name)"""
    p = os.path.join(tmp, name)
    if os.path.exists(p):
        os.remove(p)
    try:
        netlist.compose(p)
    except BaseException as e:
        if isinstance(e, (KeyboardInterrupt, SystemExit, MemoryError)):
            raise
        return None, type(e).__name__
    with open(p) as f:
        return f.read(), None


def _pin_tok(definition, pin):
    import spydrnet as sdn
    if isinstance(pin, sdn.InnerPin):
        port = pin.port
        if port is None:
            return 'DETACHED-INNER'
        where = 'TOP' if port.definition is definition else 'FOREIGN(%s)' % (port.definition.name if port.definition else None)
        return '%s.%s.%d' % (where, port.name, port.pins.index(pin))
    inst, ip = pin.instance, pin.inner_pin
    if inst is None or ip is None:
        return 'DETACHED-OUTER'
    if inst.parent is definition:
        where = 'I%d' % definition.children.index(inst)
    else:
        where = 'FOREIGN-INST(%s)' % inst.name
    return '%s.%s.%d' % (where, ip.port.name, ip.port.pins.index(ip))


def _cable_dump(definition, cable):
    return [cable.name, [sorted(_pin_tok(definition, p) for p in w.pins) for w in cable.wires]]


def dump_netlist(nl):
    """canonical dump of the real objects, same shape as the model driver's JSON"""
    import spydrnet as sdn
    out = {}
    top = nl.top_instance
    out['top'] = [top.name, top.reference.name if top.reference is not None else None] if top is not None else None
    out['name'] = nl.name
    out['comments'] = list(nl['EBLIF.comment']) if 'EBLIF.comment' in nl.data else []
    libs = {l.name: l for l in nl.libraries}
    out['work'] = [d.name for d in libs['work'].definitions] if 'work' in libs else []
    out['prim'] = sorted(d.name for d in libs['hdi_primitives'].definitions) if 'hdi_primitives' in libs else []
    models = {}
    for lib in nl.libraries:
        for d in lib.definitions:
            m = {'lib': lib.name}
            m['ports'] = [[p.name, p.direction.name, len(p.pins)] for p in d.ports]
            m['clock'] = list(d['EBLIF.clock']) if 'EBLIF.clock' in d.data else None
            insts = []
            for i in d.children:
                data = dict(i.data)
                extra = set(data) - KNOWN_DATA_KEYS
                e = {'name': i.name, 'ref': i.reference.name if i.reference is not None else None,
                     'type': data.get('EBLIF.type'), 'cname': data.get('EBLIF.cname'),
                     'attr': [[k, v] for k, v in data.get('EBLIF.attr', {}).items()],
                     'param': [[k, v] for k, v in data.get('EBLIF.param', {}).items()],
                     'covers': list(data['EBLIF.output_covers']) if 'EBLIF.output_covers' in data else None,
                     'unconn': list(data['unconn']) if 'unconn' in data else None,
                     'pins': [[ip.port.name, ip.port.pins.index(ip)] for ip in i._pins.keys()]}
                if extra:
                    e['unexpected_data_keys'] = sorted(extra)
                insts.append(e)
            m['insts'] = insts
            m['cables'] = [_cable_dump(d, c) for c in d.cables]
            # cables that are reachable from the definition's pins but no longer belong to it
            orphan = {}
            pins = [p for port in d.ports for p in port.pins] + [op for i in d.children for op in i.pins]
            for p in pins:
                w = p.wire
                if w is not None:
                    c = w.cable
                    if c is None:
                        orphan[id(w)] = ['<no cable>', [sorted(_pin_tok(d, q) for q in w.pins)]]
                    elif c.definition is not d:
                        orphan[id(c)] = _cable_dump(d, c)
            m['orphans'] = sorted(orphan.values())
            models[d.name] = m
    out['models'] = models
    return out


def hierarchy_is_cyclic(dump):
    """some model (transitively) instances itself: get_hinstances / the composer do not terminate"""
    if 'error' in dump:
        return False
    graph = {n: set(i['ref'] for i in m['insts']) for n, m in dump['models'].items()}
    state = {}

    def visit(n):
        if state.get(n) == 1:
            return True
        if state.get(n) == 2 or n not in graph:
            return False
        state[n] = 1
        if any(visit(r) for r in graph[n]):
            return True
        state[n] = 2
        return False
    return any(visit(n) for n in graph)


def normalise_model_dump(j):
    """the model prints orphans as sorted JSON fragments; bring both to comparable Python values"""
    if 'error' in j:
        return j
    for m in j['models'].values():
        m['orphans'] = sorted(m['orphans'])
    j['prim'] = sorted(j['prim'])
    return j


def first_difference(a, b, path=''):
    """first differing leaf of two JSON-like values"""
    if type(a) != type(b):
        return {'at': path, 'impl': a, 'model': b}
    if isinstance(a, dict):
        for k in sorted(set(a) | set(b)):
            if k not in a or k not in b:
                return {'at': path + '/' + str(k), 'impl': a.get(k, '<absent>'), 'model': b.get(k, '<absent>')}
            d = first_difference(a[k], b[k], path + '/' + str(k))
            if d:
                return d
        return None
    if isinstance(a, list):
        if len(a) != len(b):
            return {'at': path + '/len', 'impl': a if len(str(a)) < 300 else len(a), 'model': b if len(str(b)) < 300 else len(b)}
        for k, (x, y) in enumerate(zip(a, b)):
            d = first_difference(x, y, path + '/' + str(k))
            if d:
                return d
        return None
    return None if a == b else {'at': path, 'impl': a, 'model': b}


# ----------------------------------------------------------------------------- views used by the oracles
def pin_sets(dump, model_name):
    """nets of one model as a set of frozensets of pin tokens (wires without pins are not nets)"""
    m = dump['models'][model_name]
    nets = set()
    for name, wires in m['cables']:
        for w in wires:
            if w:
                nets.add(frozenset(w))
    return nets


def named_pin_sets(dump, model_name):
    """like pin_sets, but pins of instances are named by the instance name (for write-then-read,
    where the order of the instances changes)"""
    m = dump['models'][model_name]
    names = [i['name'] for i in m['insts']]
    nets = set()
    for cname, wires in m['cables']:
        for w in wires:
            if w:
                s = set()
                for p in w:
                    head, rest = p.split('.', 1)
                    if head.startswith('I') and head[1:].isdigit():
                        head = 'I:' + str(names[int(head[1:])])
                    s.add(head + '.' + rest)
                nets.add(frozenset(s))
    return nets


def instance_view(dump, model_name, with_unconn=False):
    """name -> (ref, type, attr, param, covers [, unconn]) for write-then-read comparisons"""
    out = {}
    for i in dump['models'][model_name]['insts']:
        v = {'ref': i['ref'], 'type': i['type'], 'attr': sorted(map(tuple, i['attr'])),
             'param': sorted(map(tuple, i['param'])), 'covers': i['covers']}
        if with_unconn:
            v['unconn'] = sorted(i['unconn'] or [])
        out.setdefault(i['name'], []).append(v)
    return out


# ----------------------------------------------------------------------------- bundled examples
def bundled_examples():
    """[(name, text)] of every example_netlists/eblif_netlists/*.eblif.zip"""
    d = os.path.join(common.REPO, 'example_netlists', 'eblif_netlists')
    out = []
    for fn in sorted(os.listdir(d)):
        if not fn.endswith('.zip'):
            continue
        p = os.path.join(d, fn)
        if os.path.getsize(p) == 0 or not zipfile.is_zipfile(p):
            out.append((fn, None))
            continue
        z = zipfile.ZipFile(p)
        inner = fn[:-4]
        out.append((fn, z.read(inner).decode('utf-8', errors='replace')))
    return out


# ----------------------------------------------------------------------------- offered to C15 / C16
def write_is_pure(nl, tmp):
    """C16 for EBLIF: composing twice gives the same text and leaves every dumped field of the netlist
    (instances with data, ports, cables, pin sets, libraries, top, comments) as it was.
    Returns a list of problems (empty = pure)."""
    before = dump_netlist(nl)
    t1, e1 = compose_text(nl, tmp, 'pure1.eblif')
    mid = dump_netlist(nl)
    t2, e2 = compose_text(nl, tmp, 'pure2.eblif')
    after = dump_netlist(nl)
    bad = []
    if e1 or e2:
        if e1 != e2:
            bad.append('first write %s, second write %s' % (e1 or 'ok', e2 or 'ok'))
        return bad
    d = first_difference(before, mid)
    if d:
        bad.append('writing changed the netlist: %r' % (d,))
    d = first_difference(mid, after)
    if d:
        bad.append('the second write changed the netlist: %r' % (d,))
    if t1 != t2:
        bad.append('the second write produced a different text')
    return bad


def parse_outcome(text, tmp):
    """C15 for EBLIF: the outcome class of reading one (possibly damaged) text:
    ('returned-wf' | 'returned-non-wf' | 'raised', detail).  Uses eblif_oracles.wf_check."""
    import eblif_oracles
    nl, exc = parse_text(text, tmp, 'outcome.eblif')
    if nl is None:
        return 'raised', exc
    bad = eblif_oracles.wf_check(nl)
    if bad:
        return 'returned-non-wf', sorted(set(k for k, _ in bad))
    return 'returned-wf', None
