"""Independent oracles of C11 / C12, evaluated on the real spydrnet objects only (nothing here
uses the Coq model or spydrnet's own hierarchical queries).

C11: a recursive elaboration of the design below the top instance: one tuple per occurrence
     (instance path; per path the ports, pins, cables, wires of the definition of its last
     instance), expected names, occurrence counts.
C12: a union-find over the hierarchical wires of that elaboration: for every hierarchical
     instance pin, the wire outside (in the parent) is joined with the wire inside (one level
     down). Expected answers of the tracing queries are read off the classes.

Tuples are creation indices, root first: (path ids..., item id)."""
import spydrnet as sdn


class Elab:
    def __init__(self, w, netlist):
        self.w = w
        self.netlist = netlist
        idx = lambda o: w.index[id(o)]
        self.idx = idx
        self.paths = []        # tuples of instance ids, root first
        self.path_objs = {}    # tuple -> list of instance objects
        top = netlist.top_instance
        self.top = top
        # a root is an occurrence only if the top instance's definition lives in this netlist
        ref = top.reference if top is not None else None
        lib = ref.library if ref is not None else None
        self.rooted = lib is not None and lib.netlist is netlist
        if top is not None:
            self._rec([top])
        self.by_kind = {'inst': [], 'port': [], 'pin': [], 'cable': [], 'wire': []}
        self.name = {}
        self.items_at = {}     # path tuple -> kind -> list of tuples
        for p in self.paths:
            objs = self.path_objs[p]
            names = [(o.name if isinstance(o.name, str) else '') for o in objs[1:]]
            at = {'inst': [p], 'port': [], 'pin': [], 'cable': [], 'wire': []}
            self.name[p] = '/'.join(names)
            ref = objs[-1].reference
            if ref is not None:
                for port in ref.ports:
                    hp = p + (idx(port),)
                    pname = '/'.join(names + [port.name if isinstance(port.name, str) else ''])
                    self.name[hp] = pname
                    at['port'].append(hp)
                    for k, pin in enumerate(port.pins):
                        hi = hp + (idx(pin),)
                        self.name[hi] = pname + ('' if _scalar(port, port.pins) else '[%d]' % (port.lower_index + k))
                        at['pin'].append(hi)
                for cable in ref.cables:
                    hc = p + (idx(cable),)
                    cname = '/'.join(names + [cable.name if isinstance(cable.name, str) else ''])
                    self.name[hc] = cname
                    at['cable'].append(hc)
                    for k, wire in enumerate(cable.wires):
                        hwi = hc + (idx(wire),)
                        self.name[hwi] = cname + ('' if _scalar(cable, cable.wires) else '[%d]' % (cable.lower_index + k))
                        at['wire'].append(hwi)
            self.items_at[p] = at
            for k in at:
                self.by_kind[k] += at[k]
        self.valid = set()
        if self.rooted:
            for k in self.by_kind:
                self.valid.update(self.by_kind[k])
        # occurrence count of every instance
        self.inst_count = {}
        for p in self.paths:
            self.inst_count[p[-1]] = self.inst_count.get(p[-1], 0) + 1

    def _rec(self, objs):
        t = tuple(self.idx(o) for o in objs)
        self.paths.append(t)
        self.path_objs[t] = list(objs)
        if len(objs) > 64:
            raise RuntimeError('instantiation cycle')
        ref = objs[-1].reference
        if ref is not None:
            for c in ref.children:
                self._rec(objs + [c])

    # ---- C11 expectations ----
    def below(self, h, strict=True):
        """instance paths below the instance path h"""
        n = len(h)
        return [p for p in self.paths if len(p) >= n + (1 if strict else 0) and p[:n] == h]

    def expected_enum(self, kind, recursive):
        """get_hX(netlist, recursive=...)"""
        root = self.paths[0] if self.paths else None
        if root is None:
            return []
        return self.expected_below(kind, root, recursive)

    def expected_below(self, kind, h, recursive):
        if kind == 'inst':
            ps = self.below(h)
            if not recursive:
                ps = [p for p in ps if len(p) == len(h) + 1]
            return sorted(ps)
        scope = self.below(h, strict=False) if recursive else [h]
        out = []
        for p in scope:
            out += self.items_at[p][kind]
        return sorted(out)

    def occurrences(self, item):
        """expected HRef.get_all_hrefs_of_item(item)"""
        idx = self.idx
        if isinstance(item, sdn.ir.Instance):
            return sorted(p for p in self.paths if p[-1] == idx(item))
        if isinstance(item, sdn.ir.Definition):
            return sorted(p for p in self.paths if self.path_objs[p][-1].reference is item)
        if isinstance(item, sdn.ir.OuterPin):
            if item.instance is None or item.inner_pin is None or item.inner_pin.port is None:
                return []
            return sorted(p + (idx(item.inner_pin.port), idx(item.inner_pin)) for p in self.paths if p[-1] == idx(item.instance))
        if isinstance(item, (sdn.ir.Port, sdn.ir.Cable)):
            k = 'port' if isinstance(item, sdn.ir.Port) else 'cable'
            return sorted(h for h in self.by_kind[k] if h[-1] == idx(item))
        if isinstance(item, (sdn.ir.InnerPin, sdn.ir.Wire)):
            k = 'pin' if isinstance(item, sdn.ir.InnerPin) else 'wire'
            return sorted(h for h in self.by_kind[k] if h[-1] == idx(item))
        return []

    def expected_unique(self, t):
        """valid, and the deepest instance of the reference occurs exactly once in the design"""
        if t not in self.valid:
            return False
        last = None
        for i in t:
            if isinstance(self.w.objs[i], sdn.ir.Instance):
                last = i
        return self.inst_count.get(last, 0) == 1

    def contents_from(self, kind, hrefs, recursive):
        """items of `kind` in the hierarchical instances `hrefs` (and below them when recursive)"""
        out = set()
        for h in hrefs:
            out.update(self.expected_below(kind, h, recursive) if kind != 'inst' else [])
        return sorted(out)

    # ---- C12 ----
    def build_nets(self):
        idx = self.idx
        parent = {}

        def find(x):
            while parent.setdefault(x, x) != x:
                parent[x] = parent[parent[x]]
                x = parent[x]
            return x

        def union(a, b):
            ra, rb = find(a), find(b)
            if ra != rb:
                parent[ra] = rb
        for hwi in self.by_kind['wire']:
            find(hwi)
        self.inner_of = {}   # hpin -> hwire inside (or None)
        self.outer_of = {}   # hpin -> hwire outside (or None)
        for p in self.paths:
            objs = self.path_objs[p]
            x = objs[-1]
            ref = x.reference
            if ref is None:
                continue
            for port in ref.ports:
                for pin in port.pins:
                    hpin = p + (idx(port), idx(pin))
                    iw = pin.wire
                    inner = (p + (idx(iw.cable), idx(iw))) if (iw is not None and iw.cable is not None) else None
                    outer = None
                    if len(p) >= 2 and pin in x.pins:
                        ow = x.pins[pin].wire
                        if ow is not None and ow.cable is not None:
                            outer = p[:-1] + (idx(ow.cable), idx(ow))
                    self.inner_of[hpin] = inner
                    self.outer_of[hpin] = outer
                    if inner is not None and outer is not None:
                        union(inner, outer)
        classes = {}
        for hwi in self.by_kind['wire']:
            classes.setdefault(find(hwi), []).append(hwi)
        self.cls = {}
        for members in classes.values():
            ms = sorted(members)
            for m in ms:
                self.cls[m] = ms
        self.classes = [sorted(v) for v in classes.values()]
        # pins attached to each hierarchical wire
        self.pins_of = {hwi: [] for hwi in self.by_kind['wire']}
        for hpin, hwi in self.inner_of.items():
            if hwi is not None and hwi in self.pins_of:
                self.pins_of[hwi].append(hpin)
        for hpin, hwi in self.outer_of.items():
            if hwi is not None and hwi in self.pins_of:
                self.pins_of[hwi].append(hpin)

    def kind_of(self, t):
        o = self.w.objs[t[-1]]
        return ('inst' if isinstance(o, sdn.ir.Instance) else 'port' if isinstance(o, sdn.ir.Port) else
                'pin' if isinstance(o, sdn.ir.InnerPin) else 'cable' if isinstance(o, sdn.ir.Cable) else 'wire')

    def start_pins_wires(self, t):
        """(hierarchical pins, hierarchical wires) a start reference stands for"""
        k = self.kind_of(t)
        if k == 'pin':
            return [t], []
        if k == 'port':
            return [h for h in self.items_at[t[:-1]]['pin'] if h[:-1] == t], []
        if k == 'wire':
            return [], [t]
        if k == 'cable':
            return [], [h for h in self.items_at[t[:-1]]['wire'] if h[:-1] == t]
        return [], []

    def expected_hwires(self, t, selection):
        pins, wires = self.start_pins_wires(t)
        out = set()
        for hp in pins:
            i, o = self.inner_of.get(hp), self.outer_of.get(hp)
            if selection in ('INSIDE', 'BOTH', 'ALL') and i is not None:
                out.update(self.cls[i] if selection == 'ALL' else [i])
            if selection in ('OUTSIDE', 'BOTH', 'ALL') and o is not None:
                out.update(self.cls[o] if selection == 'ALL' else [o])
        for hwi in wires:
            if selection == 'ALL':
                out.update(self.cls[hwi])
            elif selection == 'INSIDE':
                out.add(hwi)
            else:
                # OUTSIDE of a wire: across every pin attached to it - one level down through an
                # instance pin (the wire inside), one level up through a port pin (the wire
                # outside). BOTH keeps the wire itself as well.
                for hp in self.pins_of[hwi]:
                    i, o = self.inner_of[hp], self.outer_of[hp]
                    other = o if i == hwi else i
                    if other is not None:
                        out.add(other)
                if selection == 'BOTH':
                    out.add(hwi)
        return sorted(out)

    def expected_hwires_inst(self, t, selection, recursive):
        """get_hwires(reference of the hierarchical instance t): INSIDE = the wires of its cell (and of everything
        below it when recursive); OUTSIDE / BOTH = the wires attached outside (and inside) to its pins; ALL = the
        nets of every wire at or below it and of every wire attached to a pin at or below it"""
        if selection == 'INSIDE':
            return self.expected_below('wire', t, recursive)
        out = set()
        if selection == 'ALL':
            for p in self.below(t, strict=False):
                for hwi in self.items_at[p]['wire']:
                    out.update(self.cls[hwi])
                for hp in self.items_at[p]['pin']:
                    for x in (self.inner_of.get(hp), self.outer_of.get(hp)):
                        if x is not None:
                            out.update(self.cls[x])
            return sorted(out)
        for hp in self.items_at[t]['pin']:
            i, o = self.inner_of.get(hp), self.outer_of.get(hp)
            if selection == 'BOTH' and i is not None:
                out.add(i)
            if o is not None:
                out.add(o)
        return sorted(out)

    def expected_hcables(self, t, selection):
        return sorted(set(h[:-1] for h in self.expected_hwires(t, selection)))

    def expected_hpins_of(self, t):
        k = self.kind_of(t)
        if k == 'wire':
            return sorted(set(self.pins_of[t]))
        if k == 'cable':
            out = set()
            for hwi in self.items_at[t[:-1]]['wire']:
                if hwi[:-1] == t:
                    out.update(self.pins_of[hwi])
            return sorted(out)
        if k == 'port':
            return sorted(h for h in self.items_at[t[:-1]]['pin'] if h[:-1] == t)
        if k == 'pin':
            return [t]
        return None


class Design:
    """every netlist of the world that has a top instance, elaborated; the valid references are those below the
    top instance of a netlist whose library holds the top instance's definition (`rooted`). The occurrences of an
    element are taken over ALL of them: where an element sits decides, not what it references."""

    def __init__(self, w):
        self.w = w
        self.elabs = []       # rooted: their references are valid
        self.by_netlist = []  # (creation index of the netlist, Elab) for every netlist with a top instance
        for i, o in enumerate(w.objs):
            if isinstance(o, sdn.ir.Netlist) and o.top_instance is not None:
                e = Elab(w, o)
                self.by_netlist.append((i, e))
                if e.rooted:
                    self.elabs.append(e)

    def occurrences(self, item):
        out = []
        for e in self.elabs:
            out += e.occurrences(item)
        return sorted(out)

    def contents_from(self, kind, hrefs, recursive):
        out = set()
        if kind == 'inst':
            return []
        for h in hrefs:
            for e in self.elabs:
                if h in e.items_at:
                    out.update(e.expected_below(kind, h, recursive))
                    break
        return sorted(out)


def _scalar(bundle, items):
    # Bundle.is_scalar semantics re-stated: several items are never a scalar
    return False if len(items) > 1 else bool(bundle._is_scalar)


def well_formed(w, netlist):
    """the hypotheses of the C12 theorems, evaluated on the implementation: pins and wires point at
    each other, and every wire only touches pins of its own definition and of that definition's
    children"""
    bad = []
    for o in w.objs:
        if isinstance(o, sdn.ir.Wire):
            c = o.cable
            d = c.definition if c is not None else None
            for p in o.pins:
                if p.wire is not o:
                    bad.append('pin on wire %s does not point back' % w.tok_id(o))
                if isinstance(p, sdn.ir.OuterPin):
                    if d is None or p.instance is None or p.instance.parent is not d:
                        bad.append('wire %s touches an instance pin of another definition' % w.tok_id(o))
                    elif p.inner_pin not in p.instance.pins or p.instance.pins[p.inner_pin] is not p:
                        bad.append('wire %s holds a stale outer pin' % w.tok_id(o))
                else:
                    if d is None or p.port is None or p.port.definition is not d:
                        bad.append('wire %s touches a port pin of another definition' % w.tok_id(o))
        elif isinstance(o, sdn.ir.InnerPin):
            if o.wire is not None and o not in o.wire.pins:
                bad.append('pin %s names a wire that does not list it' % w.tok_id(o))
        elif isinstance(o, sdn.ir.Instance):
            for ip, op in o.pins.items():
                if op.wire is not None and op not in op.wire.pins:
                    bad.append('outer pin of %s names a wire that does not list it' % w.tok_id(o))
    return bad
