"""Check of C18 (EBLIF read and round trip) on the `eblif` engine:
proof re-check of Props/C18.v  +  correspondence (real reader / composer vs the extracted Coq model:
parsed netlist, written file, re-read netlist)  +  the property's own oracles on the implementation
(design oracle, well-formedness / self-containedness, write-then-read)  +  corpus and bundled
examples  +  shrinking, violation search, known findings, evidence."""
import collections, json, os, random, subprocess, sys, time
sys.path.insert(0, os.path.dirname(os.path.abspath(__file__)))
import common
common.ensure_impl_python()
import eblif_world as W, eblif_gen as G, eblif_oracles as O, eblif_classes as K

PROP = 'C18'
HERE = os.path.dirname(os.path.abspath(__file__))
CORPUS = os.path.join(common.CORPUS, 'eblif')
LOCAL_KNOWN = os.path.join(HERE, 'eblif_known.json')

# failure kind -> input classes that can explain it (first one present in the document is taken)
CAUSES = {
    # latch-mix first: it is the one class of this list that is still an open finding (a later .latch with more operands always
    # raises StopIteration, so nothing else can be observed on such a document); the other three were repaired in /repo, and a
    # raise on a document that has one of them and no latch-mix is attributed to them and therefore reported
    'reader-raised': ['latch-mix', 'inout-outputs-first', 'no-final-end', 'trailing-comment'],
    'top-election': ['unused-first-model'],
    'top-library': ['unused-first-model'],
    'top-ports': ['header-gap', 'outputs-before-inputs', 'trailing-comment'],
    'primitive-ports': ['header-gap', 'outputs-before-inputs', 'trailing-comment'],
    'cname-lost': ['comment-in-info', 'trailing-comment'],
    'attr-lost': ['comment-in-info', 'trailing-comment'],
    'param-lost': ['comment-in-info', 'trailing-comment'],
    'instance-name': ['comment-in-info', 'trailing-comment'],
    'nets': ['latch3', 'trailing-comment'],
    'rt-nets': ['port-bit-unattached'],
    'instance-definition': ['trailing-comment'],
    'instance-count': ['trailing-comment'],
    'unconn': ['trailing-comment'],
    'covers': ['trailing-comment'],
    'pin-on-orphan-cable': ['blackbox'],
    'rt-nets-top-pin': ['conn-on-port-net'],
    'reread-raised': ['default-name-clash'],
    'rt-top': ['top-is-primitive'],
    'rt-model-lost': ['top-is-primitive'],
}
# design-oracle failures that contradict a clause of BlifSpec.denote (theorem C18_sound_full_holds):
# they must not occur on a document the model classifies as `supported`
DENOTE_KINDS = {'top-missing', 'top-library', 'top-ports', 'primitive-missing', 'primitive-library', 'primitive-not-leaf',
                'primitive-ports', 'instance-count', 'instance-definition', 'instance-type', 'cname-lost', 'attr-lost',
                'param-lost', 'covers', 'nets'}
PRIORITY = ['reader-raised', 'top-election', 'top-library', 'top-missing', 'top-ports', 'primitive-missing', 'primitive-library',
            'primitive-not-leaf', 'primitive-ports', 'instance-count', 'instance-definition', 'instance-type', 'cname-lost',
            'attr-lost', 'param-lost', 'instance-name', 'covers', 'unconn', 'data-keys', 'nets']


def known_findings():
    out = list(common.load_known_findings(PROP))
    if os.path.exists(LOCAL_KNOWN):
        have = set(f.get('id') for f in out)
        for f in json.load(open(LOCAL_KNOWN)).get('findings', []):
            if f.get('property') == PROP and f.get('id') not in have:
                out.append(f)
    return out


def ensure_driver():
    """(re)build ocaml/_build/driver_eblif from the extracted model when it is missing or stale"""
    build = common.OCAML_BUILD
    src = os.path.join(common.ROOT, 'ocaml', 'driver_eblif.ml')
    ml = os.path.join(common.COQ, 'eblif_model.ml')
    exe = W.DRIVER
    if not os.path.exists(ml):
        r = subprocess.run(['timeout', '300', 'coqc', '-R', 'theories', 'SV', 'theories/Extract/ExtractBlif.v'],
                           cwd=common.COQ, capture_output=True, text=True)
        if r.returncode != 0:
            return False, 'extraction failed: ' + (r.stdout + r.stderr)[-800:]
    if os.path.exists(exe) and os.path.getmtime(exe) >= max(os.path.getmtime(src), os.path.getmtime(ml)):
        return True, ''
    os.makedirs(build, exist_ok=True)
    cmd = ('cp %s/eblif_model.ml %s/eblif_model.mli . && cp %s . && '
           'ocamlfind ocamlopt -w -a eblif_model.mli eblif_model.ml driver_eblif.ml -o driver_eblif') % (common.COQ, common.COQ, src)
    r = subprocess.run(cmd, shell=True, cwd=build, capture_output=True, text=True)
    return r.returncode == 0, (r.stdout + r.stderr)[-800:]


# ----------------------------------------------------------------------------- one case
def sections(doc, top=None):
    """a written file as (preamble lines, section of the top model, sorted other sections): the order
    of the other sections follows get_hinstances / a Python set of black boxes (add_blackbox_definitions).
    When the top model is not written first (it is a primitive), all sections are compared as a set."""
    pre, secs, cur = [], [], None
    for l in doc:
        if l and l[0] == '.model':
            cur = [l]
            secs.append(cur)
        elif cur is None:
            pre.append(l)
        else:
            cur.append(l)
    if secs and (top is None or secs[0][0][1:] == [top]):
        return pre, secs[:1], sorted(secs[1:])
    return pre, [], sorted(secs)


class Outcome:
    """everything observed for one text: both sides, the comparisons, the oracle verdicts"""

    def __init__(self):
        self.disagreements = []     # [(stage, first difference)]
        self.failures = []          # [(oracle, kind, text)]
        self.outside = False
        self.stats = {}


NO_MODEL = ({'error': 'outside'}, None, None, {'supported': None, 'roundtrippable': None, 'rt_check': None, 'written_supported': None})


def run_text(text, tmp, model_result=None, expectation=None, pure_check=False):
    """one text through tokeniser check, model, implementation, and the oracles
    (model_result=NO_MODEL: implementation and oracles only)"""
    oc = Outcome()
    doc = W.tokenise(text)
    oc.doc = doc
    ta = W.tokenisation_agrees(text)
    if ta:
        oc.disagreements.append(('tokenise', ta))
    if model_result is None:
        model_result = W.run_model([doc])[0]
    e, w, r, preds = model_result
    oc.preds = preds
    e = W.normalise_model_dump(e)
    nl, exc = W.parse_text(text, tmp)
    dump = W.dump_netlist(nl) if nl is not None else {'error': exc}
    oc.dump = dump
    oc.stats['impl_outcome'] = 'ok' if nl is not None else exc
    oc.stats['model_outcome'] = e.get('error', 'ok')
    if e.get('error') == 'outside' or W.dangling_continuation(text):
        oc.outside = True
        oc.disagreements = [d for d in oc.disagreements if d[0] != 'tokenise' or not W.dangling_continuation(text)]
    elif 'error' in dump and 'error' in e:
        # both raise; the model raises at the statement where the instance is created, the reader reads
        # the truth-table rows first, so the exception classes may differ (recorded, not a disagreement)
        if dump['error'] != e['error']:
            oc.stats['error_kind_differs'] = '%s/%s' % (dump['error'], e['error'])
    else:
        d = W.first_difference(dump, e)
        if d:
            oc.disagreements.append(('read', d))
    if expectation is not None:
        for kind, t in O.design_oracle(dump, expectation):
            oc.failures.append(('design', kind, t))
    oc.written = None
    oc.stats['cyclic'] = W.hierarchy_is_cyclic(dump)
    if nl is not None and oc.stats['cyclic']:
        # a model that instances itself: the composer (get_hinstances) would not terminate
        for kind, t in O.wf_check(nl):
            oc.failures.append(('wf', kind, t))
    elif nl is not None:
        for kind, t in O.wf_check(nl):
            oc.failures.append(('wf', kind, t))
        txt, cexc = W.compose_text(nl, tmp)
        oc.stats['compose_outcome'] = 'ok' if txt is not None else cexc
        if txt is None:
            if dump.get('top') is not None:
                oc.failures.append(('roundtrip', 'compose-raised', 'the composer raised %s' % cexc))
            if not oc.outside and w is not None and dump.get('top') is not None:
                oc.disagreements.append(('write', {'impl': cexc, 'model': 'writes %d lines' % len(w)}))
        else:
            wd = W.tokenise(txt)
            oc.written = wd
            topn = (dump.get('top') or [None, None])[1]
            if not oc.outside and w is not None and sections(wd, topn) != sections(w, topn):
                d = W.first_difference(list(sections(wd, topn)), list(sections(w, topn)))
                oc.disagreements.append(('write', d))
            nl2, exc2 = W.parse_text(txt, tmp, 'reread.eblif')
            d2 = W.dump_netlist(nl2) if nl2 is not None else {'error': exc2}
            oc.stats['reread_outcome'] = 'ok' if nl2 is not None else exc2
            if not oc.outside and r is not None and sections(wd, topn) == sections(w or [], topn):
                # the model re-reads its own text; compare when both texts have the same sections in
                # the same order (otherwise only the set of sections is known to agree)
                if wd == w and r.get('error') != 'outside':
                    d = W.first_difference(d2, W.normalise_model_dump(r))
                    if d:
                        oc.disagreements.append(('reread', d))
            for kind, t in O.roundtrip_oracle(dump, d2):
                oc.failures.append(('roundtrip', kind, t))
            oc.reread = d2
            if pure_check:
                for t in W.write_is_pure(nl, tmp):
                    oc.failures.append(('roundtrip', 'write-not-pure', t))
    return oc


def primary(failures):
    """one (oracle, kind, text) per oracle: the most basic failure of that oracle"""
    out = []
    for oracle in ('design', 'wf', 'roundtrip'):
        fs = [f for f in failures if f[0] == oracle]
        if not fs:
            continue
        fs.sort(key=lambda f: PRIORITY.index(f[1]) if f[1] in PRIORITY else len(PRIORITY))
        kinds = sorted(set(f[1] for f in fs))
        out.append((oracle, fs[0][1], fs[0][2], kinds))
    return out


def signatures(oc):
    """[(signature, text)] of the failures of one outcome"""
    feats = set(K.doc_features(oc.doc))
    if K.port_net_merged(oc.dump):
        feats.add('conn-on-port-net')
    if K.top_is_primitive(oc.dump):
        feats.add('top-is-primitive')
    if K.port_bit_unattached(oc.dump):
        feats.add('port-bit-unattached')
    if oc.written is not None and K.default_name_clash(oc.written):
        feats.add('default-name-clash')
    sigs = []
    for oracle, kind, text, kinds in primary(oc.failures):
        if oracle == 'wf':
            # every well-formedness failure must be of the known kind, not only the first
            cause = 'blackbox' if kinds == ['pin-on-orphan-cable'] and 'blackbox' in feats else 'none'
            sigs.append(('wf|%s|%s' % ('+'.join(kinds), cause), text))
            continue
        cause = next((c for c in CAUSES.get(kind, []) if c in feats), 'none')
        sigs.append(('%s|%s|%s' % (oracle, kind, cause), text))
    return sigs, sorted(feats)


# ----------------------------------------------------------------------------- shrinking
def shrink_lines(text, pred, budget=200):
    """delta debugging on the lines of a text"""
    lines = text.split('\n')
    n = 2
    while len(lines) >= 2 and budget > 0:
        chunk = max(1, len(lines) // n)
        reduced = False
        for i in range(0, len(lines), chunk):
            cand = lines[:i] + lines[i + chunk:]
            budget -= 1
            if cand and pred('\n'.join(cand)):
                lines = cand
                n = max(n - 1, 2)
                reduced = True
                break
            if budget <= 0:
                break
        if not reduced:
            if chunk == 1:
                break
            n = min(n * 2, len(lines))
    return '\n'.join(lines)


def shrink_design(design, pred, budget=150):
    """remove instances / conns / ports / comments of a design while pred(design) holds"""
    d = json.loads(json.dumps(design))
    d = G.from_json(d)
    changed = True
    while changed and budget > 0:
        changed = False
        for key in ('insts', 'conns', 'comments', 'ports'):
            k = 0
            while k < len(d[key]) and budget > 0:
                cand = dict(d)
                cand[key] = d[key][:k] + d[key][k + 1:]
                budget -= 1
                if pred(cand):
                    d = cand
                    changed = True
                else:
                    k += 1
    return d


# ----------------------------------------------------------------------------- the run
def run(prop, tier, seed, replay):
    if replay:
        return replay_file(replay)
    t0 = time.time()
    rep = common.Reporter(PROP)
    ok, log = ensure_driver()
    proof = common.check_props_file(PROP)
    if not ok or not proof['ok']:
        rep.violation('proof', {'kind': 'proof-obligation', 'theorem_file': 'coq/theories/Props/C18.v', 'driver_ok': ok,
                                'log': log[-1500:], 'coqc_output': proof['assumptions'][-1500:]}, found_input=False)
        if not ok:
            return rep.exit_code()
    known = [k for k in known_findings() if k.get('status') == 'open']
    known_by_sig = {}
    for k in known:
        for s in (k['signature'] if isinstance(k['signature'], list) else [k['signature']]):
            known_by_sig[s] = k
    st = {'cases': 0, 'compared': 0, 'outside': 0, 'disagreements': 0, 'oracle_failures': 0, 'known_hits': collections.Counter(),
          'hist': collections.Counter(), 'sizes': collections.Counter(), 'outcomes': collections.Counter(),
          'distinct': set(), 'samples': [], 'known_printed': set(), 'reported': 0, 'features': collections.Counter(),
          'pred': collections.Counter(), 'tie_reported': 0}

    def account(source, oc, text):
        st['cases'] += 1
        st['outcomes']['impl:' + oc.stats.get('impl_outcome', '?')] += 1
        if oc.stats.get('cyclic'):
            st['outcomes']['recursive-hierarchy (not written)'] += 1
        if oc.stats.get('error_kind_differs'):
            st['outcomes']['both-raise-different-class:' + oc.stats['error_kind_differs']] += 1
        if oc.outside:
            st['outside'] += 1
        else:
            st['compared'] += 1
        nonblank = [l for l in oc.doc if l]
        if len(nonblank) > 3:
            st['distinct'].add(common.sha(text))

    def tie(source, text, oc, design, quirks):
        """the predicates of BlifSpec, evaluated by the extracted model, against the oracles on the implementation:
        a design failure on a `supported` document, or a round-trip failure on a `roundtrippable` netlist, contradicts
        C18_sound_full_holds / the round-trip claim (given that model and implementation agree on the parsed netlist):
        the predicate is wrong or the code is.  Never matched against known findings."""
        preds = getattr(oc, 'preds', None) or {}
        if oc.outside or any(s0 == 'read' for s0, _ in oc.disagreements):
            return
        bad = []
        if preds.get('supported'):
            st['pred']['supported'] += 1
            fs = [f for f in oc.failures if f[0] == 'design' and f[1] in DENOTE_KINDS]
            if fs:
                bad.append(('supported-but-design-fails', fs[:3]))
        elif preds.get('supported') is False:
            st['pred']['not-supported'] += 1
        rt = preds.get('roundtrippable')
        rtf = [f for f in getattr(oc, 'all_failures', oc.failures) if f[0] == 'roundtrip' and f[1] != 'write-not-pure']
        if rt:
            st['pred']['roundtrippable'] += 1
            if preds.get('written_supported'):
                # then C18_reread_faithful applies: the re-read netlist is what the written file says
                st['pred']['roundtrippable-and-written-file-supported'] += 1
            if not preds.get('rt_check'):
                bad.append(('roundtrippable-but-model-roundtrip-fails', [('model', 'rt_check', 'equiv_b n (elab (emit n)) is false')]))
            if rtf:
                bad.append(('roundtrippable-but-roundtrip-fails', rtf[:3]))
            if oc.stats.get('compose_outcome') == 'ok' and not rtf:
                st['pred']['roundtrippable-and-impl-roundtrips'] += 1
        elif rt is False:
            st['pred']['not-roundtrippable'] += 1
            if preds.get('rt_check') and oc.stats.get('compose_outcome') == 'ok' and not rtf:
                st['pred']['not-roundtrippable-but-roundtrips'] += 1
        if preds.get('rt_check') is not None and oc.stats.get('compose_outcome') == 'ok' and oc.stats.get('reread_outcome') is not None:
            # the verified checker's verdict against the oracle on the implementation (informative: the oracle also
            # compares port widths and is evaluated on the implementation's own written file)
            st['pred']['rt_check=%s/impl-roundtrip=%s' % (preds['rt_check'], not rtf)] += 1
        for kind, fs in bad:
            st['pred'][kind] += 1
            if st['tie_reported'] < 6:
                st['tie_reported'] += 1
                rep.violation('%s-%s-%s' % (kind, source.replace('/', '_'), common.sha(text)),
                              {'kind': kind, 'engine': 'eblif', 'source': source, 'predicates': preds,
                               'oracle': [list(f) for f in fs], 'text': text,
                               'design': G.to_json(design) if design is not None else None, 'quirks': list(quirks),
                               'what': 'BlifSpec.supported / roundtrippable (theorems of Props/C18.v) classify this document as inside '
                                       'the fragment, yet the oracle on the implementation fails: the predicate is too wide or the code is wrong',
                               'replay': 'checks/run C18 --replay <this file>'})

    def handle(source, text, oc, tmp, design=None, quirks=(), style=None):
        """disagreements and oracle failures of one case -> protocol lines"""
        tie(source, text, oc, design, quirks)
        sigs, feats = signatures(oc)
        for f in feats:
            st['features'][f] += 1
        unknown = []
        for sig, what in sigs:
            st['oracle_failures'] += 1
            if sig in known_by_sig:
                k = known_by_sig[sig]
                st['known_hits'][k['id']] += 1
                if k['id'] not in st['known_printed']:
                    st['known_printed'].add(k['id'])
                    rep.known_finding('%s: %s [signature %s; first seen in %s]' % (k['id'], k['what'], sig, source))
            else:
                unknown.append((sig, what))
        if unknown and st['reported'] < 6:
            st['reported'] += 1
            sig0 = unknown[0][0]

            def same(t):
                o2 = run_text(t, tmp, NO_MODEL)
                return any(s == sig0 for s, _ in signatures(o2)[0])
            short = text
            if not sig0.startswith('design|'):
                short = shrink_lines(text, same)
            rep.violation('%s-%s' % (source.replace('/', '_'), common.sha(short)),
                          {'kind': 'property-violation-on-implementation', 'engine': 'eblif', 'source': source,
                           'signature': sig0, 'oracle': [list(u) for u in unknown[:4]], 'input_classes': feats,
                           'text': short, 'design': G.to_json(design) if design is not None and sig0.startswith('design|') else None,
                           'quirks': list(quirks), 'replay': 'checks/run C18 --replay <this file>'})
        if oc.disagreements:
            st['disagreements'] += 1
            if st['reported'] < 6:
                st['reported'] += 1
                stage0 = oc.disagreements[0][0]

                def still(t):
                    o2 = run_text(t, tmp)
                    return (not o2.outside) and any(s == stage0 for s, _ in o2.disagreements)
                short = shrink_lines(text, still)
                o3 = run_text(short, tmp)
                found = search_failure(short, tmp, known_by_sig)
                if found:
                    rep.violation('%s-%s' % (source.replace('/', '_'), common.sha(found['text'])),
                                  {'kind': 'property-violation-on-implementation', 'engine': 'eblif', 'source': source,
                                   'signature': found['signature'], 'oracle': found['oracle'], 'text': found['text'],
                                   'correspondence': {'text': short, 'stage': stage0, 'first_difference': o3.disagreements[:1]}})
                else:
                    rep.violation('%s-%s' % (source.replace('/', '_'), common.sha(short)),
                                  {'kind': 'correspondence-broken', 'engine': 'eblif', 'source': source, 'stage': stage0,
                                   'what': 'model (coq/theories/Fmt/BlifRead.v, BlifWrite.v; theorems of Props/C18.v) and '
                                           'implementation disagree on the %s stage' % stage0,
                                   'text': short, 'first_difference': o3.disagreements[:2] or oc.disagreements[:2]},
                                  found_input=False)

    with W.TempDir() as tmp:
        # 1. corpus: minimised witnesses and regressions, replayed first
        corpus = []
        if os.path.isdir(CORPUS):
            for fn in sorted(os.listdir(CORPUS)):
                if fn.endswith('.eblif'):
                    corpus.append((fn, open(os.path.join(CORPUS, fn)).read()))
        if corpus:
            res = W.run_model([W.tokenise(t) for _, t in corpus])
            for (fn, text), mr in zip(corpus, res):
                exp = None
                side = os.path.join(CORPUS, fn[:-6] + '.design.json')
                if os.path.exists(side):          # the abstract design the text was rendered from
                    sd = json.load(open(side))
                    exp = G.expectation(G.effective_design(G.from_json(sd['design']), sd.get('quirks') or ()))
                oc = run_text(text, tmp, mr, expectation=exp, pure_check=True)
                account('corpus', oc, text)
                st['hist']['corpus'] += 1
                handle('corpus/' + fn, text, oc, tmp)
            # every open finding must still reproduce on its witness (otherwise it was repaired)
            hit = set(st['known_hits'])
            for k in known:
                if k.get('replay', '').startswith('corpus/eblif/') and k['id'] not in hit:
                    print('NOTE: open known finding %s does not reproduce on its witness %s any more' % (k['id'], k['replay']), flush=True)
        # 2. bundled examples
        examples = W.bundled_examples()
        if tier != 'thorough':
            examples = sorted(examples, key=lambda x: len(x[1] or ''))[:5]
        skipped = [fn for fn, t in examples if t is None]
        examples = [(fn, t) for fn, t in examples if t is not None]
        res = W.run_model([W.tokenise(t) for _, t in examples])
        for (fn, text), mr in zip(examples, res):
            oc = run_text(text, tmp, mr, pure_check=True)
            account('bundled', oc, text)
            st['hist']['bundled'] += 1
            st['sizes']['bundled:%d-lines' % (len(oc.doc) // 100 * 100)] += 1
            handle('bundled/' + fn, text, oc, tmp)
        # 3. generated designs, rendered by the independent writer
        n_plain, n_quirk, n_mal = (1600, 25, 600) if tier != 'thorough' else (36000, 400, 26000)
        if os.environ.get('VERIF_EBLIF_COUNTS'):        # experiments only: plain,quirk,malformed
            n_plain, n_quirk, n_mal = [int(x) for x in os.environ['VERIF_EBLIF_COUNTS'].split(',')]
        batch = []
        for c in range(n_plain):
            rng = random.Random('%d/eblif/plain/%d' % (seed, c))
            design = G.gen_design(rng)
            text, style = G.render(design, rng)
            batch.append(('plain-%d-%d' % (seed, c), design, (), style, text))
        for q in G.QUIRKS:
            for c in range(n_quirk):
                rng = random.Random('%d/eblif/quirk/%s/%d' % (seed, q, c))
                design = G.gen_design(rng)
                base, style = G.render(design, rng)
                text, _ = G.render(design, rng, quirks=(q,), style=style)
                batch.append(('quirk-%s-%d-%d' % (q, seed, c), design, (q,), style, text))
        for chunk_start in range(0, len(batch), 500):
            chunk = batch[chunk_start:chunk_start + 500]
            res = W.run_model([W.tokenise(b[4]) for b in chunk])
            for (source, design, quirks, style, text), mr in zip(chunk, res):
                exp = G.expectation(G.effective_design(design, quirks))
                oc = run_text(text, tmp, mr, expectation=exp, pure_check=(st['cases'] % 8 == 0))
                account('generated', oc, text)
                desc = G.describe(design)
                st['hist']['quirk:' + quirks[0] if quirks else 'plain'] += 1
                st['sizes']['insts:%d' % desc['insts']] += 1
                for k, v in desc['kinds'].items():
                    st['hist']['stmt:' + k] += v
                st['hist']['stmt:conn'] += desc['conns']
                if desc['conns']:
                    st['hist']['conn-position:' + desc['conn_pos']] += 1
                    st['hist']['conn-chain (a net named by two .conn)'] += int(desc['conn_chain'])
                st['hist']['bus-net-actuals'] += desc['bus_nets']
                st['hist']['unconn-actuals'] += desc['unconn']
                if len(st['samples']) < 2 and desc['insts'] >= 2 and not quirks:
                    st['samples'].append({'source': source, 'text': text[:1200], 'design': desc})
                handle(source, text, oc, tmp, design, quirks, style)
        # 4. malformed stream: token-level damage of valid texts (outcome classes must agree)
        mal = []
        for c in range(n_mal):
            rng = random.Random('%d/eblif/malformed/%d' % (seed, c))
            design = G.gen_design(rng, size=rng.choice([1, 2, 3]))
            text, _ = G.render(design, rng)
            mal.append(('malformed-%d-%d' % (seed, c), G.damage(text, rng)))
        for chunk_start in range(0, len(mal), 500):
            chunk = mal[chunk_start:chunk_start + 500]
            res = W.run_model([W.tokenise(t) for _, t in chunk])
            for (source, text), mr in zip(chunk, res):
                oc = run_text(text, tmp, mr)
                # no expectation: only correspondence and well-formedness of whatever is returned
                # (the round-trip failures stay visible to the predicate tie: roundtrippable speaks about any netlist)
                oc.all_failures = oc.failures
                oc.failures = [f for f in oc.failures if f[0] == 'wf']
                account('malformed', oc, text)
                st['hist']['malformed'] += 1
                st['outcomes']['malformed:' + oc.stats.get('impl_outcome', '?')] += 1
                handle(source, text, oc, tmp)

    wall = time.time() - t0
    theorems = proof['theorems']
    coverage = {
        'obligations': len(theorems), 'discharged': len(theorems) if proof['ok'] else 0,
        'checker_cmd': proof['cmd'],
        'theorems': theorems,
        'print_assumptions': proof['assumptions'][-4000:],
        'trusted_base': trusted_base(proof),
        'programs': st['cases'],
        'disagreements_checked': st['compared'],
        'evaluations': st['cases'],
        'distinct_nontrivial': len(st['distinct']),
        'rule': 'a case is one EBLIF text run through the real reader, the real composer and the real reader again, and '
                'through the extracted model (elab, emit, elab); non-trivial = more than 3 non-blank lines; distinct by hash of the text',
        'samples': st['samples'] or [{'note': 'no generated sample'}],
        'generator_histogram': dict(sorted(st['hist'].items())),
        'size_histogram': dict(sorted(st['sizes'].items())),
        'outcome_histogram': dict(sorted(st['outcomes'].items())),
        'input_class_histogram': dict(sorted(st['features'].items())),
        'outside_model_fragment': st['outside'],
        'model_impl_disagreements': st['disagreements'],
        'oracle_failures': st['oracle_failures'],
        'known_finding_hits': dict(st['known_hits']),
        'predicate_histogram': dict(sorted(st['pred'].items())),
        'skipped_examples': skipped,
        'exhaustive': False,
        'compared': 'parsed netlist (instances with name/definition/type/data/pin order, ports with direction and width, '
                    'cables with wires as sorted pin sets, orphaned cables, libraries, top, comments), written file (token lines; '
                    'sections after the first as a set), re-read netlist; and the predicates of BlifSpec evaluated by the extracted '
                    'model (supported d, roundtrippable n, the verified comparison equiv_b n (elab (emit n)), supported (emit n)) '
                    'against the oracles on the implementation: a design-oracle failure of a kind covered by BlifSpec.denote on a '
                    'supported document, or a round-trip failure (real composer + reader, or the model\'s own) on a roundtrippable '
                    'netlist, is a VIOLATION that no known finding can excuse (predicate_histogram)',
    }
    common.write_evidence(PROP, tier, seed, coverage, wall, len(rep.violations), assumptions())
    print('%s %s: %d cases (%d compared with the model, %d outside its fragment), %d disagreements, %d oracle failures '
          '(%d matching open known findings), proof %s (%d theorems), %.1fs'
          % (PROP, tier, st['cases'], st['compared'], st['outside'], st['disagreements'], st['oracle_failures'],
             sum(st['known_hits'].values()), 'ok' if proof['ok'] else 'BROKEN', len(theorems), wall))
    return rep.exit_code()


def search_failure(text, tmp, known_by_sig):
    """look for an input on which the *property* fails, near a text on which model and implementation
    disagree: the text itself, every single-line deletion, and the written file of each"""
    cands = [text]
    lines = text.split('\n')
    for i in range(len(lines)):
        cands.append('\n'.join(lines[:i] + lines[i + 1:]))
    for cand in cands[:80]:
        oc = run_text(cand, tmp)
        sigs, _ = signatures(oc)
        bad = [(s, t) for s, t in sigs if s not in known_by_sig]
        if bad:
            return {'text': cand, 'signature': bad[0][0], 'oracle': [list(b) for b in bad[:3]]}
    return None


def trusted_base(proof):
    return [
        'Coq 8.16.1 kernel (coqc); vm_compute only inside Example / refutation witnesses; no native_compute',
        'Print Assumptions of every theorem in Props/C18.v: ' + ('Closed under the global context' if 'Axioms' not in proof['assumptions'] else 'see print_assumptions'),
        'extraction: ExtrOcamlBasic only; nat/N/positive extracted as inductives; no Extract Constant; extracted: elab, emit, '
        'supported, roundtrippable, equiv_b, rt_check (the predicates the theorems are stated with)',
        'ocaml/driver_eblif.ml (protocol parsing, JSON printing, sorting of pin sets)',
        'harness/eblif_world.py (tokenisation into lines of tokens - compared with the real tokenizer token by token on every case -, '
        'dump of the real objects; reads Instance._pins for the pin order), harness/eblif_gen.py (generator, independent writer, '
        'expectation), harness/eblif_oracles.py, harness/eblif_classes.py',
        'the model (coq/theories/Fmt/Blif.v, BlifRead.v, BlifWrite.v) is hand-written: it is tied to /repo only by the correspondence run reported here',
        'CPython 3.12 semantics of str.split, dict order, single-character string interning (the tokenizer compares tokens with `is`)',
    ]


def assumptions():
    return [
        'texts are ASCII; names contain neither * nor ? (get_ports/get_cables treat them as wildcards) and are not empty',
        'bit indices are 1-3 decimal digits',
        'statements keep to one (continued) line and start at its first token; a line that would make the reader resynchronise '
        'in the middle of a line is outside the modelled fragment (model outcome "outside", not compared)',
        'the order of undeclared black boxes inside library hdi_primitives follows a Python set of objects and is compared as a set',
        'check_hierarchy with several parents of the current model picks list(set)[0]; only the single-parent case is modelled',
    ]


def replay_file(path):
    obj = json.load(open(path))
    text = obj.get('text') or (obj.get('correspondence') or {}).get('text')
    if text is None:
        print('replay file has no text')
        return 2
    known = [k for k in known_findings() if k.get('status') == 'open']
    known_sigs = set()
    for k in known:
        known_sigs.update(k['signature'] if isinstance(k['signature'], list) else [k['signature']])
    with W.TempDir() as tmp:
        exp = None
        if obj.get('design') is not None:
            exp = G.expectation(G.effective_design(G.from_json(obj['design']), obj.get('quirks') or ()))
        oc = run_text(text, tmp, expectation=exp)
        sigs, feats = signatures(oc)
        print(json.dumps({'disagreements': oc.disagreements, 'oracle_failures': [list(s) for s in sigs],
                          'input_classes': feats, 'outcomes': oc.stats}, indent=1, default=str))
        bad = [s for s, _ in sigs if s not in known_sigs]
        if bad or oc.disagreements:
            print('VIOLATION property=%s replay=%s' % (PROP, path))
            return 1
    return 0


if __name__ == '__main__':
    tier = 'quick'
    rp = None
    a = sys.argv[1:]
    if '--tier' in a:
        tier = a[a.index('--tier') + 1]
    if '--replay' in a:
        rp = a[a.index('--replay') + 1]
    sys.exit(run(PROP, tier, common.seed_default(), rp))
