"""Engine `verilog`: the properties' own oracles, evaluated on the implementation only (no model involved).

C06  c06_items(design, text)      : parse the text rendered by the independent writer, compare the canonical
                                    description of the returned netlist with the design's meaning, check WF.
     c06_file_items(path)         : bundled file: must parse, be WF, and the unique root module must be top.
C04  c04_items(netlist, opts)     : compose -> parse -> canonical descriptions before/after must be equal; the
                                    text must be accepted by the reader.
Every failure is an *item* {'kind','sig','detail'}; `sig` is a precise per-case signature that an OPEN entry
of known_findings.json may name. Unrecognised failures get a signature ending in '|unclassified' and can never
match an entry.

Reusable by other properties of the Verilog format:
  parse_text(text) / parse_file(path)      -> netlist (temp files are removed)
  parse_outcome(text, timeout=None)        -> ('ok', netlist) | ('raised', exception)           [C15]
  compose_text(netlist, **opts)            -> text                                               [C16]
  write_is_pure(netlist, **opts)           -> list of differences of canon/wf before vs after compose, and
                                              whether two successive compositions give the same text [C16]
  policy_probe()                           -> namespace_manager.default (process-wide residue)    [C15]
"""
import copy, os, re, tempfile, shutil
import spydrnet as sdn
from spydrnet.uniquify import uniquify
from spydrnet.flatten import flatten
import verilog_world as W
import verilog_gen as G


# ------------------------------------------------------------------ running the real code
def parse_text(text):
    td = tempfile.mkdtemp(prefix='verif_v_')
    try:
        p = os.path.join(td, 'x.v')
        with open(p, 'w') as f:
            f.write(text)
        return sdn.parse(p)
    finally:
        shutil.rmtree(td, ignore_errors=True)


def parse_file(path):
    return sdn.parse(path)


def parse_outcome(text):
    try:
        return 'ok', parse_text(text)
    except Exception as e:  # noqa
        return 'raised', e


def policy_probe():
    from spydrnet.plugins import namespace_manager
    return namespace_manager.default


def compose_text(netlist, **opts):
    td = tempfile.mkdtemp(prefix='verif_v_')
    try:
        p = os.path.join(td, 'o.v')
        sdn.compose(netlist, p, **opts)
        with open(p) as f:
            return f.read()
    finally:
        shutil.rmtree(td, ignore_errors=True)


def write_is_pure(netlist, **opts):
    before, wf0 = W.canon(netlist), W.wf(netlist)
    t1 = compose_text(netlist, **opts)
    mid = W.canon(netlist)
    t2 = compose_text(netlist, **opts)
    out = W.diff_canon(before, mid)
    if wf0 != W.wf(netlist):
        out.append('well-formedness changed by writing')
    if t1 != t2:
        out.append('second composition differs from the first')
    return out


def norm_msg(e):
    m = '%s:%s' % (type(e).__name__, str(e))
    m = re.sub(r'\s*Line: \d+', '', m)
    m = re.sub(r'<class .*', '', m, flags=re.S)
    m = re.sub(r'\s+', ' ', m).strip()

    def tok(mo):
        t = mo.group(1)
        return 'but got ' + (t if re.fullmatch(r'[,;()\[\]{}.:#=*]|endmodule|module|input|output|inout|wire', t) else '<id>')
    m = re.sub(r'but got (\S+)', tok, m)
    return m[:160]


def item(kind, sig, detail):
    return {'kind': kind, 'sig': sig, 'detail': detail}


# ------------------------------------------------------------------ C06
def hierarchy_roots(canon, lib='work'):
    inst = set()
    for d in canon['defs'].values():
        for i in d['insts'].values():
            inst.add(i['ref'])
    return sorted(n for n, d in canon['defs'].items() if d['lib'] == lib and n not in inst)


def top_item(prop_prefix, root, got_top, modules):
    """the module that no other module instantiates is the top, in every file order (the reader decides at the end of
    the file: elect_top)"""
    return item('top', 'C06|top|root-module-not-elected', 'root module %r, elected top %r' % (root, got_top))


def reversed_assigns(assigns):
    return sorted([[w, list(reversed(p))] for w, p in assigns], key=lambda a: (a[0], str(a[1])))


def assigns_match_up_to_pin_reversal(exp, got):
    """every assign is there, each either as meant or (multi-bit ones) with its pin order exactly reversed"""
    rest = [list(map(list, p)) for w, p in got]
    for w, p in exp:
        p = list(map(list, p))
        if p in rest:
            rest.remove(p)
        elif w > 1 and list(reversed(p)) in rest:
            rest.remove(list(reversed(p)))
        else:
            return False
    return not rest


def c06_compare(design, exp, got):
    """items for every difference between the design's meaning and the canonical netlist"""
    items = []
    instantiated = set(i['ref'] for d in got['defs'].values() for i in d['insts'].values())
    if exp['top'] != got['top']:
        mods = [(m['name'], m['cell'], [it['mod'] for it in m['body'] if it['k'] == 'inst']) for m in design['modules']]
        items.append(top_item('C06', exp['top'], got['top'], mods))
    # D1: port order taken from a named use that precedes the declaration
    decl_pos = {m['name']: k for k, m in enumerate(design['modules'])}
    fwd_named = set()
    for k, m in enumerate(design['modules']):
        for it in m['body']:
            if it['k'] == 'inst' and it['named'] and it['mod'] in decl_pos and decl_pos[it['mod']] > k:
                fwd_named.add(it['mod'])
    reorder = {}
    for n, e in exp['defs'].items():
        g = got['defs'].get(n)
        if g is not None and e['ports'] != g['ports'] and n in fwd_named and sorted(map(str, e['ports'])) == sorted(map(str, g['ports'])):
            reorder[n] = [p[0] for p in g['ports']]
    if reorder:
        d2 = copy.deepcopy(design)
        for m in d2['modules']:
            if m['name'] in reorder:
                by = {p['name']: p for p in m['ports']}
                m['ports'] = [by[x] for x in reorder[m['name']]]
        exp = G.expected(d2)
        # the meaning of positional maps is taken with the ORIGINAL order: recompute those with the original design
        exp_orig = G.expected(design)
        for n in reorder:
            items.append(item('ports', 'C06|ports|order-taken-from-named-use-before-declaration',
                              'module %r: declared %r, built %r' % (n, [p[0] for p in exp_orig['defs'][n]['ports']], reorder[n])))
        # with the (wrong) order the reader used, positional maps land on other ports:
        for n, e in exp_orig['defs'].items():
            if e['nets'] != exp['defs'][n]['nets'] and got['defs'].get(n, {}).get('nets') == exp['defs'][n]['nets']:
                items.append(item('nets', 'C06|nets|positional-map-follows-order-of-named-use-before-declaration',
                                  'module %r: positional connections of %s' % (n, sorted(reorder))))
                # accept the recomputed meaning for the rest of the comparison
            elif e['nets'] != exp['defs'][n]['nets']:
                exp['defs'][n]['nets'] = e['nets']
    for n in sorted(set(exp['defs']) | set(got['defs']), key=str):
        e, g = exp['defs'].get(n), got['defs'].get(n)
        if e is None or g is None:
            items.append(item('modules', 'C06|modules|unclassified', 'module %r %s' % (n, 'unexpected' if e is None else 'missing')))
            continue
        mod = next((m for m in design['modules'] if m['name'] == n), None)
        for f in sorted(set(e) | set(g)):
            if e.get(f) == g.get(f):
                continue
            sig = 'C06|%s|unclassified' % f
            if f == 'assigns' and assigns_match_up_to_pin_reversal(e[f], g[f]):
                sig = 'C06|assigns|multi-bit-assign-pins-msb-first'
            elif f == 'port_attrs' and not g[f]:
                sig = 'C06|port_attrs|attributes-of-port-declaration-dropped'
            items.append(item(f, sig, '; '.join(W.diff_canon({'defs': {n: {f: e.get(f)}}}, {'defs': {n: {f: g.get(f)}}}, 3))))
    return items


def c06_items(design, text):
    exp = G.expected(design)
    try:
        n = parse_text(text)
    except Exception as e:  # noqa
        return [item('rejected', 'C06|rejected|' + norm_msg(e), 'reader raised %s' % norm_msg(e))], None
    items = []
    bad = W.wf(n)
    if bad:
        items.append(item('wf', 'C06|wf|unclassified', bad[:4]))
    got = W.canon(n)
    if 'duplicate_definitions' in got:
        items.append(item('modules', 'C06|modules|unclassified', 'duplicate definitions %r' % got['duplicate_definitions']))
    items += c06_compare(design, exp, got)
    return items, n


def c06_file_items(path):
    """bundled example: accepted, well-formed, the unique root module is the top"""
    try:
        n = parse_file(path)
    except Exception as e:  # noqa
        return [item('rejected', 'C06|rejected|' + norm_msg(e), 'bundled file rejected: %s' % norm_msg(e))], None
    items = []
    bad = W.wf(n)
    if bad:
        items.append(item('wf', 'C06|wf|unclassified', bad[:4]))
    c = W.canon(n)
    roots = hierarchy_roots(c)
    if len(roots) == 1 and c['top'] != roots[0]:
        # declaration order = order of the definitions in the work library; instances in order of creation
        mods = []
        for lib in n.libraries:
            if lib.name == 'work':
                for d in lib.definitions:
                    mods.append((d.name, False, [ch.reference.name for ch in d.children if not W.is_assign_instance(ch)]))
        items.append(top_item('C06', roots[0], c['top'], mods))
    return items, n


# ------------------------------------------------------------------ C04
def has_multibit_assign(netlist):
    for lib in netlist.libraries:
        if lib.name == W.ASSIGN_LIB:
            for d in lib.definitions:
                if len(d.references) > 0 and any(len(p.pins) > 1 for p in d.ports):
                    return True
    return False


def assign_not_one_slice(netlist):
    """some assignment instance has a side (the pins of o or of i, in pin order) that is not one run of consecutive
    wires of ONE cable, in either direction: there is no "c[h:l]" for it (after flatten: the port of the flattened
    module was connected to a concatenation)"""
    for lib in netlist.libraries:
        for d in lib.definitions:
            for inst in d.children:
                if not W.is_assign_instance(inst):
                    continue
                for port in inst.reference.ports:
                    ws = [inst.pins[p].wire for p in port.pins]
                    if any(w is None for w in ws) or len(set(id(w.cable) for w in ws)) > 1:
                        return True
                    idx = [w.cable.wires.index(w) for w in ws]
                    steps = set(b - a for a, b in zip(idx, idx[1:]))
                    if steps and steps != {1} and steps != {-1}:
                        return True
    return False


def has_portless_primitive(netlist):
    for lib in netlist.libraries:
        if lib.name == W.PRIM_LIB:
            for d in lib.definitions:
                if len(d.ports) == 0:
                    return True
    return False


def primitive_rewritten(b, a):
    """the one accepted shape of difference for an INFERRED primitive (finding): it comes back as a declared
    celldefine module: undefined directions are inout, every port has its cable, the flag is gone"""
    if not b.get('primitive') or a is None:
        return False
    if [[p[0], ('inout' if p[1] == 'undefined' else p[1]), p[2], p[3]] for p in b['ports']] != a['ports']:
        return False
    if b['cables'] or b['nets'] or b['insts'] or b['assigns']:
        return False
    if a['cables'] != {p[0]: [p[2], p[3], 'wire'] for p in a['ports']}:
        return False
    want = {}
    for p in a['ports']:
        for k in range(p[2]):
            want['%s[%d]' % (p[0], p[3] + k)] = ['P:%s[%d]' % (p[0], p[3] + k)]
    if a['nets'] != want or a['insts'] or a['assigns']:
        return False
    for f in ('params', 'attrs', 'port_attrs', 'cable_attrs', 'lib'):
        if b.get(f) != a.get(f):
            return False
    return True


def uncabled_ports_rewritten(b, a):
    """finding: a port none of whose pins is on a wire of its module (and no cable of its name exists) is
    written as a plain declaration and comes back with a cable of its own joined to it - nothing else differs"""
    if a is None or b['ports'] != a['ports']:
        return False
    pinned = set()
    for net, eps in b['nets'].items():
        for ep in eps:
            if ep.startswith('P:'):
                pinned.add(ep[2:ep.rindex('[')])
    loose = [p for p in b['ports'] if p[0] not in pinned and p[0] not in b['cables']]
    if not loose:
        return False
    want_c = dict(b['cables'])
    want_n = dict(b['nets'])
    for p in loose:
        want_c[p[0]] = [p[2], p[3], 'wire']
        for k in range(p[2]):
            want_n['%s[%d]' % (p[0], p[3] + k)] = ['P:%s[%d]' % (p[0], p[3] + k)]
    if a['cables'] != want_c or a['nets'] != want_n:
        return False
    return all(b.get(f) == a.get(f) for f in set(b) | set(a) if f not in ('cables', 'nets'))


def primitive_reg_lost(b, a):
    """finding: the reg type of a port cable of a `celldefine module is not written (primitives get no cable
    declarations) - nothing else differs"""
    if a is None or b['lib'] != W.PRIM_LIB or set(b['cables']) != set(a['cables']):
        return False
    diff = [c for c in b['cables'] if b['cables'][c] != a['cables'][c]]
    if not diff or not all(b['cables'][c][:2] == a['cables'][c][:2] and b['cables'][c][2] == 'reg' and a['cables'][c][2] == 'wire' for c in diff):
        return False
    return all(b.get(f) == a.get(f) for f in set(b) | set(a) if f != 'cables')


def c04_compare(before, after, opts):
    items = []
    if before.get('top') != after.get('top'):
        sig = 'C04|top|unclassified'
        items.append(item('top', sig, 'top before %r, after %r' % (before.get('top'), after.get('top'))))
    wb = opts.get('write_blackbox', True)
    dl = opts.get('definition_list') or None
    for n in sorted(set(before['defs']) | set(after['defs']), key=str):
        b, a = before['defs'].get(n), after['defs'].get(n)
        if dl is not None and n not in dl:
            # modules outside definition_list are not written: they come back (if used) as inferred primitives
            continue
        if b is not None and b['lib'] == W.PRIM_LIB and not wb:
            # option write_blackbox=False: primitives are not written; they are re-inferred from their uses
            continue
        if b == a:
            continue
        if b is not None and a is not None and primitive_rewritten(b, a):
            items.append(item('primitive', 'C04|inferred-primitive|comes-back-as-declared-inout-module', 'primitive %r' % n))
            continue
        if b is not None and a is not None and uncabled_ports_rewritten(b, a):
            items.append(item('ports', 'C04|port-without-cable|comes-back-with-a-cable-of-its-own', 'module %r' % n))
            continue
        if b is not None and a is not None and primitive_reg_lost(b, a):
            items.append(item('cables', 'C04|cables|reg-type-of-primitive-port-not-written', 'primitive %r' % n))
            continue
        if b is None or a is None:
            items.append(item('modules', 'C04|modules|unclassified', 'module %r %s' % (n, 'appeared' if b is None else 'lost')))
            continue
        for f in sorted(set(b) | set(a)):
            if b.get(f) != a.get(f):
                items.append(item(f, 'C04|%s|unclassified' % f,
                                  '; '.join(W.diff_canon({'defs': {n: {f: b.get(f)}}}, {'defs': {n: {f: a.get(f)}}}, 3))))
    return items


def names_needing_escape(netlist):
    """names that are neither simple identifiers nor escaped identifiers (e.g. the a/b names made by flatten)"""
    out = []
    for lib in netlist.libraries:
        if lib.name == W.ASSIGN_LIB:
            continue
        for d in lib.definitions:
            for o in [d] + list(d.ports) + list(d.cables) + [c for c in d.children if not W.is_assign_instance(c)]:
                n = o.name
                if n is None or re.fullmatch(r'[A-Za-z_][A-Za-z0-9_]*', n) or (n.startswith('\\') and not re.search(r'\s', n.rstrip(' '))):
                    continue
                out.append(n)
    return out


def c04_items(netlist, opts=None):
    """one write/read cycle of a netlist the reader produced (possibly transformed)"""
    opts = dict(opts or {})
    before = W.canon(netlist)
    try:
        text = compose_text(netlist, **opts)
    except Exception as e:  # noqa
        m = norm_msg(e)
        if any(p.name is None for lib in netlist.libraries for d in lib.definitions for p in d.ports):
            return [item('compose-raises', 'C04|compose-raises|netlist-with-unnamed-ports|' + m,
                         'composer raised %s on a netlist with unnamed ports (positional map on a never-declared module)' % m)], None, None
        if 'connected to a single assignment' in m and assign_not_one_slice(netlist):
            return [item('compose-raises', 'C04|compose-raises|assign-pins-not-one-slice|' + m,
                         'composer raised %s on a netlist with an assignment instance whose o or i pins are not one slice of one cable' % m)], None, None
        return [item('compose-raises', 'C04|compose-raises|' + m, 'composer raised %s' % m)], None, None
    # the property quantifies over every write: a second write of the same netlist (same process) must give the
    # same file, otherwise its read-back cannot give the same modules either
    try:
        text2 = compose_text(netlist, **opts)
    except Exception as e:  # noqa
        return [item('second-write', 'C04|second-write|raises', 'writing the same netlist a second time raised %s' % norm_msg(e))], text, None
    if text2 != text:
        return [item('second-write', 'C04|second-write|differs', 'writing the same netlist a second time gave a different file (%d vs %d bytes)' % (len(text), len(text2)))], text, None
    try:
        n2 = parse_text(text)
    except Exception as e:  # noqa
        m = norm_msg(e)
        bad = names_needing_escape(netlist)
        if bad:
            return [item('reparse-rejected', 'C04|reparse-rejected|name-that-needs-escaping-written-unescaped',
                         'the written text is rejected by the reader (%s); names written without a leading backslash: %r' % (m, bad[:3]))], text, None
        return [item('reparse-rejected', 'C04|reparse-rejected|' + m, 'the written text is rejected by the reader: %s' % m)], text, None
    after = W.canon(n2)
    items = c04_compare(before, after, opts)
    bad = W.wf(n2)
    if bad:
        items.append(item('wf', 'C04|wf|unclassified', bad[:4]))
    return items, text, n2


TRANSFORMS = ('none', 'uniquify', 'flatten', 'clone')


def transform(netlist, how):
    if how == 'uniquify':
        uniquify(netlist)
    elif how == 'flatten':
        uniquify(netlist)
        flatten(netlist)
    elif how == 'clone':
        return netlist.clone()
    return netlist
