"""Check of property C13 (query filters) - engine `query`.

  1. re-check of the Coq proofs (coq/theories/Props/C13.v against the current model .vo files);
  2. corpus/query/*.json (known-finding witnesses, regressions) replayed first;
  3. correspondence of the extracted model (ocaml/_build/driver_query) with /repo:
       matcher level (patterns.py) and stage level (the filter stages of get_*.py);
  4. the property's metamorphic oracle evaluated on the real query functions (query_oracle.py);
  5. on a disagreement / oracle failure: shrink, search the implementation for a concrete input on
     which the property fails, report VIOLATION (or KNOWN-FINDING for open known findings);
  6. evidence/C13.json."""
import collections, json, os, random, subprocess, sys, time
sys.path.insert(0, os.path.dirname(os.path.abspath(__file__)))
import common
common.ensure_impl_python()
import query_nets, query_oracle as qo, query_corr as qc, query_enum as qe
import ir_run

PROP = 'C13'
CORPUS_DIR = os.path.join(common.CORPUS, 'query')
LOCAL_FINDINGS = os.path.join(CORPUS_DIR, 'known_findings_query.json')
STAGE_A_FUNCS = ('get_libraries', 'get_definitions', 'get_instances', 'get_ports', 'get_cables')
COQ_CHAIN = ['Query/Glob.v', 'Query/Regex.v', 'Query/Patterns.v', 'Query/Filter.v', 'Proofs/QueryGlob.v',
             'Proofs/QueryRegex.v', 'Proofs/QueryFilterA.v', 'Proofs/QueryFilterB.v', 'Proofs/QueryFilter.v',
             'Query/Enum.v', 'Query/EnumSpec.v', 'Proofs/QueryEnumWL.v', 'Proofs/QueryEnumBase.v', 'Proofs/QueryEnumView.v',
             'Proofs/QueryEnumInst.v', 'Proofs/QueryEnumPorts.v', 'Proofs/QueryEnumNetl.v', 'Proofs/QueryEnumPins.v',
             'Proofs/QueryEnumDefs.v', 'Proofs/QueryEnumLibs.v', 'Proofs/QueryEnumCables.v', 'Proofs/QueryEnumFull.v', 'Proofs/QueryEnumEx.v',
             'Proofs/QueryEnumTerm.v', 'Proofs/QueryEnumWires.v', 'Proofs/QueryEnumWiresSpec.v',
             'Extract/ExtractQuery.v']


# ------------------------------------------------------------------------------------------------
# build of the engine's own artefacts (only when something is missing; tools/build.sh does the
# full build once the files are listed in _CoqProject)

def ensure_build():
    th = os.path.join(common.COQ, 'theories')
    log = []
    ok = True
    for f in COQ_CHAIN:
        vo = os.path.join(th, f + 'o')
        if not os.path.exists(vo) or os.path.getmtime(vo) < os.path.getmtime(os.path.join(th, f)):
            r = subprocess.run(['timeout', '300', 'coqc', '-R', 'theories', 'SV', 'theories/' + f], cwd=common.COQ,
                               capture_output=True, text=True)
            log.append('coqc %s -> %d %s' % (f, r.returncode, (r.stdout + r.stderr)[-400:]))
            if r.returncode != 0:
                ok = False
                break
    drv = qc.DRIVER
    ml = os.path.join(common.COQ, 'query_model.ml')
    src = os.path.join(common.ROOT, 'ocaml', 'driver_query.ml')
    if ok and (not os.path.exists(drv) or os.path.getmtime(drv) < os.path.getmtime(ml) or os.path.getmtime(drv) < os.path.getmtime(src)):
        os.makedirs(common.OCAML_BUILD, exist_ok=True)
        cmd = ('cp %s/query_model.ml %s/query_model.mli . && cp %s . && '
               'ocamlfind ocamlopt -w -a query_model.mli query_model.ml driver_query.ml -o driver_query'
               % (common.COQ, common.COQ, src))
        r = subprocess.run(cmd, shell=True, cwd=common.OCAML_BUILD, capture_output=True, text=True)
        log.append('ocaml build -> %d %s' % (r.returncode, (r.stdout + r.stderr)[-400:]))
        ok = ok and r.returncode == 0
    return ok and os.path.exists(drv), '\n'.join(log)


# ------------------------------------------------------------------------------------------------
# known findings

def load_findings():
    fs = list(common.load_known_findings(PROP))
    if os.path.exists(LOCAL_FINDINGS):
        have = set(f.get('id') for f in fs)
        for f in json.load(open(LOCAL_FINDINGS)).get('findings', []):
            if f.get('property') == PROP and f.get('id') not in have:
                fs.append(f)
    return fs


def _kinds(root_kind):
    if root_kind.startswith('list('):
        return root_kind[5:-1].split('+')
    return [root_kind]


STAGE_A_ROOTS = {'get_instances': ('definition', 'library', 'netlist'), 'get_libraries': ('netlist',),
                 'get_definitions': ('library', 'netlist')}


def routes_to_stage_b(fn, kind, sel, rec=False):
    """does a root of this kind reach the name-map stage of fn (root kinds of the first stage
    reach it only under selection OUTSIDE - and get_definitions also when recursing into the
    definitions of a library; get_libraries' first stage has no selection)"""
    if kind not in STAGE_A_ROOTS[fn]:
        return True
    if fn == 'get_libraries':
        return False
    return sel == 'OUTSIDE' or (fn == 'get_definitions' and bool(rec))


def signature(f):
    """Per-case signature of an oracle failure: the violated clause plus the mechanism that the
    observable attributes of the case identify; anything that fits no mechanism is 'unclassified'
    and can never match a known finding."""
    clause = f['clause']
    fn = f['function']
    pats = f.get('pats')
    ic, ir = f.get('is_case', True), f.get('is_re', False)
    absp = [p for p in (pats or []) if qo.is_absolute_spec(p, ic, ir)]
    nonabs = [p for p in (pats or []) if not qo.is_absolute_spec(p, ic, ir)]
    key, policy = f.get('key'), f.get('policy')
    kinds = _kinds(f['root_kind'])
    is_list = f['root_kind'].startswith('list(')
    if policy == 'EDIF' and key == 'EDIF.identifier' and absp:
        low = [p.lower() for p in absp]
        if clause == 'filter' and not f.get('extra') and f.get('missing') and \
                all(v not in absp and v.lower() in low for v in f['missing_values']):
            return 'filter|edif-identifier-case-folded-only-by-fast-lookup'
        if clause == 'lookup' and not f.get('only_deregistered') and f.get('only_registered') and \
                all(v not in absp and v.lower() in low for v in f['values']):
            return 'lookup|edif-identifier-case-folded-only-by-fast-lookup'
    if fn in qo.HIER and clause == 'filter' and not f.get('missing') and f.get('extra') and \
            (is_list or any(k not in ('netlist', 'href:instance') for k in kinds) or f.get('selection') in ('OUTSIDE', 'BOTH', 'ALL')):
        return 'filter|hierarchical-query-ignores-patterns-for-this-root-or-selection'
    return 'unclassified|%s|%s|%s|key=%s|policy=%s|shape=%s' % (clause, fn, f['root_kind'], key, policy, f.get('shape'))


# ------------------------------------------------------------------------------------------------
# one generated netlist: stage correspondence + oracle

def gen_world(seed, c):
    rng = random.Random('%d/query/net/%d' % (seed, c))
    policy = rng.choice(['DEFAULT', 'EDIF'])
    if c % 5 == 0:
        w, ops = query_nets.handmade(c // 5, policy)
        src = 'handmade-%d' % ((c // 5) % 3)
    else:
        w, ops = query_nets.generated(rng, policy)
        src = 'netgen'
    return rng, policy, w, ops, src


def oracle_cases(w, rng, frac):
    roots = qo.all_roots(w, rng)
    out = []
    for fname, (sels, has_rec, has_pat, has_key) in qo.FUNCS.items():
        for roottok in roots:
            if rng.random() > frac:
                continue
            sel = rng.choice(sels) if sels else None
            rec = rng.choice([False, True]) if has_rec else None
            key = rng.choice(qo.KEYS) if has_key else None
            out.append((fname, roottok, sel, rec, key))
    return out


def run_oracle_case(w, rng, policy, case, stats, n_values=2):
    fname, roottok, sel, rec, key = case
    root = qo.resolve_root(w, roottok)
    st, U = qo.call(fname, root, sel=sel, rec=rec, key=key)
    vals = [qo.value_of(fname, e, key, root) for e in U] if st == 'ok' else []
    if fname in qo.HIER and st == 'ok' and U and isinstance(root, qo.HRef):
        # below a reference the names are relative to it: patterns built from the FULL names of some results must
        # then select nothing that the relative names do not select
        vals = vals + [e.name for e in rng.sample(U, min(2, len(U)))]
    patsets = qo.derive_patterns(rng, vals, n_values) if qo.FUNCS[fname][2] else []
    if patsets and key == 'EDIF.identifier' and getattr(w, 'extra_patterns', None):
        # identifiers of elements whose creation was refused earlier: nothing carries them
        patsets.append(([rng.choice(w.extra_patterns)], True, False, 'refused-orphan-identifier'))
        patsets.append((list(w.extra_patterns), True, False, 'refused-orphan-identifiers'))
    stats['oracle:%s' % fname] += 1
    stats['rootkind:%s' % (qo.root_kind(w, roottok) if roottok[0] != 'L' else 'list')] += 1
    return qo.check_case(w, fname, roottok, sel, rec, key, patsets, policy, stats)


def process_world(args):
    """worker: one netlist. -> dict(stats, oracle failures, stage disagreements, ops, size...)"""
    seed, c, frac, nstage, nenum = args
    stats = collections.Counter()
    rng, policy, w, ops, src = gen_world(seed, c)
    res = dict(c=c, policy=policy, source=src, ops=ops, fails=[], stage_bad=[], enum_bad=[], nobj=len(w.objs))
    try:
        stats['netlist:%s:%s' % (src, policy)] += 1
        stats['objects_%s' % ('<40' if len(w.objs) < 40 else '40-99' if len(w.objs) < 100 else '100-249' if len(w.objs) < 250 else '250+')] += 1
        res['stage_bad'] = qc.check_stage(w, rng, policy, nstage, stats)
        res['enum_bad'] = qe.check_enum(w, ops, random.Random('%d/query/enum/%d' % (seed, c)), policy, nenum, stats)
        cases1 = oracle_cases(w, rng, frac)
        for case in cases1:
            for f in run_oracle_case(w, rng, policy, case, stats):
                f['signature'] = signature(f)
                res['fails'].append(f)
        # ---- the same queries again after value edits: elements keep their place, child counts are
        #      unchanged, the values under the queried keys change (set / set where absent / deleted /
        #      renamed). The result for a pattern is defined by the values NOW; anything a query path kept
        #      from the first round (scan index, name map) must not show. Model side: the driver
        #      rebuilds the netlist from the extended op history.
        n_pre = len(ops)
        rng2 = random.Random('%d/query/edits/%d' % (seed, c))
        n_edits = query_nets.edit_values(w, ops, rng2)
        stats['value_edits'] += n_edits
        if n_edits:
            stats['netlists_requeried_after_edits'] += 1
            for d in qc.check_stage(w, rng2, policy, max(8, nstage // 2), stats):
                res['stage_bad'].append(dict(d, after_edits=dict(n_pre=n_pre)))
            for d in qe.check_enum(w, ops, random.Random('%d/query/enum2/%d' % (seed, c)), policy, max(40, nenum // 3), stats):
                res['enum_bad'].append(dict(d, after_edits=dict(n_pre=n_pre)))
            for case in cases1:
                if not qo.FUNCS[case[0]][2]:
                    continue
                stats['oracle_after_edits'] += 1
                for f in run_oracle_case(w, rng2, policy, case, stats):
                    f['after_edits'] = dict(n_pre=n_pre)
                    f['signature'] = signature(f)
                    res['fails'].append(f)
        if not qo.lookups_registered():
            res['fails'].append(dict(clause='harness', function='-', root_kind='-', signature='unclassified|lookup-not-restored'))
        # the hypothesis PolCoh of C13_lookup_hypothesis_for_identifiers, on the implementation: the children of a
        # parent under the EDIF policy carry .NS = EDIF (after all the edits of this session)
        for o in w.objs:
            if w.kind(o) in ('netlist', 'library', 'definition') and '.NS' in o and o['.NS'] == 'EDIF':
                for attr in ('libraries', 'definitions', 'ports', 'cables', 'children'):
                    for ch in getattr(o, attr, ()):
                        stats['polcoh_children_checked'] += 1
                        if '.NS' not in ch or ch['.NS'] != 'EDIF':
                            res['fails'].append(dict(clause='lookup', function='-', root_kind=w.kind(o), key='EDIF.identifier', policy=policy,
                                                     detail='child %s of EDIF parent %s has .NS %r' % (qo.elem_tok(w, ch), qo.elem_tok(w, o), ch.get('.NS')),
                                                     signature='unclassified|policy-coherence'))
    finally:
        w.close()
    res['stats'] = stats
    return res


# ------------------------------------------------------------------------------------------------
# extraction cross-check: the same requests evaluated by the kernel (vm_compute inside coqc)

def kernel_crosscheck(rng, n, stats):
    import re as _re
    cases = []
    alpha = qc.GLOB_ALPHABET + ['(', ')', '|', '+']
    for _ in range(n):
        p = ''.join(rng.choice(alpha) for _ in range(rng.randint(0, 5)))
        v = rng.choice([None, ''.join(rng.choice(qc.VALUE_ALPHABET) for _ in range(rng.randint(0, 5)))])
        cases.append((p, v, rng.random() < 0.5, rng.random() < 0.5))

    def lit(s):
        return '[' + ';'.join(str(ord(c)) for c in s) + ']%N' if s else '(@nil N)'
    items = ';\n'.join('(%s, %s, %s, %s)' % (lit(p), 'None' if v is None else 'Some (%s)' % lit(v), str(ic).lower(), str(ir).lower())
                       for p, v, ic, ir in cases)
    src = ('From Coq Require Import List NArith.\nFrom SV Require Import Base.Base Query.Glob Query.Regex Query.Patterns.\n'
           'Import ListNotations.\nEval vm_compute in (map (fun c : (str * option str * bool * bool) => '
           'match c with (p, v, ic, ir) => value_matches v p ic ir end) [\n%s]).\n' % items)
    d = '/tmp/query_kernel_%d' % os.getpid()
    os.makedirs(d, exist_ok=True)
    path = os.path.join(d, 'kernel_check.v')
    open(path, 'w').write(src)
    r = subprocess.run(['timeout', '300', 'coqc', '-R', 'theories', 'SV', path], cwd=common.COQ, capture_output=True, text=True)
    import shutil
    shutil.rmtree(d, ignore_errors=True)
    if r.returncode != 0:
        return [dict(level='kernel', error=(r.stdout + r.stderr)[-400:])]
    got = _re.findall(r'Some true|Some false|None', r.stdout.split('=', 1)[1] if '=' in r.stdout else '')
    kern = [{'Some true': 'T', 'Some false': 'F', 'None': 'U'}[g] for g in got]
    ext = qc.run_model(['M %s %s %s %s' % (qc.b(ic), qc.b(ir), qc.tok_of_s(p), qc.otok(v)) for p, v, ic, ir in cases])
    stats['kernel_evals'] += len(cases)
    if len(kern) != len(cases):
        return [dict(level='kernel', error='parsed %d answers for %d cases' % (len(kern), len(cases)))]
    return [dict(level='kernel', pattern=c[0], value=c[1], is_case=c[2], is_re=c[3], kernel=k, extracted=e)
            for c, k, e in zip(cases, kern, ext) if k != e]



# the netlist `ex` of coq/theories/Proofs/QueryEnumEx.v as op lines (same history as ex_ops there)
EX_OPS = ["new netlist 110 0", "create libs 0 76 0 0 ~", "create defs 1 108,101,97,102 0 0 ~", "create ports 2 97 0 1 ~",
          "create defs 1 109,105,100 0 0 ~", "create ports 5 112 0 1 ~", "create cables 5 99 0 1 ~", "create children 5 97 0 0 2",
          "create children 5 97,98 0 0 2", "connect 9 I7 ~", "connect 9 O10.4 ~", "create libs 0 87 0 0 ~",
          "create defs 12 116,111,112 0 0 ~", "create children 13 117 0 0 5", "create children 13 97 0 0 2", "settop 0 D13"]


def kernel_crosscheck_enum(rng, n, stats):
    """whole queries on the netlist ex: kernel evaluation (vm_compute inside coqc) against the extracted driver"""
    import re as _re, shutil
    roots = ['E%d' % i for i in range(17)] + ['O10.4', 'O14.7', 'H16', 'H16/14', 'H16/14/10', 'H16/15', 'D']
    names = ['n', 'L', 'leaf', 'a', 'mid', 'p', 'c', 'ab', 'W', 'top', 'u']

    def lit(s_):
        return '[' + ';'.join(str(ord(ch)) for ch in s_) + ']%N' if s_ else '(@nil N)'

    def coq_root(tok):
        if tok == 'D':
            return 'IDet'
        if tok[0] == 'E':
            return 'IE %s' % tok[1:]
        if tok[0] == 'O':
            a, b_ = tok[1:].split('.')
            return 'IO %s %s' % (a, b_)
        return 'IH [%s]' % ';'.join(reversed(tok[1:].split('/')))   # the model is leaf first
    terms, lines = [], []
    for _ in range(n):
        fn = rng.choice(['instances', 'definitions', 'libraries', 'ports', 'netlists', 'cables', 'wires'])
        root = rng.choice(roots)
        rec, reg = rng.random() < 0.6, rng.random() < 0.7
        sel = rng.choice(['INSIDE', 'OUTSIDE']) if fn in ('instances', 'definitions', 'libraries') else rng.choice(qo.SEL4)
        v = rng.choice(names)
        pats = rng.choice([['*'], [v], [v[:1] + '*'], [v, v[:1] + '*'], ['?' + v[1:]], [v.swapcase()]])
        ic = rng.random() < 0.7
        opt = '(mkQ %s %s false str_NAME (fun _ => true))' % (str(reg).lower(), str(ic).lower())
        cpats = '[' + ';'.join(lit(p_) for p_ in pats) + ']'
        csel = {'INSIDE': 'SInside', 'OUTSIDE': 'SOutside', 'BOTH': 'SBoth', 'ALL': 'SAll'}[sel]
        inside = 'true' if sel == 'INSIDE' else 'false'
        r = '[%s]' % coq_root(root)
        if fn in ('instances', 'definitions', 'libraries'):
            terms.append('query_%s ex %s 200 %s %s %s %s' % (fn, opt, r, str(rec).lower(), inside, cpats))
        elif fn in ('ports', 'netlists'):
            terms.append('query_%s ex %s 200 %s %s' % (fn, opt, r, cpats))
        elif fn == 'cables':
            terms.append('query_cables ex %s 200 %s %s %s %s' % (opt, r, str(rec).lower(), csel, cpats))
        else:
            terms.append('query_wires ex (fun _ => true) 200 %s %s %s' % (r, str(rec).lower(), csel))
        lines.append('F %s %s %s 0 %s %s 0 0 %s %d %s 1 %s' % (fn, qc.b(reg), qc.b(ic), qc.b(rec), sel, qc.tok_of_s('.NAME'), len(pats),
                                                           ' '.join(qc.tok_of_s(p_) for p_ in pats), root))
    src = ('From Coq Require Import List NArith.\nFrom SV Require Import Base.Base IR.State Hier.Trace Query.Filter Query.Enum Proofs.QueryEnumEx.\n'
           'Import ListNotations.\nEval vm_compute in [\n%s].\n' % ';\n'.join(terms))
    d = '/tmp/query_kernel_enum_%d' % os.getpid()
    os.makedirs(d, exist_ok=True)
    path = os.path.join(d, 'kernel_enum.v')
    open(path, 'w').write(src)
    r = subprocess.run(['timeout', '600', 'coqc', '-R', 'theories', 'SV', path], cwd=common.COQ, capture_output=True, text=True)
    shutil.rmtree(d, ignore_errors=True)
    if r.returncode != 0:
        return [dict(level='kernel-enum', error=(r.stdout + r.stderr)[-400:])]
    body = ' '.join(r.stdout.split())
    got = _re.findall(r'WOk \[([^\]]*)\]|(WFuel)|(WErr)', body.split(':', 1)[0] if False else body)
    kern = []
    for lst, fu, er in got:
        if fu:
            kern.append('FUEL')
        elif er:
            kern.append('ERR key')
        else:
            ids = [x.strip() for x in lst.split(';') if x.strip()]
            kern.append(','.join(sorted(ids)) or '-')
    ext = [qe.norm(x) for x in qc.run_model(['reset'] + ['op ' + o for o in EX_OPS] + lines)[1 + len(EX_OPS):]]
    stats['kernel_enum_evals'] += len(lines)
    if len(kern) != len(lines):
        return [dict(level='kernel-enum', error='parsed %d answers for %d requests' % (len(kern), len(lines)))]
    return [dict(level='kernel-enum', request=l, kernel=k, extracted=e) for l, k, e in zip(lines, kern, ext) if k != e]


# ------------------------------------------------------------------------------------------------
# replay of a single oracle case on a recipe

def replay_oracle(ops, case, stats=None):
    """case: dict(function, root, selection, recursive, key, pats, is_case, is_re, policy, shape)"""
    stats = stats if stats is not None else collections.Counter()
    ae = case.get('after_edits')
    w = query_nets.rebuild(ops[:ae['n_pre']] if ae else ops)
    try:
        if ae:
            # a session: the same query (unfiltered, then every value exactly, lookups registered and not)
            # BEFORE the value edits ops[n_pre:], then the edits, then the case
            root = qo.resolve_root(w, case['root'])
            has_key = qo.FUNCS[case['function']][3]
            kk = case.get('key') if has_key else None
            st, U = qo.call(case['function'], root, sel=case.get('selection'), rec=case.get('recursive'), key=kk)
            vals = sorted(set(str(qo.value_of(case['function'], e, case.get('key'), root)) for e in U)) if st == 'ok' else []
            for v in (vals[:8] + list(case.get('pats') or []))[:12]:
                qo.call(case['function'], root, [v], kk, True, False, case.get('selection'), case.get('recursive'))
                with qo.LookupOff():
                    qo.call(case['function'], root, [v], kk, True, False, case.get('selection'), case.get('recursive'))
            for op in ops[ae['n_pre']:]:
                w.apply(op)
        patsets = [(case['pats'], case.get('is_case', True), case.get('is_re', False), case.get('shape', 'replay'))] if case.get('pats') is not None else []
        fails = qo.check_case(w, case['function'], case['root'], case.get('selection'), case.get('recursive'),
                              case.get('key'), patsets, case.get('policy', 'DEFAULT'), stats)
        for f in fails:
            f['signature'] = signature(f)
        return fails
    finally:
        w.close()


def shrink_failure(ops, f):
    """fewer patterns, then fewer (non-creating) ops, keeping the same signature"""
    case = dict((k, f.get(k)) for k in ('function', 'root', 'selection', 'recursive', 'key', 'pats', 'is_case', 'is_re', 'policy', 'shape'))
    sig = f['signature']
    if f.get('after_edits'):
        # a query session (queries, value edits, queries): the op history is kept whole (the split point counts ops)
        return ops, dict(case, after_edits=f['after_edits'])

    def still(ops_, case_):
        try:
            return any(x['signature'] == sig and x['clause'] == f['clause'] for x in replay_oracle(ops_, case_))
        except Exception:
            return False
    pats = case.get('pats')
    if pats and len(pats) > 1:
        for i in range(len(pats)):
            cand = dict(case, pats=pats[:i] + pats[i + 1:])
            if cand['pats'] and still(ops, cand):
                case = cand
                break
    creating = ('new', 'create', 'settop', 'policy')
    keep = [op for op in ops if op[0] in creating]
    rest_idx = [i for i, op in enumerate(ops) if op[0] not in creating]
    if still(keep, case):
        return keep, case
    sel = ir_run.shrink(rest_idx, lambda idx: still([op for i, op in enumerate(ops) if op[0] in creating or i in set(idx)], case), budget=60)
    sset = set(sel)
    return [op for i, op in enumerate(ops) if op[0] in creating or i in sset], case


# ------------------------------------------------------------------------------------------------
# search for a property failure after a model/implementation disagreement

def tiny_netlist_ops(value, key):
    """a definition with ports / cables / children whose value under key is `value` (plus decoys)"""
    from ir_world import tok_of_s
    import netgen
    b = netgen.Builder()
    n = b.netlist('n')
    lib = b.library(n, 'l')
    leaf = b.definition(lib, 'leaf')
    d = b.definition(lib, 'd')
    names = ['elem', 'decoy']
    els = []
    for nm in names:
        p, _ = b.port(d, nm, 1, direction=2)
        c, _ = b.cable(d, nm, 1)
        x = b.child(d, nm, leaf)
        els += [p, c, x]
    t = b.top_from_definition(n, d)
    ops = list(b.ops)
    vals = [value, (value or '') + 'zz']
    for j, e in enumerate(els):
        v = vals[j // 3]
        if v is None:
            continue
        if key == '.NAME':
            ops.append(['setname', str(e), tok_of_s(v)])
        else:
            ops.append(['dset', str(e), tok_of_s(key), 's:' + tok_of_s(v)])
    return ops, d


def search_from_matcher(bad, stats):
    """a matcher-level disagreement: evaluate the property on a netlist whose element carries the
    value, queried with the pattern (spec matcher decides what must be returned)"""
    found = []
    for x in bad[:6]:
        if x.get('level') == 'absolute':
            # a value the pattern must select: wildcards instantiated
            x = dict(x, level='match', value=x['pattern'].replace('*', 'st').replace('?', 'q'))
        if x.get('level') != 'match' or x.get('value') is None or '\n' in (x.get('value') or ''):
            continue
        for key in ('.NAME', qo.USER_KEY):
            ops, d = tiny_netlist_ops(x['value'], key)
            for fname in ('get_ports', 'get_cables', 'get_instances'):
                case = dict(function=fname, root='E%d' % d, key=key, pats=[x['pattern']],
                            is_case=x['is_case'], is_re=x['is_re'], policy='DEFAULT', shape='from-matcher-disagreement')
                try:
                    fails = replay_oracle(ops, case, stats)
                except Exception:
                    continue
                fails = [f for f in fails if f['signature'].startswith('unclassified')]
                if fails:
                    found.append(dict(ops=ops, case=case, failure=fails[0]))
                    return found
    return found


def search_from_stage(w_ops, desc, stats, seed):
    """a stage-level disagreement: evaluate the oracle on the same query and on neighbours"""
    rng = random.Random('%d/query/search' % seed)
    roots = desc['roots']
    roottok = roots[0] if len(roots) == 1 else 'L' + '+'.join(roots)
    case = dict(function=desc['function'], root=roottok, key=desc.get('key'), pats=desc['pats'], is_case=desc['is_case'],
                is_re=desc['is_re'], policy=desc.get('policy', 'DEFAULT'), recursive=desc.get('recursive'), shape=desc.get('shape'))
    try:
        fails = replay_oracle(w_ops, case, stats)
        fails = [f for f in fails if f['signature'].startswith('unclassified')]
        if fails:
            return dict(ops=w_ops, case=case, failure=fails[0])
        w = query_nets.rebuild(w_ops)
        try:
            for _ in range(12):
                fs = run_oracle_case(w, rng, case['policy'], (case['function'], roottok, None, None, case['key']), stats, 3)
                for f in fs:
                    f['signature'] = signature(f)
                fs = [f for f in fs if f['signature'].startswith('unclassified')]
                if fs:
                    return dict(ops=w_ops, case=dict((k, fs[0].get(k)) for k in case), failure=fs[0])
        finally:
            w.close()
    except Exception:
        pass
    return None


# ------------------------------------------------------------------------------------------------

def search_from_enum(w_ops, desc, stats, seed):
    """a whole-query disagreement: evaluate the oracle on the same query and on neighbours"""
    if 'function' not in desc or desc.get('root') == 'D':
        return None
    rng = random.Random('%d/query/search-enum' % seed)
    case = dict(function=desc['function'], root=desc['root'], key=desc.get('key'), pats=desc.get('pats'), is_case=desc.get('is_case', True),
                is_re=desc.get('is_re', False), policy=desc.get('policy', 'DEFAULT'), recursive=desc.get('recursive'),
                selection=desc.get('selection'), shape=desc.get('shape'))
    try:
        fails = replay_oracle(w_ops, case, stats)
        fails = [f for f in fails if f['signature'].startswith('unclassified')]
        if fails:
            return dict(ops=w_ops, case=case, failure=fails[0])
        w = query_nets.rebuild(w_ops)
        try:
            for _ in range(12):
                fs = run_oracle_case(w, rng, case['policy'], (case['function'], case['root'], case.get('selection'), case.get('recursive'), case['key']), stats, 3)
                for f in fs:
                    f['signature'] = signature(f)
                fs = [f for f in fs if f['signature'].startswith('unclassified')]
                if fs:
                    return dict(ops=w_ops, case=dict((k, fs[0].get(k)) for k in case), failure=fs[0])
        finally:
            w.close()
    except Exception:
        pass
    return None


def strip(f):
    return dict((k, v) for k, v in f.items() if k not in ('stats',))


def run(prop, tier, seed, replay):
    if replay:
        return replay_file(replay)
    t0 = time.time()
    rep = common.Reporter(PROP)
    stats = collections.Counter()
    built, blog = ensure_build()
    proof = common.check_props_file(PROP)
    if not built or not proof['ok']:
        rep.violation('proof', {'kind': 'proof-obligation', 'theorem_file': 'coq/theories/Props/C13.v',
                                'build_ok': built, 'log': blog[-1500:], 'coqc_output': proof['assumptions'][-1500:]},
                      found_input=False)
    known = [k for k in load_findings() if k.get('status') == 'open']
    known_by_sig = {}
    for k in known:
        for s in (k['signature'] if isinstance(k['signature'], list) else [k['signature']]):
            known_by_sig[s] = k
    seen_known = collections.Counter()
    samples = []
    distinct = set()
    n_disagree = 0
    n_oracle_fail = 0
    n_programs = 0

    def report_oracle(source, ops, f):
        """an oracle failure that matches no open known finding"""
        nonlocal n_oracle_fail
        n_oracle_fail += 1
        try:
            sops, scase = shrink_failure(ops, f)
        except Exception:
            sops, scase = ops, dict((k, f.get(k)) for k in ('function', 'root', 'selection', 'recursive', 'key', 'pats', 'is_case', 'is_re', 'policy', 'shape'))
        rep.violation('%s-%s' % (source, common.sha(json.dumps([sops, scase], default=str))),
                      {'kind': 'property-violation-on-implementation', 'engine': 'query', 'source': source,
                       'clause': f['clause'], 'signature': f['signature'], 'ops': [' '.join(o) for o in sops],
                       'case': scase, 'failure': strip(f), 'replay': 'checks/run C13 --replay <this file>'})

    # ---- 1. corpus ----
    if built and os.path.isdir(CORPUS_DIR):
        for fn in sorted(os.listdir(CORPUS_DIR)):
            if not fn.endswith('.json') or fn == os.path.basename(LOCAL_FINDINGS):
                continue
            obj = json.load(open(os.path.join(CORPUS_DIR, fn)))
            n_programs += 1
            out = replay_obj(obj, stats)
            distinct.add(common.sha(json.dumps(obj, sort_keys=True, default=str)))
            expect = obj.get('expect')
            sigs = sorted(set(f['signature'] for f in out['fails']))
            if out['disagreements']:
                n_disagree += len(out['disagreements'])
                rep.violation('corpus-' + fn[:-5], {'kind': 'correspondence-broken', 'engine': 'query', 'source': 'corpus/query/' + fn,
                                                    'disagreements': out['disagreements'][:5]}, found_input=False)
            for s in sigs:
                if s in known_by_sig:
                    seen_known[s] += 1
                else:
                    f = [x for x in out['fails'] if x['signature'] == s][0]
                    report_oracle('corpus-' + fn[:-5], [o.split(' ') for o in obj.get('ops', [])], f)
            if expect and expect not in sigs:
                print('note: corpus/query/%s no longer shows %s on the implementation' % (fn, expect), flush=True)

    # ---- 2. matcher-level correspondence ----
    if built:
        rng = random.Random('%d/query/matcher' % seed)
        bad = qc.check_matcher(rng, tier, stats)
        n_programs += stats['patterns_glob'] + stats['patterns_re']
        if bad:
            n_disagree += len(bad)
            found = search_from_matcher(bad, stats)
            if found:
                rep.violation('matcher-%s' % common.sha(json.dumps(found[0]['case'], default=str)),
                              {'kind': 'property-violation-on-implementation', 'engine': 'query', 'source': 'matcher correspondence',
                               'ops': [' '.join(o) for o in found[0]['ops']], 'case': found[0]['case'], 'failure': strip(found[0]['failure']),
                               'correspondence': bad[:5]})
            else:
                rep.violation('matcher-%s' % common.sha(json.dumps(bad[0], default=str)),
                              {'kind': 'correspondence-broken', 'engine': 'query',
                               'what': 'model (coq/theories/Query/Glob.v, Regex.v, Patterns.v; theorems of Props/C13.v) and spydrnet/util/patterns.py disagree',
                               'disagreements': bad[:8], 'matcher_case': bad[0]}, found_input=False)

    if built and tier != 'quick':
        kb = kernel_crosscheck(random.Random('%d/query/kernel' % seed), 120, stats) + \
            kernel_crosscheck_enum(random.Random('%d/query/kernel-enum' % seed), 150, stats)
        if kb:
            n_disagree += len(kb)
            rep.violation('kernel-%s' % common.sha(json.dumps(kb[0], default=str)),
                          {'kind': 'correspondence-broken', 'engine': 'query', 'what': 'extracted model and kernel evaluation (vm_compute) disagree',
                           'disagreements': kb[:5]}, found_input=False)

    # ---- 3. netlists: stage-level correspondence + oracle ----
    if built:
        ncases, frac, nstage, nenum = (36, 0.22, 40, 320) if tier == 'quick' else (4200, 0.5, 120, 330)
        jobs = [(seed, c, frac, nstage, nenum) for c in range(ncases)]
        if tier == 'quick':
            import multiprocessing as mp
            with mp.get_context('fork').Pool(min(8, os.cpu_count() or 1)) as pool:
                results = pool.map(process_world, jobs, chunksize=2)
        else:
            import multiprocessing as mp
            with mp.get_context('fork').Pool(min(16, os.cpu_count() or 1)) as pool:
                results = pool.map(process_world, jobs, chunksize=8)
        reported = 0
        for res in results:
            n_programs += 1
            stats.update(res['stats'])
            distinct.add(common.sha(json.dumps(res['ops'])))
            if len(samples) < 2:
                samples.append({'netlist_case': res['c'], 'policy': res['policy'], 'source': res['source'], 'objects': res['nobj'],
                                'first_ops': [' '.join(o) for o in res['ops'][:10]]})
            for d in res['stage_bad']:
                n_disagree += 1
                if reported >= 4:
                    continue
                reported += 1
                found = search_from_stage(res['ops'], d, stats, seed)
                if found:
                    rep.violation('stage-%s' % common.sha(json.dumps(found['case'], default=str)),
                                  {'kind': 'property-violation-on-implementation', 'engine': 'query', 'source': 'stage correspondence',
                                   'ops': [' '.join(o) for o in found['ops']], 'case': found['case'], 'failure': strip(found['failure']),
                                   'correspondence': d})
                else:
                    rep.violation('stage-%s' % common.sha(json.dumps(d, default=str)),
                                  {'kind': 'correspondence-broken', 'engine': 'query',
                                   'what': 'model (coq/theories/Query/Filter.v; theorems of Props/C13.v) and spydrnet/util/%s.py disagree' % d['function'],
                                   'ops': [' '.join(o) for o in res['ops']], 'stage_case': d}, found_input=False)
            for d in res['enum_bad']:
                n_disagree += 1
                if reported >= 4:
                    continue
                reported += 1
                found = search_from_enum(res['ops'], d, stats, seed)
                if found:
                    rep.violation('enum-%s' % common.sha(json.dumps(found['case'], default=str)),
                                  {'kind': 'property-violation-on-implementation', 'engine': 'query', 'source': 'whole-query correspondence',
                                   'ops': [' '.join(o) for o in found['ops']], 'case': found['case'], 'failure': strip(found['failure']),
                                   'correspondence': d})
                else:
                    rep.violation('enum-%s' % common.sha(json.dumps(d, default=str)),
                                  {'kind': 'correspondence-broken', 'engine': 'query',
                                   'what': 'model (coq/theories/Query/Enum.v + Filter.v: candidate enumeration + filter stages; theorems of '
                                           'Props/C13.v) and spydrnet/util/%s.py disagree on the result list' % d.get('function', 'get_*'),
                                   'ops': [' '.join(o) for o in res['ops']], 'enum_case': d}, found_input=False)
            by_sig = {}
            for f in res['fails']:
                by_sig.setdefault(f['signature'], []).append(f)
            for s, fs in by_sig.items():
                if s in known_by_sig:
                    seen_known[s] += len(fs)
                    stats['known:' + s] += len(fs)
                elif reported < 8:
                    reported += 1
                    stats['unknown:' + s] += len(fs)
                    report_oracle('net%d' % res['c'], res['ops'], fs[0])
                else:
                    stats['unknown:' + s] += len(fs)
                    n_oracle_fail += 1

    for k in known:
        sigs = k['signature'] if isinstance(k['signature'], list) else [k['signature']]
        n = sum(seen_known[s] for s in sigs)
        if n:
            rep.known_finding('%s: %s (%d cases this run)' % (k.get('id'), k.get('what'), n))

    wall = time.time() - t0
    theorems = proof['theorems']
    hist = dict(sorted((k, v) for k, v in stats.items()))
    coverage = {
        'obligations': len(theorems), 'discharged': len(theorems) if (built and proof['ok']) else 0,
        'checker_cmd': proof['cmd'] + '   (after the .vo of ' + ' '.join(COQ_CHAIN[:-1]) + ' are built; tools/build.sh does that)',
        'trusted_base': trusted_base(proof),
        'theorems': theorems,
        'print_assumptions': proof['assumptions'][-3000:],
        'programs': n_programs,
        'disagreements_checked': stats['match_evals'] + stats['absolute_evals'] + stats['escape_evals'] + stats['stage_evals'] + stats['enum_evals'],
        'evaluations': stats['calls'],
        'distinct_nontrivial': len(distinct),
        'rule': 'programs = patterns compared at matcher level + netlists + corpus files; a netlist is counted as distinct by the hash '
                'of its op history (all have > 20 ops); disagreements_checked = (pattern,value,flags) matcher comparisons + absolute-pattern '
                'comparisons + re.escape comparisons + stage-level query comparisons + whole-query comparisons (candidate enumeration + stages of the model '
                'vs the real function, every kind of root, results compared as multisets); evaluations = calls of '
                'the real query functions made by the oracle',
        'samples': samples or [{'note': 'no generated sample'}],
        'exhaustive': False, 'exhaustive_part': ('matcher level: every glob pattern of length <= %d over %r and every regex text of length <= %d over %r against every value '
                       'of length <= 2 over %r (quick: all patterns of length <= 2 and a sample of length 3)'
                       % (3, ''.join(qc.GLOB_ALPHABET), 3, ''.join(qc.RE_ALPHABET), ''.join(qc.VALUE_ALPHABET))) if tier != 'quick' else False,
        'generator_histogram': hist,
        'model_impl_disagreements': n_disagree, 'oracle_failures_not_known': n_oracle_fail,
        'known_findings_seen': dict(seen_known),
        'regex_patterns_outside_model_fragment': stats['regex_outside_fragment'],
    }
    common.write_evidence(PROP, tier, seed, coverage, wall, len(rep.violations), assumptions())
    print('%s %s: %d programs, %d model/impl comparisons, %d oracle query calls, %d disagreements, %d unknown oracle failures, '
          '%d known-finding cases, proof %s (%d theorems), %.1fs' % (
              PROP, tier, n_programs, coverage['disagreements_checked'], stats['calls'], n_disagree, n_oracle_fail,
              sum(seen_known.values()), 'ok' if (built and proof['ok']) else 'BROKEN', len(theorems), wall))
    return rep.exit_code()


def trusted_base(proof):
    return [
        'Coq 8.16.1 kernel (coqc); vm_compute only inside Example / witness lemmas; no native_compute',
        'Print Assumptions of every theorem in Props/C13.v: ' + ('Closed under the global context' if 'Axioms' not in proof['assumptions'] else 'see print_assumptions'),
        'extraction: ExtrOcamlBasic only; nat/N/positive extracted as inductives; no Extract Constant',
        'ocaml/driver_query.ml (parsing of request lines and op lines, closures for key/hname/lookup tables, memoisation of the state maps, printing)',
        'harness/query_corr.py (reads the candidate lists of a root off the netlist for the stage-level comparison; chooses the lookup mode '
        'scan / case-folding / none by policy and key), harness/query_oracle.py (own wildcard matcher, Python re as the definition of regex '
        'matching), harness/query_nets.py, harness/netgen.py, harness/ir_world.py',
        'the models (coq/theories/Query/*.v) are hand-written: tied to /repo only by the correspondence run reported in this file; the '
        'candidate enumeration of the 8 non-hierarchical get_* functions is modelled (Query/Enum.v) and compared with the real functions on '
        'every run (harness/query_enum.py: netlist rebuilt in the driver from its op history by the IR model, roots of every kind); the '
        'candidate enumeration of the 5 hierarchical get_h* functions is not modelled and is covered only by the metamorphic oracle',
        'CPython 3.12 fnmatch.translate / re semantics outside the compared samples',
    ]


def assumptions():
    return [
        'strings are ASCII; values under a key are str or absent (None = absent)',
        'regex patterns outside the modelled fragment (anchors, {m,n}, lazy/possessive quantifiers, (?..), \\d \\w ...) are not compared with the model; the oracle still uses Python re for them',
        'the empty string as a pattern is excluded from the filter theorems (hypothesis ~ In [] pats)',
        'lookups_ok / LookOK (what global_service.lookup answers = every child carrying the value, compared the way the namespace of the child '
        'compares it) is a hypothesis of the filter theorems; it is derived from C10\'s table invariant for the key .NAME '
        '(C13_lookup_hypothesis_for_names), holds outright for keys without a registered lookup and with the lookups deregistered '
        '(C13_lookup_hypothesis_for_scanned_keys) and under the DEFAULT policy, and for EDIF.identifier under the EDIF policy it is derived '
        'from C10\'s invariant plus PolCoh - the children of a parent with an EDIF table carry .NS = EDIF - which is proved for every '
        'state reached by editing calls (C13_policy_coherence_reachable, C13_lookup_hypothesis_reachable) and checked on the implementation '
        'on every run (policy-coherence check, lookup clause of the oracle)',
        'an exact pattern is compared per element: case-insensitively iff the key is EDIF.identifier and the element\'s .NS is EDIF (oracle: '
        'ci_exact(e); model: fold_of) - finding C13-K4 repaired',
        'the enumeration theorems assume the structural invariants QWF (C01/C02 invariants, well-kinded ids; hold in every state reached by '
        'editing calls: C13_reachable_states) and speak about runs that end within the fuel (WOk); that some fuel suffices is proved for '
        'get_netlists / get_ports / get_pins in every such state and for get_instances / get_definitions / get_libraries / get_cables / '
        'get_wires (every selection, ALL included) when the design hierarchy is acyclic (C13_get_*_terminates; the walks with visited sets '
        'by a finite-universe measure on the unmarked identifiers)',
        'get_cables / get_wires with selection ALL (cross-hierarchy closure): specified as the closure of wire_adj from the wires at the pins '
        'the root leads to and proved exact for one root of any kind (C13_get_wires_all, C13_get_cables_all, C13_get_cables_all_candidates); '
        'and for any collection of roots (C13_get_wires_all_roots, C13_get_cables_all_roots(_candidates)); compared with the '
        'implementation on every run',
        'the five hierarchical queries: the candidate enumeration is the hier engine\'s (C11/C12); here the filter law over the references found '
        '(C13_hier_filters_unfiltered), tied by the stage request H over roots of every kind and every selection, and by the oracle',
        'query sessions: every generated netlist is queried, then the values under the queried keys are edited in place (no element added or '
        'removed), then the same oracle cases and fresh correspondence cases are run again (the model side rebuilds the netlist from the '
        'extended history); a replay file of such a failure carries after_edits.n_pre and re-runs the first round before the edits',
        'get_libraries(instance, selection=OUTSIDE, recursive=True) ignored recursive; repaired in the code, the model follows and the '
        'enumeration theorem holds without exclusion (C13_get_libraries_full_holds; former witness corpus/query/w3-*.json, expect_result 1,12)',
    ]


# ------------------------------------------------------------------------------------------------
# replay

def replay_obj(obj, stats=None):
    """-> dict(fails=[oracle failures with signature], disagreements=[model/impl])"""
    stats = stats if stats is not None else collections.Counter()
    kind = obj.get('kind')
    out = dict(fails=[], disagreements=[])
    if kind == 'matcher' or 'matcher_case' in obj:
        m = obj.get('matcher_case', obj)
        line = 'M %s %s %s %s' % (qc.b(m['is_case']), qc.b(m['is_re']), qc.tok_of_s(m['pattern']), qc.otok(m.get('value')))
        model = qc.run_model([line])[0]
        impl = qc.impl_match(m.get('value'), m['pattern'], m['is_case'], m['is_re'])
        spec = 'T' if qo.match_spec(m.get('value'), m['pattern'], m['is_case'], m['is_re']) else 'F'
        stats['match_evals'] += 1
        if model != 'U' and model != impl:
            out['disagreements'].append(dict(level='match', impl=impl, model=model, **m))
        if impl != spec:
            out['fails'].append(dict(clause='filter', function='_value_matches_pattern', root_kind='-', pats=[m['pattern']],
                                     is_case=m['is_case'], is_re=m['is_re'], detail='implementation %s, specification %s' % (impl, spec),
                                     signature='unclassified|matcher|%s' % m['pattern']))
        if 'expect_match' in obj and (impl == 'T') != bool(obj['expect_match']):
            out['fails'].append(dict(clause='filter', function='_value_matches_pattern', root_kind='-', pats=[m['pattern']],
                                     detail='regression: expected %s' % obj['expect_match'], signature='unclassified|matcher-regression'))
        return out
    ops = [o.split(' ') for o in obj.get('ops', [])]
    if 'stage_case' in obj or kind == 'stage':
        d = obj.get('stage_case', obj.get('case'))
        w = query_nets.rebuild(ops)
        try:
            roots = [qo.resolve_root(w, t) for t in d['roots']]
            if d['function'] in qc.PARENT_KIND:
                line, impl, _, _ = qc.stage_request(w, d['function'], roots, d['key'], d['pats'], d['is_case'], d['is_re'],
                                                    d.get('registered', True), d.get('policy', 'DEFAULT'))
                model = qc.norm_ids(qc.run_model([line])[0])
                stats['stage_evals'] += 1
                if model != impl:
                    out['disagreements'].append(dict(level='stage', impl=impl, model=model, request=line))
                if 'expect_result' in obj and impl != obj['expect_result']:
                    out['disagreements'].append(dict(level='stage', impl=impl, expected=obj['expect_result']))
        finally:
            w.close()
        return out
    if 'enum_case' in obj or kind == 'enum':
        d = obj.get('enum_case', obj.get('case'))
        w = query_nets.rebuild(ops)
        try:
            impl, model = qe.replay_case(w, ops, d)
            stats['enum_evals'] += 1
            if impl != model:
                out['disagreements'].append(dict(level='enum', impl=impl, model=model, request=d.get('request')))
            if 'expect_result' in obj and impl != obj['expect_result']:
                out['disagreements'].append(dict(level='enum', impl=impl, expected=obj['expect_result'],
                                                 note='the implementation no longer shows the recorded behaviour of this witness'))
        finally:
            w.close()
        return out
    if 'case' in obj:
        out['fails'] = replay_oracle(ops, obj['case'], stats)
    return out


def replay_file(path):
    obj = json.load(open(path))
    out = replay_obj(obj)
    known = dict()
    for k in load_findings():
        if k.get('status') == 'open':
            for s in (k['signature'] if isinstance(k['signature'], list) else [k['signature']]):
                known[s] = k
    print(json.dumps({'oracle_failures': [strip(f) for f in out['fails']], 'disagreements': out['disagreements']}, indent=1, default=str))
    bad = [f for f in out['fails'] if f['signature'] not in known] or out['disagreements']
    for f in out['fails']:
        if f['signature'] in known:
            print('KNOWN-FINDING: property=%s %s: %s' % (PROP, known[f['signature']].get('id'), known[f['signature']].get('what')))
    if bad:
        print('VIOLATION property=%s replay=%s' % (PROP, path))
        return 1
    return 0


if __name__ == '__main__':
    tier = 'quick'
    rp = None
    a = sys.argv[1:]
    if '--tier' in a:
        tier = a[a.index('--tier') + 1]
    if '--replay' in a:
        rp = a[a.index('--replay') + 1]
    sys.exit(run(PROP, tier, common.seed_default(), rp))
