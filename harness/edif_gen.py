"""Generators of the `edif` engine.

1. C03: `gen_netlist_spec(rng, risky)` -> JSON-able *spec* of a hierarchical netlist;
   `build_netlist(spec)` builds it on the real spydrnet through the public API. The spec is what
   replay files store and what the shrinker edits.
2. C05: `gen_design(rng, risky)` -> abstract *design* at document level (identifiers, renames,
   per-bit nets in file order, case variations, comments); `render(design, rng)` is the
   INDEPENDENT writer (it shares no code with spydrnet's composer); `expected(design)` is the
   structure the text declares, in the shape of edif_canon.canon(identifiers=True).

`risky` selects at most one feature class that is known or suspected to break the property, so
that an unknown failure is never hidden behind a known one."""
import re
import json
import math
import random
import struct

# ------------------------------------------------------------------------------------------------
# C03: netlist specs
# ------------------------------------------------------------------------------------------------
# nonalpha_bus_name (K4, except names starting with a backslash: K9) and glob_name (K7) are repaired: they must round-trip
RISKY_C03 = ['nonalpha_bus_name', 'bitlike_scalar_name', 'glob_name']
# shapes that used to break the round trip (C03-K1, K2, K3, K6: repaired in the writer / reader) and are now
# part of the ordinary generation: any number of them in one netlist, together with a risky feature or not
SHAPES_C03 = ['undefined_direction', 'one_pin_array_port', 'float_property', 'quote_in_string_property']
FLOATS = [1000.0, 0.5, 2.5e-9, 0.1, 0.3, -123.456, 1e22, 1e23, 1.0 / 3, 5e-324, 1.7976931348623157e308, 0.0, -2.5,
          6.02214076e23, 1e-7, 123456789.125]
QUOTED = ['say "hi"', '"', '""', 'a"b"c', '100%', '%34%', '%%', '% 34 %', 'x%34 37%y', '"%"', '%"%', "8'h\"", '%37%34%']

PLAIN_NAMES = ['a', 'b', 'clk', 'data', 'q', 'sel', 'x1', 'y_2', 'Net', 'w']
ODD_NAMES = ['a.b', 'n$1', 'my net', 'x/y', 'sig<3>', 'p:q', 'UPPER', 'MiXed', 'a-b', 'v(1)', 'e=mc2', '3d', '_lead',
             'tail_', 'with[br', 'q]']


def _uniq(rng, used, pool_plain, odd_rate, prefix):
    """a fresh name; case-insensitively distinct from the ones used so far in this scope"""
    # a "twin" of an earlier odd name: same letters and case, other punctuation, so that both sanitise to
    # the same EDIF identifier and the composer's rename bookkeeping has to tell them apart
    twins = [t for t in used if isinstance(t, tuple)]
    if twins and rng.random() < 0.5:
        t = rng.choice(sorted(twins))
        used.discard(t)
        if t[1].lower() not in used:
            used.add(t[1].lower())
            return t[1]
    for _ in range(50):
        if rng.random() < odd_rate:
            n = rng.choice(ODD_NAMES)
        else:
            n = rng.choice(pool_plain)
        if rng.random() < 0.6:
            n = '%s%d' % (n, rng.randint(0, 30))
        if n.lower() not in used and n != '':
            used.add(n.lower())
            if odd_rate > 0 and re.search(r'[^A-Za-z0-9_]', n) and rng.random() < 0.5:
                tw = re.sub(r'[^A-Za-z0-9_]', lambda m: rng.choice([c for c in '.$/:-=' if c != m.group(0)]), n)
                tw = tw[:1].upper() + tw[1:] if rng.random() < 0.5 else tw
                used.add(('twin', tw))
            return n
    k = len([u for u in used if not isinstance(u, tuple)])
    n = '%s_%d' % (prefix, k)
    used.add(n.lower())
    return n


def _props(rng, risky):
    out = []
    used = set()
    for _ in range(rng.choice([0, 0, 1, 2, 3])):
        ident = _uniq(rng, used, ['INIT', 'LOC', 'width', 'KEEP', 'attr'], 0.0, 'P')
        kind = rng.choice(['str', 'int', 'bool'])
        if kind == 'str':
            v = rng.choice(['', "1'h2", 'a b c', 'SLICE_X0Y0', '64\'hDEADBEEF', 'TRUE', '(x)', 'back\\slash', '%'])
        elif kind == 'int':
            v = rng.choice([0, 1, -7, 42, 2 ** 40, 4294967296 * 4294967296])
        else:
            v = rng.random() < 0.5
        p = {'identifier': ident, 'value': v}
        if rng.random() < 0.3:
            p['original_identifier'] = ident + rng.choice([' x', '.y', '[0]'])
        out.append(p)
    return out


def gen_netlist_spec(rng, risky=None, depth=None, size=1.0):
    """Random hierarchical netlist inside C03's quantifier (plus the one `risky` feature).
    Libraries get a rank; a cell only references cells of libraries of lower-or-equal rank (so
    library dependencies are acyclic) and, inside its own library, cells created earlier.
    Declaration order of libraries and of cells inside a library is then shuffled."""
    depth = depth if depth is not None else rng.randint(1, 4)
    odd = rng.choice([0.0, 0.0, 0.2, 0.5])
    nlibs = rng.choice([1, 2, 2, 3])
    lib_used = set()
    libs = [{'name': _uniq(rng, lib_used, ['work', 'prims', 'hdi_primitives', 'lib'], odd, 'L'), 'cells': []}
            for _ in range(nlibs)]
    cell_used = [set() for _ in libs]
    all_cells = []  # (lib index, cell spec) in creation (= dependency) order

    def new_port(used, leaf):
        width = rng.choice([1, 1, 1, 2, 3, 4, 8])
        p = {'name': _uniq(rng, used, PLAIN_NAMES, odd, 'p'), 'width': width,
             'direction': rng.choice(['in', 'out', 'inout']), 'array': width > 1, 'lower': 0, 'downto': True}
        if width > 1:
            p['lower'] = rng.choice([0, 0, 1, 4, 15])
            p['downto'] = rng.random() < 0.7
        return p

    def new_cell(li, layer):
        used_p = set()
        c = {'name': _uniq(rng, cell_used[li], ['LUT2', 'FDRE', 'adder', 'core', 'top', 'IBUF', 'mux'], odd, 'C'),
             'ports': [], 'instances': [], 'nets': []}
        for _ in range(rng.randint(0 if layer > 0 else 1, max(1, int(3 * size)))):
            c['ports'].append(new_port(used_p, layer == 0))
        return c

    for layer in range(depth + 1):
        count = rng.randint(1, max(1, int(3 * size))) if layer < depth else 1
        for _ in range(count):
            li = rng.randrange(nlibs)
            c = new_cell(li, layer)
            if layer > 0:
                cands = [(lj, d) for (lj, d) in all_cells if lj <= li]
                used_i, used_n = set(), set()
                for _ in range(rng.randint(0 if rng.random() < 0.15 else 1, max(1, int(4 * size)))):
                    if not cands:
                        break
                    lj, d = rng.choice(cands[-6:] if rng.random() < 0.6 else cands)
                    c['instances'].append({'name': _uniq(rng, used_i, ['u', 'inst', 'reg', 'U_x'], odd, 'u'),
                                           'lib': libs[lj]['name'], 'cell': d['name'], 'properties': _props(rng, risky)})
                # endpoints
                inner = [['port', p['name'], i] for p in c['ports'] for i in range(p['width'])]
                outer = []
                cellmap = {(libs[lj]['name'], d['name']): d for lj, d in all_cells}
                for x in c['instances']:
                    d = cellmap[(x['lib'], x['cell'])]
                    outer += [['inst', x['name'], p['name'], i] for p in d['ports'] for i in range(p['width'])]
                rng.shuffle(inner)
                rng.shuffle(outer)
                for _ in range(rng.randint(0 if rng.random() < 0.1 else 1, max(1, int(5 * size)))):
                    width = rng.choice([1, 1, 1, 2, 3, 5])
                    n = {'name': _uniq(rng, used_n, PLAIN_NAMES, odd, 'n'), 'width': width, 'lower': 0, 'array': width > 1,
                         'bits': []}
                    if width > 1:
                        n['lower'] = rng.choice([0, 0, 2, 7, 100])
                    elif rng.random() < 0.1:
                        n['array'] = True              # one-wire array cable (expressible: written per bit)
                        n['lower'] = rng.choice([0, 3])
                    for _b in range(width):
                        pins = []
                        r = rng.random()
                        k_in = 2 if (r < 0.1 and len(inner) >= 2) else (1 if (r < 0.5 and inner) else 0)
                        for _k in range(k_in):
                            pins.append(inner.pop())
                        for _k in range(rng.randint(0, 3)):
                            if outer and rng.random() < 0.8:
                                pins.append(outer.pop())
                        rng.shuffle(pins)
                        n['bits'].append(pins)
                    c['nets'].append(n)
            libs[li]['cells'].append(c)
            all_cells.append((li, c))
    top_li, top_cell = all_cells[-1]
    spec = {'name': rng.choice(['design', 'top_netlist', 'n']), 'libraries': libs,
            'top': {'name': rng.choice(['top', 'top_inst', 'TOP']), 'lib': libs[top_li]['name'], 'cell': top_cell['name']}}
    # declaration order: any
    order = list(range(nlibs))
    rng.shuffle(order)
    spec['libraries'] = [libs[i] for i in order]
    for L in spec['libraries']:
        rng.shuffle(L['cells'])
    spec['libraries'] = [L for L in spec['libraries'] if L['cells'] or rng.random() < 0.5]
    if risky:
        apply_risky_c03(spec, rng, risky)
    spec['risky'] = risky
    apply_shapes_c03(spec, random.Random(rng.getrandbits(64)))
    return spec


def _all_cells(spec):
    return [c for L in spec['libraries'] for c in L['cells']]


def _some_float(rng):
    if rng.random() < 0.6:
        return rng.choice(FLOATS)
    while True:
        v = struct.unpack('d', struct.pack('Q', rng.getrandbits(64)))[0]
        if math.isfinite(v) and v != 0.0:
            return v


def apply_shapes_c03(spec, rng):
    """undefined port directions, one-pin array ports, float properties, string properties with double
    quotes and percent signs: in about half of the netlists, each with its own rate"""
    if rng.random() < 0.45:
        return
    cells = _all_cells(spec)
    rate = {k: rng.choice([0.0, 0.1, 0.3]) for k in SHAPES_C03}
    rate['float_property'] = rng.choice([0.0, 0.0, 0.05, 0.2])      # floats are outside the whole-file model: keep most texts comparable
    for c in cells:
        for p in c['ports']:
            if rng.random() < rate['undefined_direction']:
                p['direction'] = 'undefined'
            if p['width'] == 1 and rng.random() < rate['one_pin_array_port']:
                p['array'] = True
                p['lower'] = rng.choice([0, 5])
        for x in c['instances']:
            if rng.random() < rate['float_property']:
                x['properties'].append({'identifier': 'DELAY', 'value': {'float': _some_float(rng)}})
            if rng.random() < rate['quote_in_string_property']:
                x['properties'].append({'identifier': 'MSG', 'value': rng.choice(QUOTED)})


def apply_risky_c03(spec, rng, risky):
    cells = _all_cells(spec)
    ports = [p for c in cells for p in c['ports']]
    insts = [x for c in cells for x in c['instances']]
    nets = [n for c in cells for n in c['nets']]
    if risky == 'nonalpha_bus_name':
        bus = [n for n in nets if n['width'] > 1 or n['array']]
        if bus:
            n = rng.choice(bus)
            n['name'] = rng.choice(['_', '$', '1', '\\', '.']) + n['name']
    elif risky == 'bitlike_scalar_name':
        sc = [n for n in nets if n['width'] == 1 and not n['array']]
        if sc:
            n = rng.choice(sc)
            n['name'] = n['name'] + '[%d]' % rng.choice([0, 1, 7])
    elif risky == 'glob_name':
        for c in cells:
            bus = [n for n in c['nets'] if n['width'] > 1]
            if len(c['nets']) >= 2 and bus:
                n = rng.choice(bus)
                other = rng.choice([m for m in c['nets'] if m is not n])
                other['name'] = n['name'][:1] + rng.choice(['*', '?' * max(1, len(n['name']) - 1)])
                if other['width'] == 1 and not other['array'] and rng.random() < 0.7:
                    other['width'] = 2
                    other['array'] = True
                    other['bits'].append([])
                # the pattern-named net must come after the net it can capture
                c['nets'].remove(other)
                c['nets'].append(other)
                break


def build_netlist(spec):
    """Build the spec on the real implementation through the public API (DEFAULT naming policy)."""
    import spydrnet as sdn
    DIR = {'in': sdn.IN, 'out': sdn.OUT, 'inout': sdn.INOUT, 'undefined': sdn.UNDEFINED}
    n = sdn.Netlist(name=spec['name'])
    cellobj = {}
    for L in spec['libraries']:
        lib = n.create_library(name=L['name'])
        for c in L['cells']:
            d = lib.create_definition(name=c['name'])
            cellobj[(L['name'], c['name'])] = d
            for p in c['ports']:
                port = d.create_port(name=p['name'], direction=DIR[p['direction']])
                port.create_pins(p['width'])
                if p['width'] == 1 and p.get('array'):
                    port.is_array = True
                port.lower_index = p.get('lower', 0)
                port.is_downto = p.get('downto', True)
    for L in spec['libraries']:
        for c in L['cells']:
            d = cellobj[(L['name'], c['name'])]
            imap = {}
            for x in c['instances']:
                inst = d.create_child(name=x['name'], reference=cellobj[(x['lib'], x['cell'])])
                imap[x['name']] = inst
                if x.get('properties'):
                    inst['EDIF.properties'] = [dict(p, value=(p['value']['float'] if isinstance(p['value'], dict) else p['value']))
                                               for p in x['properties']]
            pmap = {p.name: p for p in d.ports}
            for nt in c['nets']:
                cable = d.create_cable(name=nt['name'])
                if nt.get('ident'):
                    cable['EDIF.identifier'] = nt['ident']      # identifier preset by the user
                    if nt['ident'] != nt['name']:
                        cable['EDIF.rename'] = True
                cable.create_wires(nt['width'])
                if nt['width'] == 1 and nt.get('array'):
                    cable.is_array = True
                cable.lower_index = nt.get('lower', 0)
                for w, pins in zip(cable.wires, nt['bits']):
                    for ref in pins:
                        if ref[0] == 'port':
                            w.connect_pin(pmap[ref[1]].pins[ref[2]])
                        else:
                            inst = imap[ref[1]]
                            rp = next(p for p in inst.reference.ports if p.name == ref[2])
                            w.connect_pin(inst.pins[rp.pins[ref[3]]])
    top = sdn.Instance(name=spec['top']['name'])
    top.reference = cellobj[(spec['top']['lib'], spec['top']['cell'])]
    n.top_instance = top
    return n


def spec_shapes(spec):
    """which of the SHAPES_C03 a spec contains"""
    f = set()
    for c in _all_cells(spec):
        for p in c['ports']:
            if p['direction'] == 'undefined':
                f.add('undefined_direction')
            if p['width'] == 1 and p.get('array'):
                f.add('one_pin_array_port')
        for x in c['instances']:
            for pr in x.get('properties', []):
                if isinstance(pr['value'], dict):
                    f.add('float_property')
                if isinstance(pr['value'], str) and ('"' in pr['value'] or '%' in pr['value']):
                    f.add('quote_in_string_property')
    return f


def spec_features(spec):
    """which risky features a spec actually contains (computed from the spec, not from the flag)"""
    f = set()
    for c in _all_cells(spec):
        for n in c['nets']:
            bus = n['width'] > 1 or n.get('array')
            if bus and n['name'] and not n['name'][0].isalpha():
                f.add('nonalpha_bus_name')
            if n['name'].endswith(']') and '[' in n['name']:
                f.add('bitlike_name')
            if '*' in n['name'] or '?' in n['name']:
                f.add('glob_name')
    return f


def shrink_spec(spec, still_fails, budget=150):
    """Greedy structural shrinking: drop nets, instances (and the pin references to them), ports
    (and references), cells that are not referenced, properties; keep the failure."""
    cur = json.loads(json.dumps(spec))
    tries = 0
    changed = True
    while changed and tries < budget:
        changed = False
        for cand in _shrink_candidates(cur):
            tries += 1
            if tries > budget:
                break
            try:
                ok = still_fails(cand)
            except Exception:
                ok = False
            if ok:
                cur = cand
                changed = True
                break
    return cur


def _shrink_candidates(spec):
    def clone():
        return json.loads(json.dumps(spec))
    # drop nets
    for li, L in enumerate(spec['libraries']):
        for ci, c in enumerate(L['cells']):
            for ni in range(len(c['nets'])):
                s = clone()
                del s['libraries'][li]['cells'][ci]['nets'][ni]
                yield s
    # drop instances
    for li, L in enumerate(spec['libraries']):
        for ci, c in enumerate(L['cells']):
            for xi, x in enumerate(c['instances']):
                s = clone()
                cc = s['libraries'][li]['cells'][ci]
                del cc['instances'][xi]
                for n in cc['nets']:
                    n['bits'] = [[r for r in b if not (r[0] == 'inst' and r[1] == x['name'])] for b in n['bits']]
                yield s
    # drop unreferenced cells (not the top)
    refd = set((x['lib'], x['cell']) for c in _all_cells(spec) for x in c['instances'])
    refd.add((spec['top']['lib'], spec['top']['cell']))
    for li, L in enumerate(spec['libraries']):
        for ci, c in enumerate(L['cells']):
            if (L['name'], c['name']) not in refd:
                s = clone()
                del s['libraries'][li]['cells'][ci]
                yield s
    # drop empty libraries
    for li, L in enumerate(spec['libraries']):
        if not L['cells']:
            s = clone()
            del s['libraries'][li]
            yield s
    # drop ports that nothing references
    for li, L in enumerate(spec['libraries']):
        for ci, c in enumerate(L['cells']):
            for pi, p in enumerate(c['ports']):
                used = any(r[0] == 'port' and r[1] == p['name'] for n in c['nets'] for b in n['bits'] for r in b)
                used = used or any(r[0] == 'inst' and r[2] == p['name'] and
                                   any(x['name'] == r[1] and x['lib'] == L['name'] and x['cell'] == c['name'] for x in c2['instances'])
                                   for c2 in _all_cells(spec) for n in c2['nets'] for b in n['bits'] for r in b)
                if not used:
                    s = clone()
                    del s['libraries'][li]['cells'][ci]['ports'][pi]
                    yield s
    # drop properties, pins
    for li, L in enumerate(spec['libraries']):
        for ci, c in enumerate(L['cells']):
            for xi, x in enumerate(c['instances']):
                for pi in range(len(x.get('properties', []))):
                    s = clone()
                    del s['libraries'][li]['cells'][ci]['instances'][xi]['properties'][pi]
                    yield s
            for ni, n in enumerate(c['nets']):
                for bi, b in enumerate(n['bits']):
                    for ri in range(len(b)):
                        s = clone()
                        del s['libraries'][li]['cells'][ci]['nets'][ni]['bits'][bi][ri]
                        yield s


# ------------------------------------------------------------------------------------------------
# C05: abstract designs, independent writer, expected structure
# ------------------------------------------------------------------------------------------------
# glob_net_name (K7), amp_bus_ident (K4) and duplicate_bit (K11) are repaired: no open entry excuses them any more,
# the texts must be read as written (they stay in this list so that every run produces them deliberately)
RISKY_C05 = ['design_undeclared', 'glob_net_name', 'amp_bus_ident', 'duplicate_bit', 'escaped_bus_name',
             'bare_instance', 'array_size_zero', 'second_design', 'missing_parens', 'trailing_tokens']
# texts of these kinds must be refused by the reader
REJECT_C05 = ('design_undeclared', 'bare_instance', 'array_size_zero', 'second_design', 'missing_parens', 'trailing_tokens')

IDENT_POOL = ['a', 'b', 'clk', 'rst', 'din', 'dout', 'q', 'sel', 'U', 'net', 'Sig', 'x1', 'n_2', 'CE', 'lut']


def _ident(rng, used, prefix='i'):
    for _ in range(60):
        s = rng.choice(IDENT_POOL)
        r = rng.random()
        if r < 0.5:
            s += str(rng.randint(0, 40))
        elif r < 0.6:
            s = '&' + rng.choice(['1', '9x']) + s          # identifiers may start with & + non-letter
        elif r < 0.7:
            s += '_' + rng.choice(['x', 'y', 'reg'])
        if s.lower() not in used:
            used.add(s.lower())
            return s
    s = '%s%d' % (prefix, len(used))
    used.add(s.lower())
    return s


def _vary(rng, s, rate):
    """case variation of an identifier / keyword"""
    if rng.random() >= rate:
        return s
    r = rng.random()
    if r < 0.35:
        return s.upper()
    if r < 0.7:
        return s.lower()
    return ''.join(ch.upper() if rng.random() < 0.5 else ch.lower() for ch in s)


ORIG_DECOR = ['%s', '%s.x', '\\%s ', '%s<1>', '%s/y', '%s$', 'my %s', '%s(2)', 'X_%s', '%s-z']


def _named(rng, used, rename_rate, prefix='i'):
    """{'ident':..., 'orig': None | str}; orig never collides (case-insensitively) with an identifier"""
    ident = _ident(rng, used, prefix)
    orig = None
    if rng.random() < rename_rate:
        base = ident.lstrip('&')
        for _ in range(20):
            o = rng.choice(ORIG_DECOR) % base
            if o.lower() not in used and o != ident:
                used.add(o.lower())
                orig = o
                break
    return {'ident': ident, 'orig': orig}


def _dprops(rng):
    out = []
    used = set()
    for _ in range(rng.choice([0, 0, 1, 2, 3])):
        nm = _named(rng, used, 0.25, 'P')
        kind = rng.choice(['string', 'integer', 'boolean'])
        if kind == 'string':
            v = rng.choice(['', "8'hA5", 'SLICE_X1Y2', 'two words', '(paren)', 'semi;colon', 'per%cent', "it's", '100%', '% 5'])
            if rng.random() < 0.25:
                # escapes inside a string value: %n n ..% stands for the characters with these codes; `text`
                # is what the file holds, `value` what it means
                text, v = rng.choice([('say %34%hi%34%', 'say "hi"'), ('100%37%', '100%'), ('%34 37%', '"%'), ('a% 65  66 %b', 'aABb'),
                                      ('%37%34%37%', '%34%'), ('x%34%', 'x"'), ('%9%tab', '\ttab')])
                out.append(dict(nm, kind=kind, value=v, text=text))
                continue
        elif kind == 'integer':
            v = rng.choice([0, 1, -12, 255, 2 ** 35, -2 ** 70])
        else:
            v = rng.random() < 0.5
        out.append(dict(nm, kind=kind, value=v))
    return out


def gen_design(rng, risky=None, size=1.0):
    """Abstract EDIF design. File order is significant and kept: libraries, cells (declared before
    use), ports, instances, nets (one entry per written net; bus bits carry bus/bit)."""
    case = rng.choice([0.0, 0.3, 0.8])          # how often a reference is written in another case
    rename = rng.choice([0.0, 0.3, 0.7])
    nlibs = rng.choice([1, 2, 3])
    lib_used = set()
    libs = []
    for _ in range(nlibs):
        L = _named(rng, lib_used, rename * 0.5, 'L')
        L['cells'] = []
        libs.append(L)
    cell_used = [set() for _ in libs]
    declared = []  # (li, cell)
    ncells = rng.randint(1, max(2, int(7 * size)))
    # cells are created in file order: a cell of library li can only be written while li is being
    # written, so libraries are filled one after the other
    per_lib = [0] * nlibs
    for _ in range(ncells):
        per_lib[rng.randrange(nlibs)] += 1
    for li in range(nlibs):
        for _k in range(per_lib[li]):
            c = _named(rng, cell_used[li], rename, 'C')
            c['view'] = rng.choice(['netlist', 'netlist', 'NETLIST', 'view_1', 'INTERFACE'.lower()])
            c['ports'], c['instances'], c['nets'], c['comments'] = [], [], [], []
            used_p = set()
            for _p in range(rng.randint(0 if declared else 1, max(1, int(4 * size)))):
                p = _named(rng, used_p, rename, 'p')
                p['width'] = rng.choice([1, 1, 1, 2, 3, 4, 16])
                p['array'] = p['width'] > 1 or rng.random() < 0.08
                p['direction'] = rng.choice(['in', 'out', 'inout'])
                p['lower_from_name'] = None
                if p['array'] and rng.random() < 0.4:
                    lo = rng.choice([0, 0, 1, 8])
                    hi = lo + p['width'] - 1
                    a, b = (hi, lo) if rng.random() < 0.7 else (lo, hi)
                    o = '%s[%d:%d]' % (p['ident'].lstrip('&'), a, b)
                    if o.lower() not in used_p:
                        used_p.add(o.lower())
                        p['orig'] = o
                        p['lower_from_name'] = lo
                c['ports'].append(p)
            used_i, used_n = set(), set()
            if declared:
                for _x in range(rng.randint(0 if rng.random() < 0.2 else 1, max(1, int(4 * size)))):
                    lj, d = rng.choice(declared)
                    x = _named(rng, used_i, rename, 'u')
                    x.update({'lib': lj, 'cell': d['ident'], 'cell_written': _vary(rng, d['ident'], case),
                              'view_written': _vary(rng, d['view'], case),
                              'libref': (lj != li) or rng.random() < 0.6,
                              'lib_written': _vary(rng, libs[lj]['ident'], case), 'properties': _dprops(rng),
                              '_cell': d})
                    c['instances'].append(x)
            inner = [('port', p['ident'], i, p) for p in c['ports'] for i in range(p['width'])]
            outer = [('inst', x['ident'], p['ident'], i, p) for x in c['instances'] for p in x['_cell']['ports'] for i in range(p['width'])]
            rng.shuffle(inner)
            rng.shuffle(outer)

            def take_pins():
                pins = []
                r = rng.random()
                k_in = 2 if (r < 0.1 and len(inner) >= 2) else (1 if (r < 0.5 and inner) else 0)
                for _k in range(k_in):
                    pins.append(inner.pop())
                for _k in range(rng.randint(0, 3)):
                    if outer and rng.random() < 0.8:
                        pins.append(outer.pop())
                rng.shuffle(pins)
                out = []
                for pin in pins:
                    p = pin[-1]
                    ref = {'kind': pin[0], 'port': pin[1] if pin[0] == 'port' else pin[2],
                           'port_written': _vary(rng, pin[1] if pin[0] == 'port' else pin[2], case),
                           'index': pin[2] if pin[0] == 'port' else pin[3], 'member': bool(p['array']),
                           'inst': None if pin[0] == 'port' else pin[1],
                           'inst_written': None if pin[0] == 'port' else _vary(rng, pin[1], case)}
                    out.append(ref)
                return out
            written = []
            nnets = rng.randint(0 if rng.random() < 0.15 else 1, max(1, int(5 * size))) if (c['ports'] or c['instances']) else 0
            for _n in range(nnets):
                if rng.random() < 0.45:
                    # a bus: any subset of its bits, any order
                    b = _named(rng, used_n, 0.0, 'b')
                    bname = b['ident'].lstrip('&') if rng.random() < 0.7 else rng.choice(['%s.d', 'bus %s', '%s/q']) % b['ident'].lstrip('&')
                    if bname.lower() in used_n and bname != b['ident']:
                        bname = b['ident'].lstrip('&')
                    used_n.add(bname.lower())
                    lo = rng.choice([0, 0, 1, 5, 31])
                    width = rng.choice([1, 2, 3, 4, 8])
                    idxs = [lo + k for k in range(width)]
                    keep = [i for i in idxs if rng.random() < 0.8] or [idxs[0]]
                    rng.shuffle(keep)
                    for i in keep:
                        written.append({'ident': '%s_%d_' % (b['ident'], i), 'orig': '%s[%d]' % (bname, i),
                                        'bus': {'ident': b['ident'], 'name': bname, 'bit': i}, 'pins': take_pins(),
                                        'properties': _dprops(rng) if rng.random() < 0.2 else []})
                else:
                    s = _named(rng, used_n, rename, 'n')
                    written.append({'ident': s['ident'], 'orig': s['orig'], 'bus': None, 'pins': take_pins(),
                                    'properties': _dprops(rng) if rng.random() < 0.2 else []})
            # interleave the bits of different buses and the scalars: any file order
            if rng.random() < 0.7:
                rng.shuffle(written)
            c['nets'] = written
            if rng.random() < 0.3:
                c['comments'].append(rng.choice(['a comment', 'generated', 'x (y) z']))
            libs[li]['cells'].append(c)
            declared.append((li, c))
    top_li, top = declared[-1]
    if rng.random() < 0.4:
        top_li, top = rng.choice(declared)          # any declared cell can be the design's cell
    design = {'name': _named(rng, set(), rename, 'D'), 'libraries': libs, 'case': case,
              'design': dict(_named(rng, set(), rename, 'T'), lib=top_li, cell=top['ident'],
                             cell_written=_vary(rng, top['ident'], case), lib_written=_vary(rng, libs[top_li]['ident'], case)),
              'expect': 'accept',
              'status': rng.random() < 0.5, 'risky': risky}
    # the design construct stands anywhere after the library of its cell (libraries may follow it) and
    # may carry properties / comments of its own (the reader does not keep them)
    design['design']['after_lib'] = rng.randint(top_li, nlibs - 1) if rng.random() < 0.6 else nlibs - 1
    design['design']['extras'] = rng.choice([[], [], ['property'], ['property', 'comment', 'property'], ['comment']])
    if risky:
        apply_risky_c05(design, rng, risky)
    return design


def apply_risky_c05(design, rng, risky):
    cells = [c for L in design['libraries'] for c in L['cells']]
    if risky in REJECT_C05:
        design['expect'] = 'reject'
    if risky == 'design_undeclared':
        # the design construct names a cell / library that is not declared: must be rejected
        if rng.random() < 0.5:
            design['design']['cell_written'] = 'nosuchcell'
        else:
            design['design']['lib_written'] = 'nosuchlib'
    elif risky == 'bare_instance':
        # an instance without viewRef (falls back to a second design construct when there is no instance)
        xs = [x for c in cells for x in c['instances']]
        if xs:
            rng.choice(xs)['bare'] = True
        else:
            design['damage'] = 'second_design'
    elif risky == 'array_size_zero':
        ps = [p for c in cells for p in c['ports']]
        if ps:
            rng.choice(ps)['size_written'] = rng.choice(['0', '0', '-1', '-3'])
        else:
            design['damage'] = 'second_design'
    elif risky in ('second_design', 'missing_parens', 'trailing_tokens'):
        design['damage'] = risky
    elif risky == 'glob_net_name':
        for c in cells:
            buses = sorted(set(n['bus']['name'] for n in c['nets'] if n['bus']))
            if buses:
                victim = buses[0]
                pat = victim[:1] + '*'
                c['nets'].append({'ident': 'glob_0_', 'orig': '%s[0]' % pat, 'bus': {'ident': 'glob', 'name': pat, 'bit': 0},
                                  'pins': [], 'properties': []})
                break
    elif risky == 'amp_bus_ident':
        for c in cells:
            bus = [n for n in c['nets'] if n['bus']]
            if bus:
                bi = bus[0]['bus']['ident']
                for n in bus:
                    if n['bus']['ident'] == bi:
                        n['bus'] = dict(n['bus'], ident='&_' + bi.lstrip('&'))
                        n['ident'] = '%s_%d_' % (n['bus']['ident'], n['bus']['bit'])
                break
    elif risky == 'duplicate_bit':
        # a second net for a bit that is already there (its pins belong to the same bit)
        for c in cells:
            bus = [n for n in c['nets'] if n['bus']]
            if bus:
                n = bus[0]
                c['nets'].append({'ident': n['ident'], 'orig': n['orig'], 'bus': dict(n['bus']), 'pins': [], 'properties': []})
                break
    elif risky == 'escaped_bus_name':
        for c in cells:
            bus = [n for n in c['nets'] if n['bus']]
            if bus:
                bi = bus[0]['bus']['ident']
                newname = '\\' + bus[0]['bus']['name']
                for n in bus:
                    if n['bus']['ident'] == bi:
                        n['bus'] = dict(n['bus'], name=newname)
                        n['orig'] = '%s[%d]' % (newname, n['bus']['bit'])
                break


# ---- independent writer -----------------------------------------------------------------------
KW_CASE = {'edif': ['edif', 'EDIF'], 'library': ['library', 'Library', 'LIBRARY'], 'cell': ['cell', 'Cell', 'CELL'],
           'view': ['view', 'View'], 'interface': ['interface', 'Interface'], 'port': ['port', 'Port', 'PORT'],
           'contents': ['contents', 'Contents'], 'instance': ['instance', 'Instance', 'INSTANCE'],
           'net': ['net', 'Net', 'NET'], 'joined': ['joined', 'Joined'], 'portRef': ['portRef', 'portref', 'PORTREF'],
           'instanceRef': ['instanceRef', 'instanceref', 'InstanceRef'], 'viewRef': ['viewRef', 'viewref'],
           'cellRef': ['cellRef', 'cellref', 'CELLREF'], 'libraryRef': ['libraryRef', 'libraryref'],
           'member': ['member', 'Member'], 'array': ['array', 'Array'], 'rename': ['rename', 'Rename', 'RENAME'],
           'property': ['property', 'Property'], 'direction': ['direction', 'Direction'],
           'design': ['design', 'Design'], 'comment': ['comment', 'Comment']}
DIR_KW = {'in': ['INPUT', 'input', 'Input'], 'out': ['OUTPUT', 'output'], 'inout': ['INOUT', 'inout', 'InOut']}


class _W:
    def __init__(self, rng):
        self.rng = rng
        self.out = []

    def kw(self, k):
        return self.rng.choice(KW_CASE.get(k, [k]))

    def ws(self):
        r = self.rng.random()
        if r < 0.6:
            return ' '
        if r < 0.8:
            return '\n' + ' ' * self.rng.randint(0, 8)
        if r < 0.9:
            return '  '
        return '\t'

    def form(self, *items):
        """items: strings (already rendered) -> '(a b c)' with random white space"""
        s = '('
        if self.rng.random() < 0.1:
            s += ' '
        s += items[0]
        for it in items[1:]:
            s += self.ws() + it
        if self.rng.random() < 0.15:
            s += self.ws()
        return s + ')'


def qstr(s):
    assert '"' not in s
    return '"%s"' % s


def render(design, rng):
    """EDIF 2 0 0 text of the design. Shares nothing with spydrnet's composer."""
    w = _W(rng)

    def namedef(x):
        if x.get('orig') is not None:
            return w.form(w.kw('rename'), x['ident'], qstr(x['orig']))
        return x['ident']

    def comment(text):
        return w.form(w.kw('comment'), qstr(text))

    def prop(p):
        if p['kind'] == 'string':
            tv = w.form(rng.choice(['string', 'String']), qstr(p.get('text', p['value'])))
        elif p['kind'] == 'integer':
            tv = w.form(rng.choice(['integer', 'Integer']), str(p['value']))
        else:
            tv = w.form(rng.choice(['boolean', 'Boolean']), w.form(rng.choice(['true', 'TRUE', 'True']) if p['value'] else rng.choice(['false', 'FALSE'])))
        items = [w.kw('property'), namedef(p), tv]
        if rng.random() < 0.1:
            items.append(w.form('owner', qstr('Xilinx')))
        return w.form(*items)

    def port(p):
        if p.get('size_written') is not None:
            nd = w.form(w.kw('array'), namedef(p), p['size_written'])
        elif p['array']:
            nd = w.form(w.kw('array'), namedef(p), str(p['width']))
        else:
            nd = namedef(p)
        items = [w.kw('port'), nd, w.form(w.kw('direction'), rng.choice(DIR_KW[p['direction']]))]
        return w.form(*items)

    def inst(x):
        cr = [w.kw('cellRef'), x['cell_written']]
        if x['libref']:
            cr.append(w.form(w.kw('libraryRef'), x['lib_written']))
        items = [w.kw('instance'), namedef(x)]
        if not x.get('bare'):
            items.append(w.form(w.kw('viewRef'), x['view_written'], w.form(*cr)))
        for p in x['properties']:
            items.append(prop(p))
            if rng.random() < 0.05:
                items.append(comment('between properties'))
        return w.form(*items)

    def net(n):
        refs = []
        for r in n['pins']:
            tgt = w.form(w.kw('member'), r['port_written'], str(r['index'])) if r['member'] else r['port_written']
            items = [w.kw('portRef'), tgt]
            if r['inst'] is not None:
                items.append(w.form(w.kw('instanceRef'), r['inst_written']))
            refs.append(w.form(*items))
        items = [w.kw('net'), namedef(n), w.form(w.kw('joined'), *refs)]
        for p in n.get('properties', []):
            items.append(prop(p))
        return w.form(*items)

    def cell(c):
        itf = [w.kw('interface')] + [port(p) for p in c['ports']]
        view = [w.kw('view'), c['view'], w.form('viewType', rng.choice(['NETLIST', 'netlist'])), w.form(*itf)]
        body = [inst(x) for x in c['instances']] + [net(n) for n in c['nets']]
        # instances must precede the nets that reference them; comments anywhere
        if c['comments']:
            body.insert(rng.randint(0, len(body)), comment(c['comments'][0]))
        if body or rng.random() < 0.3:
            view.append(w.form(w.kw('contents'), *body))
        return w.form(w.kw('cell'), namedef(c), w.form('cellType', rng.choice(['GENERIC', 'generic'])), w.form(*view))

    def library(L):
        items = [w.kw('library'), namedef(L), w.form('edifLevel', '0'), w.form('technology', w.form('numberDefinition'))]
        for c in L['cells']:
            items.append(cell(c))
            if rng.random() < 0.1:
                items.append(comment('after a cell'))
        return w.form(*items)

    top = [w.kw('edif'), namedef(design['name']), w.form('edifVersion', '2', '0', '0'), w.form('edifLevel', '0'),
           w.form('keywordMap', w.form('keywordLevel', '0'))]
    if design['status']:
        top.append(w.form('status', w.form('written', w.form('timeStamp', '2024', '1', '2', '3', '4', '5'),
                                           w.form('program', qstr('indep'), w.form('version', qstr('1.0'))),
                                           comment('status comment'))))
    d = design['design']

    def design_form(dd):
        items = [w.kw('design'), namedef(dd), w.form(w.kw('cellRef'), d['cell_written'], w.form(w.kw('libraryRef'), d['lib_written']))]
        for k, e in enumerate(d.get('extras', [])):
            items.append(comment('in the design') if e == 'comment' else
                         w.form(w.kw('property'), 'part%d' % k, w.form('string', qstr('xc7a35t'))))
        return w.form(*items)
    nlibs = len(design['libraries'])
    after = d.get('after_lib', nlibs - 1)
    for li, L in enumerate(design['libraries']):
        top.append(library(L))
        if rng.random() < 0.1:
            top.append(comment('between libraries'))
        if li == after:
            top.append(design_form(d))
    damage = design.get('damage')
    if damage == 'second_design':
        top.append(design_form({'ident': 'second_top', 'orig': None}))
    text = w.form(*top)
    if damage == 'missing_parens':
        text = text.rstrip()
        for _ in range(rng.choice([1, 2, 2, 3])):
            text = text[:text.rindex(')')].rstrip()
    elif damage == 'trailing_tokens':
        text += ' ' + rng.choice(['garbage', ')', '))', '(comment "after the end")', '"a string"', '(', '0'])
    return text + rng.choice(['', '\n', '\n\n'])


# ---- what the text declares ---------------------------------------------------------------------
def _nm(x):
    return x['orig'] if x.get('orig') is not None else x['ident']


def expected(design):
    """The netlist the text declares, in the shape of edif_canon.canon(identifiers=True). Written from the EDIF meaning of the constructs, not from the reader."""
    libs = design['libraries']
    out = {'name': _nm(design['name']), 'ident': design['name']['ident'], 'libraries': {},
           'order': {'libraries': [_nm(L) for L in libs]}}
    d = design['design']
    out['top'] = {'name': _nm(d), 'ident': d['ident'], 'ref': [_nm(libs[d['lib']]), _nm(_cell_by_ident(libs[d['lib']], d['cell']))]}
    for L in libs:
        EL = {'cells': {}, 'order': [_nm(c) for c in L['cells']], 'ident': L['ident']}
        out['libraries'][_nm(L)] = EL
        for c in L['cells']:
            EC = {'ports': [], 'instances': {}, 'nets': {}, 'inst_order': [_nm(x) for x in c['instances']], 'net_order': [],
                  'ident': c['ident']}
            EL['cells'][_nm(c)] = EC
            pname = {}
            for p in c['ports']:
                pname[p['ident'].lower()] = _nm(p)
                EC['ports'].append({'name': _nm(p), 'ident': p['ident'], 'direction': p['direction'], 'width': p['width'],
                                    'array': bool(p['array'])})
            iname = {}
            for x in c['instances']:
                iname[x['ident'].lower()] = x
                tgt = x['_cell']
                EC['instances'][_nm(x)] = {'ident': x['ident'], 'ref': [_nm(libs[x['lib']]), _nm(tgt)],
                                           'properties': [_eprop(p) for p in x['properties']]}
            # nets: scalars as written; bus bits merged by bus identifier
            buses = {}
            for n in c['nets']:
                pins = []
                for r in n['pins']:
                    if r['inst'] is None:
                        pins.append(['port', pname[r['port'].lower()], r['index']])
                    else:
                        x = iname[r['inst'].lower()]
                        pp = next(p for p in x['_cell']['ports'] if p['ident'] == r['port'])
                        pins.append(['inst', _nm(x), _nm(pp), r['index']])
                if n['bus']:
                    key = n['bus']['name']
                    if key not in buses:
                        buses[key] = {'ident': n['bus']['ident'], 'bits': {}}
                        EC['net_order'].append(key)
                    buses[key]['bits'].setdefault(n['bus']['bit'], []).extend(pins)
                else:
                    nm = _nm(n)
                    EC['net_order'].append(nm)
                    EC['nets'][nm] = {'ident': n['ident'], 'width': 1, 'lower': 0, 'array': False, 'bits': [pins]}
            for key, b in buses.items():
                lo, hi = min(b['bits']), max(b['bits'])
                EC['nets'][key] = {'ident': b['ident'], 'width': hi - lo + 1, 'lower': lo, 'array': True,
                                   'bits': [b['bits'].get(i, []) for i in range(lo, hi + 1)]}
    return out


def _eprop(p):
    kind = {'string': 'str', 'integer': 'int', 'boolean': 'bool'}[p['kind']]
    return {'identifier': p['ident'], 'original': p.get('orig'), 'value': [kind, p['value']]}


def _cell_by_ident(L, ident):
    return next(c for c in L['cells'] if c['ident'] == ident)


def design_json(design):
    """JSON-able copy (drops the internal object links)"""
    def clean(o):
        if isinstance(o, dict):
            return {k: clean(v) for k, v in o.items() if not k.startswith('_')}
        if isinstance(o, (list, tuple)):
            return [clean(v) for v in o]
        return o
    return clean(design)


def design_relink(design):
    """restore the '_cell' links of a design loaded from JSON"""
    libs = design['libraries']
    for L in libs:
        for c in L['cells']:
            for x in c['instances']:
                x['_cell'] = _cell_by_ident(libs[x['lib']], x['cell'])
    return design
