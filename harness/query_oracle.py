"""C13 oracle evaluated on the real spydrnet query functions (independent of the Coq model).

For a query function F, a root object, option settings and a pattern list P:
    U = F(root, <no pattern>, options)                       (the unfiltered result)
    R = F(root, P, key, is_case, is_re, options)
  filter : set(R) == {e in U | some p in P matches value(e)}   (spec matcher below, not fnmatch)
  nodup  : R (and U) contain no element twice
  order  : set(F(root, reversed(P), ...)) == set(R)
  lookup : the same result with the namespace manager's fast lookup deregistered
  callback: F(..., filter=f) == [e for e in R if f(e)] as sets
value(e) = e[key] if key in e else ""; for the hierarchical functions the name of the reference
relative to the root. Under the EDIF policy an exact EDIF.identifier pattern compares
case-insensitively (documented behaviour of the identifier namespace)."""
import re
import spydrnet as sdn
from spydrnet.util.hierarchical_reference import HRef
from spydrnet.util.selection import Selection
from spydrnet.global_state.global_service import register_lookup, deregister_lookup
from query_nets import USER_KEY

KEYS = ['.NAME', 'EDIF.identifier', USER_KEY]
SEL2 = ['INSIDE', 'OUTSIDE']
SEL4 = ['INSIDE', 'OUTSIDE', 'BOTH', 'ALL']
FUNCS = {
    # name: (selections or None, recursive?, patterns?, key?)
    'get_netlists': (None, False, True, True),
    'get_libraries': (SEL2, True, True, True),
    'get_definitions': (SEL2, True, True, True),
    'get_instances': (SEL2, True, True, True),
    'get_ports': (None, False, True, True),
    'get_cables': (SEL4, True, True, True),
    'get_pins': (SEL2, False, False, False),
    'get_wires': (SEL4, True, False, False),
    'get_hinstances': (None, True, True, False),
    'get_hports': (None, True, True, False),
    'get_hpins': (None, True, True, False),
    'get_hcables': (SEL4, True, True, False),
    'get_hwires': (SEL4, True, True, False),
}
HIER = ('get_hinstances', 'get_hports', 'get_hpins', 'get_hcables', 'get_hwires')


# ---- spec matcher (own implementation; '*' any sequence, '?' one character, rest literal) ----
def glob_spec(p, v):
    # iterative two-pointer wildcard match with backtracking to the last star
    i = j = 0
    star = -1
    mark = 0
    while j < len(v):
        if i < len(p) and p[i] == '*':
            star = i
            mark = j
            i += 1
        elif i < len(p) and (p[i] == '?' or p[i] == v[j]):
            i += 1
            j += 1
        elif star >= 0:
            i = star + 1
            mark += 1
            j = mark
        else:
            return False
    while i < len(p) and p[i] == '*':
        i += 1
    return i == len(p)


def ascii_lower(s):
    return ''.join(chr(ord(c) + 32) if 'A' <= c <= 'Z' else c for c in s)


def is_absolute_spec(p, is_case, is_re):
    return is_case and not is_re and '*' not in p and '?' not in p


def match_spec(value, p, is_case, is_re, ci_exact=False):
    """does pattern p select an element whose value is `value`"""
    if value is None:
        value = ''
    if is_re:
        try:
            return re.fullmatch(p, value, 0 if is_case else re.IGNORECASE) is not None
        except re.error:
            return False
    if ci_exact and is_absolute_spec(p, is_case, is_re):
        return ascii_lower(value) == ascii_lower(p)
    if not is_case:
        return glob_spec(ascii_lower(p), ascii_lower(value))
    return glob_spec(p, value)


# ---- lookup switch ----
class LookupOff:
    """deregister the namespace manager's fast lookups for the duration of a with-block"""

    def __enter__(self):
        deregister_lookup('.NAME')
        deregister_lookup('EDIF.identifier')

    def __exit__(self, *a):
        from spydrnet.global_state import global_service as gs
        for k in ('.NAME', 'EDIF.identifier'):
            if k not in gs._registered_lookups:
                register_lookup(k, sdn.namespace_manager.lookup)
        return False


def lookups_registered():
    from spydrnet.global_state import global_service as gs
    return all(k in gs._registered_lookups for k in ('.NAME', 'EDIF.identifier'))


# ---- roots ----
def make_href(w, path):
    h = None
    for i in path:
        h = HRef.from_parent_and_item(h, w.objs[i])
    return h


def resolve_root(w, tok):
    """root token -> object. E<i> element; O<inst>.<pin> outer pin; H<i>/<j>/.. hierarchical
    reference; L<tok>+<tok> a list of roots"""
    if tok[0] == 'L':
        return [resolve_root(w, t) for t in tok[1:].split('+')]
    if tok[0] == 'E':
        return w.objs[int(tok[1:])]
    if tok[0] == 'O':
        a, b = tok[1:].split('.')
        return w.objs[int(a)].pins[w.objs[int(b)]]
    if tok[0] == 'H':
        return make_href(w, [int(x) for x in tok[1:].split('/')])
    raise ValueError(tok)


def root_kind(w, tok):
    if tok[0] == 'L':
        return 'list(' + '+'.join(root_kind(w, t) for t in tok[1:].split('+')) + ')'
    if tok[0] == 'E':
        return w.kind(w.objs[int(tok[1:])])
    if tok[0] == 'O':
        return 'outerpin'
    last = int(tok[1:].split('/')[-1])
    return 'href:' + w.kind(w.objs[last])


def href_path(w, h):
    path = []
    while h is not None:
        path.append(w.index[id(h.item)])
        h = h.parent
    return list(reversed(path))


def all_roots(w, rng, per_kind=3, hrefs=6, lists=3):
    by_kind = {}
    for i, o in enumerate(w.objs):
        by_kind.setdefault(w.kind(o), []).append('E%d' % i)
    roots = []
    for k, toks in sorted(by_kind.items()):
        rng.shuffle(toks)
        roots += toks[:per_kind]
    outer = []
    for i, o in enumerate(w.objs):
        if w.kind(o) == 'instance':
            for opin in o.pins:
                outer.append('O%d.%d' % (i, w.index[id(opin.inner_pin)]))
    rng.shuffle(outer)
    roots += outer[:per_kind]
    hs = []
    for n in [o for o in w.objs if w.kind(o) == 'netlist']:
        if n.top_instance is None:
            continue
        for f in (sdn.get_hinstances, sdn.get_hports, sdn.get_hcables, sdn.get_hwires, sdn.get_hpins):
            try:
                got = list(f(n, recursive=True))
            except Exception:
                got = []
            rng.shuffle(got)
            for h in got[:2]:
                hs.append('H' + '/'.join(str(x) for x in href_path(w, h)))
        hs.append('H%d' % w.index[id(n.top_instance)])
    rng.shuffle(hs)
    roots += hs[:hrefs]
    simple = [r for r in roots]
    for _ in range(lists):
        if len(simple) >= 2:
            a, b = rng.sample(simple, 2)
            roots.append('L%s+%s' % (a, b))
    return roots


# ---- one query ----
def call(fname, root, pats=None, key=None, is_case=True, is_re=False, sel=None, rec=None, filt=None):
    kw = {}
    if key is not None:
        kw['key'] = key
    if sel is not None:
        kw['selection'] = sel
    if rec is not None:
        kw['recursive'] = rec
    if filt is not None:
        kw['filter'] = filt
    if pats is not None:
        kw['patterns'] = pats if len(pats) != 1 else pats[0]
        kw['is_case'] = is_case
        kw['is_re'] = is_re
    if isinstance(root, list):
        root = list(root)
    try:
        return 'ok', list(getattr(sdn, fname)(root, **kw))
    except Exception as e:  # noqa
        return 'exc:' + type(e).__name__, []


def values_of(fname, e, key, rootobj):
    """the value(s) the patterns are matched against. One value, except for a hierarchical query
    over several roots whose hierarchies overlap: a reference below two of the roots has a name
    relative to each of them, and which one is meant is not determined by the property."""
    if fname in HIER:
        nm = e.name
        roots = rootobj if isinstance(rootobj, list) else [rootobj]
        names = []
        for r in roots:
            if isinstance(r, HRef) and isinstance(r.item, sdn.ir.Instance) and r.parent is not None:
                prefix = r.name + '/'
                # below r?  (compare reference chains, not only names)
                h = e
                while h is not None and h != r:
                    h = h.parent
                if h is not None and nm.startswith(prefix):
                    names.append(nm[len(prefix):])
            else:
                names.append(nm)
        out = []
        for x in names or [nm]:
            if x not in out:
                out.append(x)
        return out
    if isinstance(e, (sdn.ir.InnerPin, sdn.ir.OuterPin, sdn.ir.Wire)):
        return ['']
    return [e[key] if key in e else '']


def value_of(fname, e, key, rootobj):
    vs = values_of(fname, e, key, rootobj)
    return min(vs, key=len)


def elem_tok(w, e):
    if isinstance(e, HRef):
        return 'H' + '/'.join(str(x) for x in href_path(w, e))
    if isinstance(e, sdn.ir.OuterPin):
        return w.tok_pin(e)
    return w.tok_id(e)


def derive_patterns(rng, values, n_values=3):
    """pattern sets derived from the values present: list of (pats, is_case, is_re, shape)"""
    vals = sorted(set(v for v in values if isinstance(v, str) and v != ''))
    rng.shuffle(vals)
    out = []
    picked = vals[:n_values]
    for v in picked:
        k = rng.randint(1, len(v))
        pre = v[:k]
        j = rng.randrange(len(v))
        q = v[:j] + '?' + v[j + 1:]
        out.append(([v], True, False, 'exact'))
        out.append(([v.swapcase()], True, False, 'exact-swapped'))
        out.append(([v.swapcase()], False, False, 'nocase-swapped'))
        out.append(([pre + '*'], True, False, 'prefix*'))
        out.append(([pre.swapcase() + '*'], False, False, 'nocase-prefix*'))
        out.append(([q], True, False, 'single?'))
        out.append(([re.escape(v)], True, True, 're-escaped'))
        out.append(([re.escape(v.swapcase())], False, True, 're-escaped-nocase'))
        out.append(([re.escape(pre) + '.*'], True, True, 're-prefix'))
        # regular-expression syntax whose letters are case-significant (\S \D \W ...), with and without is_case:
        # ignoring letter case applies to the values, never to the syntax of the pattern
        out.append(([re.escape(pre.swapcase()) + r'\S*'], False, True, 're-prefix-class-nocase'))
        out.append(([re.escape(pre) + r'\D*\S*'], rng.random() < 0.5, True, 're-prefix-classes'))
        out.append(([v, pre + '*'], True, False, 'list:exact,prefix*'))
        out.append(([pre + '*', v], True, False, 'list:prefix*,exact'))
        out.append(([v, v], True, False, 'list:exact,exact'))
    if len(picked) >= 2:
        a, b = picked[0], picked[1]
        out.append(([a, b], True, False, 'list:exact,exact2'))
        out.append(([a[:1] + '*', b, '?' + a[1:]], True, False, 'list:wild,exact,wild'))
        out.append(([re.escape(a), re.escape(b[:1]) + '.*'], True, True, 'list:re,re'))
        out.append(([a.swapcase(), b[:1].swapcase() + '*'], False, False, 'list:nocase'))
    out.append(([r'\S+'], False, True, 're-class-nocase'))
    out.append(([r'[^\W\d]\w*|\W.*|\d.*'], False, True, 're-classes-alt-nocase'))
    out.append((['zz_nomatch'], True, False, 'nomatch'))
    out.append((['*'], True, False, 'star'))
    return out


def check_case(w, fname, roottok, sel, rec, key, patsets, policy, stats):
    """Evaluate the oracle for one (function, root, options) on several pattern sets.
    Returns a list of failure dicts."""
    sels, has_rec, has_pat, has_key = FUNCS[fname]
    fails = []
    root = resolve_root(w, roottok)
    base = dict(function=fname, root=roottok, root_kind=root_kind(w, roottok), selection=sel,
                recursive=rec, key=key, policy=policy)
    st, U = call(fname, root, sel=sel, rec=rec, key=key if has_key else None)
    stats['calls'] += 1
    if st != 'ok':
        stats['raised'] += 1
        fails.append(dict(base, clause='accepts', detail=st, pats=None))
        return fails
    if len(U) != len(set(U)):
        fails.append(dict(base, clause='nodup', pats=None, shape='unfiltered', is_case=True, is_re=False,
                          detail='unfiltered result repeats %s' % sorted(elem_tok(w, e) for e in set(U) if U.count(e) > 1)[:4]))
    stats['unfiltered_size_%s' % ('0' if not U else '1-3' if len(U) <= 3 else '4-15' if len(U) <= 15 else '16+')] += 1
    # the filter callback is applied on top
    keep = set(e for i, e in enumerate(U) if i % 2 == 0)
    st2, F = call(fname, root, sel=sel, rec=rec, key=key if has_key else None, filt=lambda x: x in keep)
    stats['calls'] += 1
    if st2 != 'ok' or set(F) != keep or len(F) != len(set(F)):
        fails.append(dict(base, clause='callback', pats=None, shape='unfiltered', is_case=True, is_re=False,
                          detail='filter= result differs from the filtered unfiltered result'))
    if not has_pat:
        return fails
    def ci_exact(e):
        # identifiers compare case-insensitively for an element under the EDIF policy (its '.NS' entry)
        try:
            return key == 'EDIF.identifier' and '.NS' in e and e['.NS'] == 'EDIF'
        except TypeError:
            return False
    for pats, is_case, is_re, shape in patsets:
        kk = key if has_key else None
        st, R = call(fname, root, pats, kk, is_case, is_re, sel, rec)
        stats['calls'] += 1
        stats['shape:' + shape] += 1
        case = dict(base, pats=pats, is_case=is_case, is_re=is_re, shape=shape)
        if st != 'ok':
            fails.append(dict(case, clause='accepts', detail=st))
            continue
        def selects(e, quant):
            return quant(any(match_spec(v, p, is_case, is_re, ci_exact(e)) for p in pats) for v in values_of(fname, e, key, root))
        exp = [e for e in U if selects(e, all)]          # must be returned
        may = set(e for e in U if selects(e, any))       # may be returned (differs only for ambiguous names)
        stats['expected_nonempty' if exp else 'expected_empty'] += 1
        sR, sE = set(R), set(exp)
        if len(may) != len(sE):
            stats['ambiguous_relative_names'] += 1
            sE = sE | (sR & may)
        if sR != sE:
            fails.append(dict(case, clause='filter',
                              missing=sorted(elem_tok(w, e) for e in sE - sR)[:6],
                              extra=sorted(elem_tok(w, e) for e in sR - sE)[:6],
                              missing_values=sorted(set(str(value_of(fname, e, key, root)) for e in sE - sR))[:6],
                              extra_values=sorted(set(str(value_of(fname, e, key, root)) for e in sR - sE))[:6],
                              n_unfiltered=len(U), n_result=len(sR), n_expected=len(sE)))
        if len(R) != len(sR):
            dups = [e for e in sR if R.count(e) > 1]
            fails.append(dict(case, clause='nodup', dups=sorted(elem_tok(w, e) for e in dups)[:6],
                              dup_values=sorted(set(str(value_of(fname, e, key, root)) for e in dups))[:6]))
        if len(pats) > 1:
            st, R2 = call(fname, root, list(reversed(pats)), kk, is_case, is_re, sel, rec)
            stats['calls'] += 1
            if st != 'ok' or set(R2) != sR:
                fails.append(dict(case, clause='order',
                                  only_forward=sorted(elem_tok(w, e) for e in sR - set(R2))[:6],
                                  only_reversed=sorted(elem_tok(w, e) for e in set(R2) - sR)[:6]))
        with LookupOff():
            st, R3 = call(fname, root, pats, kk, is_case, is_re, sel, rec)
        stats['calls'] += 1
        if st != 'ok' or set(R3) != sR:
            fails.append(dict(case, clause='lookup',
                              only_registered=sorted(elem_tok(w, e) for e in sR - set(R3))[:6],
                              only_deregistered=sorted(elem_tok(w, e) for e in set(R3) - sR)[:6],
                              values=sorted(set(str(value_of(fname, e, key, root)) for e in sR ^ set(R3)))[:6]))
        if st == 'ok' and len(R3) != len(set(R3)) and len(R) == len(sR):
            dups = [e for e in set(R3) if R3.count(e) > 1]
            fails.append(dict(case, clause='nodup', lookup='deregistered', dups=sorted(elem_tok(w, e) for e in dups)[:6],
                              dup_values=sorted(set(str(value_of(fname, e, key, root)) for e in dups))[:6]))
    return fails
