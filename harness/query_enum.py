"""Correspondence of the WHOLE query functions of the Coq model (coq/theories/Query/Enum.v: candidate
enumeration per root kind + the filter stages of Query/Filter.v, extracted into
ocaml/_build/driver_query) with spydrnet/util/get_{instances,definitions,libraries,ports,netlists,
pins,cables,wires}.py:

the netlist is rebuilt inside the driver from its `ir` op history (the IR model's step), then for
random root objects of EVERY kind (netlist, library, definition, instance, port, cable, inner pin,
wire, outer pin, detached outer pin, hierarchical references to each kind of item, collections),
random recursive / selection settings, keys, pattern lists, callbacks and with the fast lookups
registered or not, the model's result list is compared with the real function's result list as
MULTISETS (so duplicates count)."""
import common
import spydrnet as sdn
from spydrnet.util.hierarchical_reference import HRef
from ir_world import tok_of_s
import query_oracle as qo
import query_corr as qc

# fname -> (model name, selections, has recursive, has patterns/key)
ENUM_FUNCS = {
    'get_instances': ('instances', qo.SEL2, True, True),
    'get_definitions': ('definitions', qo.SEL2, True, True),
    'get_libraries': ('libraries', qo.SEL2, True, True),
    'get_ports': ('ports', None, False, True),
    'get_netlists': ('netlists', None, False, True),
    'get_pins': ('pins', qo.SEL2, False, False),
    'get_cables': ('cables', qo.SEL4, True, True),
    'get_wires': ('wires', qo.SEL4, True, False),
}
ENABLED = ['get_instances', 'get_definitions', 'get_libraries', 'get_ports', 'get_netlists', 'get_pins',
           'get_cables', 'get_wires']


def root_tokens(tok):
    """harness root token -> list of driver root tokens"""
    if tok[0] == 'L':
        out = []
        for t in tok[1:].split('+'):
            out += root_tokens(t)
        return out
    return [tok]


def resolve(w, tok):
    if tok == 'D':
        return sdn.ir.OuterPin()
    return qo.resolve_root(w, tok)


def kind_of_tok(w, tok):
    if tok == 'D':
        return 'detached'
    return qo.root_kind(w, tok) if tok[0] != 'L' else 'list'


def pin_weight(w, p):
    if isinstance(p, sdn.ir.OuterPin):
        if p.instance is None:
            return 0
        return w.index[id(p.instance)] + w.index[id(p.inner_pin)]
    return w.index[id(p)]


def res_tok(w, e):
    if isinstance(e, sdn.ir.OuterPin):
        if e.instance is None:
            return 'D'
        return 'O%d.%d' % (w.index[id(e.instance)], w.index[id(e.inner_pin)])
    if isinstance(e, sdn.ir.InnerPin):
        return 'I%d' % w.index[id(e)]
    return str(w.index[id(e)])


def norm(ans):
    if ans in ('-', 'FUEL') or ans.startswith('ERR'):
        return ans
    return ','.join(sorted(ans.split(',')))


def make_case(w, rng, policy, roots, fname, stats, roottok=None):
    model_name, sels, has_rec, has_pat = ENUM_FUNCS[fname]
    if roottok is None:
        roottok = rng.choice(roots)
        if rng.random() < 0.02:
            roottok = 'D'
    sel = rng.choice(sels) if sels else None
    rec = (rng.random() < 0.65) if has_rec else None
    key = rng.choice(qo.KEYS) if has_pat else None
    registered = rng.random() < 0.7
    root = [resolve(w, t) for t in root_tokens(roottok)]
    rootarg = root if roottok[0] == 'L' else root[0]
    pats, is_case, is_re, shape = None, True, False, 'none'
    if has_pat:
        st, U = qo.call(fname, rootarg, sel=sel, rec=rec, key=key)
        vals = [e[key] if key in e else '' for e in U] if st == 'ok' else []
        patsets = [ps for ps in qo.derive_patterns(rng, vals, 2) if 'class' not in ps[3]]   # class escapes are outside the modelled regex fragment
        pats, is_case, is_re, shape = rng.choice(patsets)
        if rng.random() < 0.3 and len(patsets) > 3:
            p2 = rng.choice(patsets)
            if p2[1] == is_case and p2[2] == is_re:
                pats = pats + p2[0]
                shape = shape + '+' + p2[3]
    cbm, cbr = 0, 0
    if rng.random() < 0.25:
        cbm = rng.choice([2, 3])
        cbr = rng.randrange(cbm)
    filt = None
    if cbm:
        if fname == 'get_pins':
            filt = lambda e, m=cbm, r=cbr: pin_weight(w, e) % m != r
        else:
            filt = lambda e, m=cbm, r=cbr: w.index[id(e)] % m != r
    if isinstance(rootarg, list):
        rootarg = list(rootarg)

    def run():
        return qo.call(fname, rootarg, pats, key, is_case, is_re, sel, rec, filt)
    if registered:
        st, R = run()
    else:
        with qo.LookupOff():
            st, R = run()
    impl = 'ERR ' + st if st != 'ok' else (','.join(sorted(res_tok(w, e) for e in R)) or '-')
    line = 'F %s %s %s %s %s %s %d %d %s %d %s %d %s' % (
        model_name, qc.b(registered), qc.b(is_case), qc.b(is_re), qc.b(bool(rec)), sel or 'INSIDE', cbm, cbr,
        tok_of_s(key or '.NAME'), len(pats or ['*']), ' '.join(tok_of_s(p) for p in (pats or ['*'])),
        len(root), ' '.join(root_tokens(roottok)))
    desc = dict(level='enum', function=fname, root=roottok, root_kind=kind_of_tok(w, roottok), selection=sel, recursive=rec,
                key=key, pats=pats, is_case=is_case, is_re=is_re, shape=shape, registered=registered, policy=policy,
                callback=[cbm, cbr], request=line)
    stats['enum:%s' % fname] += 1
    stats['enum_root:%s' % desc['root_kind'].split('(')[0]] += 1
    if sel:
        stats['enum_sel:%s' % sel] += 1
    if rec:
        stats['enum_recursive'] += 1
    if R and len(R) != len(set(res_tok(w, e) for e in R)):
        stats['enum_with_duplicates'] += 1
    return desc, line, impl


def check_enum(w, ops, rng, policy, n_cases, stats):
    """-> list of disagreements"""
    roots = qo.all_roots(w, rng, per_kind=4, hrefs=10, lists=3)
    by_kind = {}
    for tok in roots:
        by_kind.setdefault(kind_of_tok(w, tok), []).append(tok)
    by_kind['detached'] = ['D']
    # stratified: every function x every kind of root present, the container kinds (where the
    # recursive settings matter) more often; the rest of the budget uniformly at random
    cases = []
    heavy = ('netlist', 'library', 'definition', 'instance', 'href:instance')
    for fname in ENABLED:
        for k, toks in sorted(by_kind.items()):
            for _ in range(4 if k in heavy else 1):
                if len(cases) < n_cases:
                    cases.append(make_case(w, rng, policy, roots, fname, stats, rng.choice(toks)))
    while len(cases) < n_cases:
        fname = rng.choice(ENABLED)
        cases.append(make_case(w, rng, policy, roots, fname, stats))
    lines = ['reset'] + ['op ' + ' '.join(o) for o in ops] + [c[1] for c in cases]
    out = qc.run_model(lines)
    pre = out[1:1 + len(ops)]
    bad = []
    refused = getattr(w, 'refused_ops', {})     # ops of the recipe that the implementation refused (kept: they allocate objects)
    wrong = [i for i, x in enumerate(pre) if (x != 'ok') != (i in refused)]
    if wrong:
        k = wrong[0]
        bad.append(dict(level='enum', what='model and implementation disagree on the outcome of an op of the recipe', op=' '.join(ops[k]),
                        model=pre[k], implementation=refused.get(k, 'ok')))
        return bad
    for (desc, line, impl), m in zip(cases, out[1 + len(ops):]):
        stats['enum_evals'] += 1
        mm = norm(m)
        if impl != '-':
            stats['enum_nonempty'] += 1
        if mm != impl:
            bad.append(dict(desc, impl=impl, model=mm))
    return bad


def replay_case(w, ops, desc):
    """re-run one recorded case (roots / options fixed) -> (impl, model)"""
    fname = desc['function']
    model_name, sels, has_rec, has_pat = ENUM_FUNCS[fname]
    roottok = desc['root']
    root = [resolve(w, t) for t in root_tokens(roottok)]
    rootarg = list(root) if roottok[0] == 'L' else root[0]
    cbm, cbr = desc.get('callback', [0, 0])
    filt = None
    if cbm:
        if fname == 'get_pins':
            filt = lambda e: pin_weight(w, e) % cbm != cbr
        else:
            filt = lambda e: w.index[id(e)] % cbm != cbr

    def run():
        return qo.call(fname, rootarg, desc.get('pats'), desc.get('key'), desc.get('is_case', True), desc.get('is_re', False),
                       desc.get('selection'), desc.get('recursive'), filt)
    if desc.get('registered', True):
        st, R = run()
    else:
        with qo.LookupOff():
            st, R = run()
    impl = 'ERR ' + st if st != 'ok' else (','.join(sorted(res_tok(w, e) for e in R)) or '-')
    out = qc.run_model(['reset'] + ['op ' + ' '.join(o) for o in ops] + [desc['request']])
    return impl, norm(out[-1])
