"""Executable statements of the IR properties, evaluated on the real spydrnet objects
(mirrors of the Coq predicates Inv1 / Inv2 / NsInv / frame / mirror). Each returns a list of
human-readable failure strings (empty = holds)."""
import spydrnet as sdn
from ir_world import REL, REL_PARENT, REL_CHILD, _OuterPin, _InnerPin, tok_of_s, tok_of_val


def _count_is(lst, x):
    return sum(1 for y in lst if y is x)


def inv1(w):
    """C01: containers list exactly the elements naming them as parent, once; pin<->wire agree."""
    bad = []
    for i, o in enumerate(w.objs):
        k = w.kind(o)
        for rel, (lattr, battr, *_r) in REL.items():
            if REL_PARENT[rel] == k:
                lst = list(getattr(o, lattr))
                for c in lst:
                    if _count_is(lst, c) != 1:
                        bad.append('%s of #%d lists #%s %d times' % (lattr, i, w.tok_id(c), _count_is(lst, c)))
                    if getattr(c, battr) is not o:
                        bad.append('%s of #%d lists #%s whose .%s is #%s' % (lattr, i, w.tok_id(c), battr, w.tok_id(getattr(c, battr))))
            if REL_CHILD[rel] == k:
                p = getattr(o, battr)
                if p is not None and _count_is(list(getattr(p, lattr)), o) != 1:
                    bad.append('#%d reports .%s = #%s which lists it %d times' % (i, battr, w.tok_id(p), _count_is(list(getattr(p, lattr)), o)))
        if k == 'wire':
            pins = list(o.pins)
            for p in pins:
                if _count_is(pins, p) != 1:
                    bad.append('wire #%d lists pin %s %d times' % (i, w.tok_pin(p), _count_is(pins, p)))
                if p.wire is not o:
                    bad.append('wire #%d lists pin %s whose .wire is #%s' % (i, w.tok_pin(p), w.tok_id(p.wire)))
                if isinstance(p, _OuterPin):
                    inst = p.instance
                    if inst is None or p.inner_pin is None or inst._pins.get(p.inner_pin) is not p:
                        bad.append('wire #%d lists outer pin %s that is not a pin of its instance' % (i, w.tok_pin(p)))
        if k == 'pin':
            wr = o.wire
            if wr is not None and _count_is(list(wr.pins), o) != 1:
                bad.append('pin #%d reports wire #%s which lists it %d times' % (i, w.tok_id(wr), _count_is(list(wr.pins), o)))
        if k == 'instance':
            for ip, op in o._pins.items():
                wr = op.wire
                if wr is not None and _count_is(list(wr.pins), op) != 1:
                    bad.append('outer pin O%d.%s reports wire #%s which lists it %d times' % (i, w.tok_id(ip), w.tok_id(wr), _count_is(list(wr.pins), op)))
    return bad


def inv2(w):
    """C02: reference sets and outer pins mirror the definitions."""
    bad = []
    defs = [(i, o) for i, o in enumerate(w.objs) if w.kind(o) == 'definition']
    for i, o in enumerate(w.objs):
        k = w.kind(o)
        if k == 'instance':
            d = o.reference
            for j, dd in defs:
                member = any(r is o for r in dd.references)
                if (dd is d) != member:
                    bad.append('instance #%d reference=#%s but membership in #%d.references is %s' % (i, w.tok_id(d), j, member))
            want = [] if d is None else [p for port in d.ports for p in port.pins]
            keys = list(o._pins.keys())
            for p in want:
                if _count_is(keys, p) != 1:
                    bad.append('instance #%d has %d outer pins for inner pin #%s of its definition' % (i, _count_is(keys, p), w.tok_id(p)))
            for p in keys:
                if _count_is(want, p) != 1:
                    bad.append('instance #%d has an outer pin for #%s which is not a pin of its definition' % (i, w.tok_id(p)))
            for ip, op in o._pins.items():
                if op.instance is not o or op.inner_pin is not ip:
                    bad.append('outer pin of #%d for #%s names (%s,%s)' % (i, w.tok_id(ip), w.tok_id(op.instance), w.tok_id(op.inner_pin)))
                if o.pins[ip] is not op or o.pins[op] is not op or (ip not in o.pins):
                    bad.append('instance #%d pins lookup by inner/outer pin disagrees for #%s' % (i, w.tok_id(ip)))
        if k == 'definition':
            for r in o.references:
                if r.reference is not o:
                    bad.append('#%d.references contains #%s whose reference is #%s' % (i, w.tok_id(r), w.tok_id(r.reference)))
        if k == 'wire':
            for p in o.pins:
                if isinstance(p, _OuterPin) and (p.instance is None or p.instance._pins.get(p.inner_pin) is not p):
                    bad.append('wire #%d still lists dropped outer pin %s' % (i, w.tok_pin(p)))
    return bad


SCOPES = [('netlist', 'libraries', sdn.get_libraries, 'library'), ('library', 'definitions', sdn.get_definitions, 'definition'),
          ('definition', 'ports', sdn.get_ports, 'port'), ('definition', 'cables', sdn.get_cables, 'cable'),
          ('definition', 'children', sdn.get_instances, 'instance')]


def ns_inv(w, full_lookup=True):
    """C10: sibling names unique per scope (identifiers case-insensitively under EDIF) and exact
    lookup == linear scan, for every parent that carries a naming policy."""
    bad = []
    for i, o in enumerate(w.objs):
        k = w.kind(o)
        for pk, lattr, getter, ck in SCOPES:
            if pk != k:
                continue
            if '.NS' not in o:
                continue
            edif = o['.NS'] == 'EDIF'
            kids = list(getattr(o, lattr))
            names = {}
            idents = {}
            for c in kids:
                if '.NAME' in c and isinstance(c['.NAME'], str):
                    names.setdefault(c['.NAME'], []).append(c)
                if 'EDIF.identifier' in c and isinstance(c['EDIF.identifier'], str):
                    idents.setdefault(c['EDIF.identifier'].lower() if edif else c['EDIF.identifier'], []).append(c)
            for nm, l in names.items():
                if len(l) > 1:
                    bad.append('scope %s of #%d: name %r carried by %s' % (lattr, i, nm, [w.tok_id(x) for x in l]))
            if edif:
                for nm, l in idents.items():
                    if len(l) > 1:
                        bad.append('scope %s of #%d: identifier %r (case-folded) carried by %s' % (lattr, i, nm, [w.tok_id(x) for x in l]))
                for c in kids:
                    v = c.get('EDIF.identifier')
                    if isinstance(v, str) and not legal_edif_identifier(v):
                        bad.append('scope %s of #%d: #%s carries illegal identifier %r' % (lattr, i, w.tok_id(c), v))
            if full_lookup:
                # exact lookup through the public query API vs a scan of the children
                for nm in list(names) + ['zz_absent']:
                    got = sorted(w.tok_id(x) for x in getter(o, nm))
                    want = sorted(w.tok_id(c) for c in kids if c.get('.NAME') == nm)
                    if not any(ch in nm for ch in '*?[') and got != want:
                        bad.append('lookup %s(#%d, %r) = %s but scan = %s' % (getter.__name__, i, nm, got, want))
                if edif:
                    for c in kids:
                        v = c.get('EDIF.identifier')
                        if isinstance(v, str) and v and not any(ch in v for ch in '*?['):
                            got = sorted(w.tok_id(x) for x in getter(o, v, key='EDIF.identifier'))
                            want = sorted(w.tok_id(x) for x in kids if isinstance(x.get('EDIF.identifier'), str) and x.get('EDIF.identifier').lower() == v.lower())
                            if got != want:
                                bad.append('lookup %s(#%d, %r, key=EDIF.identifier) = %s but scan = %s' % (getter.__name__, i, v, got, want))
    return bad


def legal_edif_identifier(s):
    """EDIF 2 0 0 identifier: [&]alnum/_ , first char a letter unless prefixed by &, <= 255 after &"""
    body = s[1:] if s.startswith('&') else s
    if not body or len(body) > 255:
        return False
    if not s.startswith('&') and not (body[0].isascii() and body[0].isalpha()):
        return False
    return all(c.isascii() and (c.isalnum() or c == '_') for c in body)


def snapshot(w):
    """Identity-level snapshot used by the C14 frame check: every observable of every registered
    object plus name-lookup answers."""
    return [w.dump_obj(i) for i in range(len(w.objs))]


def registered_anywhere(w, first_new):
    """C14: objects created by a refused compound constructor must not be reachable from any
    older object (child lists, reference sets, wires, instance pins, top instance, tables)."""
    bad = []
    new_ids = set(range(first_new, len(w.objs)))
    if not new_ids:
        return bad
    import re
    for i in range(first_new):
        line = w.dump_obj(i)
        body = line.split(' ', 1)[1] if ' ' in line else ''
        body = re.sub(r'data=\{[^}]*\}', '', body)
        for tok in re.findall(r'(?<![\w,:])(\d+)(?![\w,:])|[=OI>.](\d+)', body):
            for t in tok:
                if t and int(t) in new_ids:
                    bad.append('old object %s refers to half-built #%s' % (line.split(' ')[0], t))
    return bad


def observers(w):
    """The read-only queries of the IR classes answer from the same state the dump shows (evaluated on every 3rd step
    and cheap): a query that disagrees with the lists and back-pointers it is documented to summarise is a wrong answer
    about a state the correspondence check has just compared with the model. Covers Definition.is_leaf,
    Instance.is_leaf / is_unique, Wire.index / get_driver, OuterPin.index, Bundle.is_array, the ListView /
    OuterPinsView / DictView wrappers the list attributes hand out, FirstClassElement.get / __iter__ / data."""
    w._obs_n = getattr(w, '_obs_n', 0) + 1
    if w._obs_n % 3:
        return []
    bad = []

    def chk(cond, what):
        if not cond:
            bad.append(what)
    for i, o in enumerate(w.objs):
        k = w.kind(o)
        try:
            if k == 'definition':
                leaf = len(o._children) == 0 and len(o._cables) == 0
                chk(o.is_leaf() == leaf, 'Definition.is_leaf of #%d is %r' % (i, o.is_leaf()))
            elif k == 'instance':
                r = o.reference
                leaf = r is not None and len(r._children) == 0 and len(r._cables) == 0
                chk(o.is_leaf() == leaf, 'Instance.is_leaf of #%d is %r' % (i, o.is_leaf()))
                if r is not None:
                    chk(o.is_unique() == (len(r.references) == 1 or leaf), 'Instance.is_unique of #%d is %r' % (i, o.is_unique()))
                view = o.pins
                for ip, op in o._pins.items():
                    chk(view.get(op) is op and view.get(ip) is op and op in view and ip in view and view[op] is op,
                        'the pins view of instance #%d does not find its own pin %s' % (i, w.tok_pin(op)))
                    if ip.port is not None:
                        chk(op.index() == [id(x) for x in ip.port.pins].index(id(ip)), 'OuterPin.index of %s' % w.tok_pin(op))
                chk(view.get(o, 7) == 7 and (o in view) is False, 'the pins view of instance #%d finds a foreign key' % i)
                chk(len(view) == len(o._pins) and [id(x) for x in view] == [id(x) for x in o._pins.values()], 'the pins view of instance #%d iterates other pins' % i)
            elif k == 'wire':
                if o.cable is not None:
                    chk(o.index() == [id(x) for x in o.cable.wires].index(id(o)), 'Wire.index of #%d is %r' % (i, o.index()))
                else:
                    try:
                        o.index()
                        chk(False, 'Wire.index of #%d outside any cable answers' % i)
                    except AssertionError:
                        pass
                pins = list(o.pins)
                if all((p.port if isinstance(p, _InnerPin) else (p.inner_pin.port if p.inner_pin is not None else None)) is not None for p in pins):
                    exp = [p for p in pins if (p.port.direction is sdn.IN if isinstance(p, _InnerPin) else p.inner_pin.port.direction is sdn.OUT)]
                    got = o.get_driver()
                    chk([id(x) for x in got] == [id(x) for x in exp], 'Wire.get_driver of #%d lists %d pins, %d drive it' % (i, len(got), len(exp)))
            if k in ('port', 'cable'):
                chk(o.is_array == (not o.is_scalar), 'is_array of #%d is not the inverse of is_scalar' % i)
            if k in ('netlist', 'library', 'definition', 'port', 'cable', 'instance'):
                chk(list(iter(o)) == list(o._data.keys()), 'iterating #%d does not give its keys' % i)
                d = o.data
                chk(d == o._data and len(d) == len(o._data) and all(d[x] == o._data[x] and o.get(x) == o._data[x] for x in o._data)
                    and o.get('\x00no such key', 5) == 5, 'the data view / get of #%d disagrees with its entries' % i)
            for rel, (lattr, battr, *_r) in REL.items():
                if REL_PARENT[rel] != k:
                    continue
                view = getattr(o, lattr)
                raw = list(view)
                chk(len(view) == len(raw) and view == raw and not (view != raw) and view.copy() == raw and list(reversed(view)) == raw[::-1]
                    and view + [] == raw and view * 2 == raw * 2 and 2 * view == raw * 2 and view <= raw and view >= raw and not (view < raw)
                    and not (view > raw) and all(x in view and view.count(x) == 1 and view[view.index(x)] is x for x in raw)
                    and (o in view) is False and view.count(o) == 0 and view[:1] == raw[:1],
                    'the list view %s of #%d disagrees with the list it shows' % (lattr, i))
                other = getattr(o, lattr)
                chk(view <= other and view >= other and not (view < other) and not (view > other), 'two views of %s of #%d do not compare equal' % (lattr, i))
                for bump in ('__iadd__', '__imul__'):
                    try:
                        getattr(view, bump)(raw)
                        chk(False, 'the list view %s of #%d accepts in-place growth' % (lattr, i))
                    except TypeError:
                        pass
                chk([id(x) for x in getattr(o, lattr)] == [id(x) for x in raw], 'reading the view %s of #%d changed the list' % (lattr, i))
        except Exception as e:  # noqa
            bad.append('a read-only query on #%d (%s) raises %s: %s' % (i, k, type(e).__name__, str(e)[:120]))
    return bad
