"""Implementation side of the `ir` engine: executes protocol ops on the real spydrnet objects
(taken from /repo) and prints the same canonical dump as ocaml/driver_ir.ml.

Creation order is observed by wrapping the IR classes' __init__ inside this process; no change
to /repo is needed. Private attributes read: Instance._pins (ordered mapping inner pin -> outer
pin) and namespace_manager.namespaces (the manager's tables)."""
import spydrnet as sdn
from spydrnet.ir.netlist import Netlist as _Netlist
from spydrnet.ir.library import Library as _Library
from spydrnet.ir.definition import Definition as _Definition
from spydrnet.ir.port import Port as _Port
from spydrnet.ir.cable import Cable as _Cable
from spydrnet.ir.wire import Wire as _Wire
from spydrnet.ir.innerpin import InnerPin as _InnerPin
from spydrnet.ir.instance import Instance as _Instance
from spydrnet.ir.outerpin import OuterPin as _OuterPin
from spydrnet.callback.callback_listener import CallbackListener

KINDS = [('netlist', _Netlist), ('library', _Library), ('definition', _Definition), ('port', _Port),
         ('cable', _Cable), ('wire', _Wire), ('pin', _InnerPin), ('instance', _Instance)]
KIND_CLS = dict(KINDS)
EXT_CLS = {'netlist': sdn.ir.Netlist, 'library': sdn.ir.Library, 'definition': sdn.ir.Definition,
           'port': sdn.ir.Port, 'cable': sdn.ir.Cable, 'wire': sdn.ir.Wire, 'pin': sdn.ir.InnerPin,
           'instance': sdn.ir.Instance}
REL = {  # rel -> (parent list attr, child back-pointer attr, add, remove, remove_from, create)
    'libs': ('libraries', 'netlist', 'add_library', 'remove_library', 'remove_libraries_from', 'create_library'),
    'defs': ('definitions', 'library', 'add_definition', 'remove_definition', 'remove_definitions_from', 'create_definition'),
    'ports': ('ports', 'definition', 'add_port', 'remove_port', 'remove_ports_from', 'create_port'),
    'cables': ('cables', 'definition', 'add_cable', 'remove_cable', 'remove_cables_from', 'create_cable'),
    'children': ('children', 'parent', 'add_child', 'remove_child', 'remove_children_from', 'create_child'),
    'pins': ('pins', 'port', 'add_pin', 'remove_pin', 'remove_pins_from', 'create_pin'),
    'wires': ('wires', 'cable', 'add_wire', 'remove_wire', 'remove_wires_from', 'create_wire'),
}
REL_PARENT = {'libs': 'netlist', 'defs': 'library', 'ports': 'definition', 'cables': 'definition',
              'children': 'definition', 'pins': 'port', 'wires': 'cable'}
REL_CHILD = {'libs': 'library', 'defs': 'definition', 'ports': 'port', 'cables': 'cable',
             'children': 'instance', 'pins': 'pin', 'wires': 'wire'}

CURRENT = [None]
_installed = [False]


def _install_wrappers():
    if _installed[0]:
        return
    _installed[0] = True
    for _, cls in KINDS:
        orig = cls.__init__

        def make(orig):
            def wrapped(self, *a, **k):
                w = CURRENT[0]
                if w is not None:
                    w._register(self)
                return orig(self, *a, **k)
            return wrapped
        cls.__init__ = make(orig)


class Str(str):
    """a string type of the caller's own (strings read from a file or built by a library are often subclasses of
    str): the API must treat it like any other string"""
    __slots__ = ()


def s_of_tok(t):
    return '' if t == '-' else ''.join(chr(int(x)) for x in t.split(','))


def name_of_tok(t):
    """a name or string value handed to the API: one time in three as an instance of a subclass of str (chosen
    from the text, so replays agree)"""
    s = s_of_tok(t)
    return Str(s) if (len(t) + (int(t.split(',')[-1]) if t != '-' else 0)) % 3 == 0 else s


def tok_of_s(s):
    return '-' if s == '' else ','.join(str(ord(c)) for c in s)


def val_of_tok(t):
    if t == 'n':
        return None
    if t[0] == 's':
        return name_of_tok(t[2:])
    if t[0] == 'i':
        return int(t[2:])
    if t[0] == 'b':
        return t == 'b:1'
    raise ValueError(t)


def tok_of_val(v):
    if v is None:
        return 'n'
    if isinstance(v, bool):
        return 'b:1' if v else 'b:0'
    if isinstance(v, int):
        return 'i:%d' % v
    if isinstance(v, str):
        return 's:' + tok_of_s(v)
    return '?' + repr(v).replace(' ', '_')


class XAttr(Exception):
    pass


def exn_class(e):
    if isinstance(e, XAttr):
        return 'attr'
    if isinstance(e, AssertionError):
        return 'assert'
    if isinstance(e, KeyError):
        return 'key'
    if isinstance(e, ValueError):
        return 'value'
    if isinstance(e, RuntimeError) and not isinstance(e, (RecursionError, NotImplementedError)):
        return 'runtime'
    if isinstance(e, TypeError):
        return 'type'
    return 'other:' + type(e).__name__


class _LogBase(CallbackListener):
    def __init__(self, world):
        self.w = world
        super().__init__()

    # C19 "announced BEFORE it takes effect": what the listener can see at the moment it is told
    def _pre_add(self, rel, p, c):
        if any(x is c for x in getattr(p, REL[rel][0])):
            self.w.early.append('add %s announced after the child was already listed' % rel)

    def _pre_remove(self, rel, p, c):
        if not any(x is c for x in getattr(p, REL[rel][0])):
            self.w.early.append('remove %s announced after the child had already left the list' % rel)

    def _pre_connect(self, w, p):
        stored = p
        if isinstance(p, _OuterPin) and p.instance is not None and p.inner_pin in p.instance._pins:
            stored = p.instance._pins[p.inner_pin]
        if any(x is stored for x in w._pins) or getattr(stored, '_wire', None) is w:
            self.w.early.append('connect announced after the pin was already on the wire')

    def _i(self, o):
        return self.w.tok_id(o)

    def create_netlist(self, x): self.w.events.append('create:netlist:' + self._i(x))
    def create_library(self, x): self.w.events.append('create:library:' + self._i(x))
    def create_definition(self, x): self.w.events.append('create:definition:' + self._i(x))
    def create_port(self, x): self.w.events.append('create:port:' + self._i(x))
    def create_cable(self, x): self.w.events.append('create:cable:' + self._i(x))
    def create_instance(self, x): self.w.events.append('create:instance:' + self._i(x))
    def cable_add_wire(self, p, c): self._pre_add('wires', p, c); self.w.events.append('add:wires:%s:%s' % (self._i(p), self._i(c)))
    def cable_remove_wire(self, p, c): self._pre_remove('wires', p, c); self.w.events.append('remove:wires:%s:%s' % (self._i(p), self._i(c)))
    def definition_add_port(self, p, c): self._pre_add('ports', p, c); self.w.events.append('add:ports:%s:%s' % (self._i(p), self._i(c)))
    def definition_remove_port(self, p, c): self._pre_remove('ports', p, c); self.w.events.append('remove:ports:%s:%s' % (self._i(p), self._i(c)))
    def definition_add_child(self, p, c): self._pre_add('children', p, c); self.w.events.append('add:children:%s:%s' % (self._i(p), self._i(c)))
    def definition_remove_child(self, p, c): self._pre_remove('children', p, c); self.w.events.append('remove:children:%s:%s' % (self._i(p), self._i(c)))
    def definition_add_cable(self, p, c): self._pre_add('cables', p, c); self.w.events.append('add:cables:%s:%s' % (self._i(p), self._i(c)))
    def definition_remove_cable(self, p, c): self._pre_remove('cables', p, c); self.w.events.append('remove:cables:%s:%s' % (self._i(p), self._i(c)))
    def instance_reference(self, n, d): self.w.events.append('reference:%s:%s' % (self._i(n), self._i(d)))
    def library_add_definition(self, p, c): self._pre_add('defs', p, c); self.w.events.append('add:defs:%s:%s' % (self._i(p), self._i(c)))
    def library_remove_definition(self, p, c): self._pre_remove('defs', p, c); self.w.events.append('remove:defs:%s:%s' % (self._i(p), self._i(c)))

    def netlist_top_instance(self, n, a):
        if a is None:
            t = 'N'
        elif isinstance(a, _Definition):
            t = 'D' + self._i(a)
        else:
            t = 'I' + self._i(a)
        self.w.events.append('top:%s:%s' % (self._i(n), t))

    def netlist_add_library(self, p, c): self._pre_add('libs', p, c); self.w.events.append('add:libs:%s:%s' % (self._i(p), self._i(c)))
    def netlist_remove_library(self, p, c): self._pre_remove('libs', p, c); self.w.events.append('remove:libs:%s:%s' % (self._i(p), self._i(c)))
    def port_add_pin(self, p, c): self._pre_add('pins', p, c); self.w.events.append('add:pins:%s:%s' % (self._i(p), self._i(c)))
    def port_remove_pin(self, p, c): self._pre_remove('pins', p, c); self.w.events.append('remove:pins:%s:%s' % (self._i(p), self._i(c)))
    def wire_connect_pin(self, w, p): self._pre_connect(w, p); self.w.events.append('connect:%s:%s' % (self._i(w), self.w.tok_pin(p)))
    def wire_disconnect_pin(self, w, p): self.w.events.append('disconnect:%s:%s' % (self._i(w), self.w.tok_pin(p)))
    def dictionary_set(self, e, k, v): self.w.events.append('dset:%s:%s:%s' % (self._i(e), tok_of_s(k), tok_of_val(v)))
    def dictionary_delete(self, e, k): self.w.events.append('ddel:%s:%s' % (self._i(e), tok_of_s(k)))
    def dictionary_pop(self, e, k): self.w.events.append('dpop:%s:%s' % (self._i(e), tok_of_s(k)))


class _Log(_LogBase):
    """the listener the harness registers is a SUBCLASS of the class that defines most hooks (a reusable mirror
    extended by a project is the normal way to use the callback framework): inherited hooks must be told too"""

    def create_netlist(self, x):
        super().create_netlist(x)

    def definition_add_port(self, p, c):
        super().definition_add_port(p, c)


class DanglingId(Exception):
    pass


class World:
    def __init__(self, listen=True):
        _install_wrappers()
        self.objs = []
        self.index = {}
        self.events = []
        self.early = []       # C19: announcements that came after the effect
        self.raw_events = []  # (name, args) for the shadow listener of C19
        sdn.namespace_manager.default = 'DEFAULT'
        import spydrnet.uniquify as _u, spydrnet.flatten as _f
        _u.MOD_NAME_UID = 0
        _f.mod_name_uid = 0
        _f.unique_number = 0
        CURRENT[0] = self
        self.listener = _Log(self) if listen else None

    def close(self):
        if self.listener is not None:
            self.listener.deregister_all_listeners()
            self.listener = None
        if CURRENT[0] is self:
            CURRENT[0] = None
        sdn.namespace_manager.default = 'DEFAULT'

    # ---- registry ----
    def _register(self, obj):
        if id(obj) not in self.index:
            self.index[id(obj)] = len(self.objs)
            self.objs.append(obj)

    def tok_id(self, o):
        if o is None:
            return '~'
        i = self.index.get(id(o))
        return '?' if i is None else str(i)

    def tok_pin(self, p):
        if isinstance(p, _OuterPin):
            if p.instance is None or p.inner_pin is None:
                return 'D'
            return 'O%s.%s' % (self.tok_id(p.instance), self.tok_id(p.inner_pin))
        return 'I' + self.tok_id(p)

    def kind(self, o):
        for name, cls in KINDS:
            if isinstance(o, cls):
                return name
        return '?'

    def obj(self, tok):
        return None if tok == '~' else self._at(tok)

    def _at(self, tok):
        """the object an op names; an op naming an object that was never created is not a history at all (it
        only arises when a shrinking step dropped the op that created it): the harness refuses to run it"""
        i = int(tok)
        if i < 0 or i >= len(self.objs):
            raise DanglingId(tok)
        return self.objs[i]

    def pin_arg(self, tok):
        if tok == 'D':
            return sdn.ir.OuterPin()
        if tok[0] == 'I':
            return self._at(tok[1:])
        a, b = tok[1:].split('.')
        inst, ip = self._at(a), self._at(b)
        if tok[0] == 'S' and ip in inst._pins:
            return inst._pins[ip]
        # proxies are Python objects that callers may keep: two out of three requests for the same (instance, inner pin)
        # hands back the proxy object built for the previous request (with whatever the earlier call left in it)
        # instead of a fresh one - the API must not care
        if not hasattr(self, '_proxies'):
            self._proxies = {}
        key = (int(a), int(b))
        old = self._proxies.get(key)
        if old is not None and old[1] % 3 != 0 and old[0].instance is inst and old[0].inner_pin is ip:
            self._proxies[key] = (old[0], old[1] + 1)
            return old[0]
        px = sdn.ir.OuterPin.from_instance_and_inner_pin(inst, ip)
        self._proxies[key] = (px, (old[1] + 1) if old is not None else 1)
        return px

    # ---- op execution ----
    def apply(self, toks):
        self.events = []
        self.early = []
        self._callers_lists = []
        try:
            self._do(toks)
            return 'ok'
        except DanglingId:
            raise
        except Exception as e:  # noqa
            return exn_class(e)
        finally:
            for mine in self._callers_lists:
                del mine[:]

    def _as_iterable(self, items, toks):
        """the bulk calls and the reorder setters accept any iterable: hand the same elements over as a list,
        a tuple, a one-shot iterator or a generator (chosen deterministically from the op text). A list handed
        over stays the CALLER'S list: after the call returns (or raises) the harness empties it - the API must
        have taken a copy, whatever the caller does to its own list later must not reach the netlist"""
        k = sum(len(x) + (ord(x[-1]) if x else 0) for x in toks) % 4
        if k == 0:
            mine = list(items)
            self._callers_lists.append(mine)
            return mine
        if k == 1:
            return tuple(items)
        if k == 2:
            return iter(list(items))
        return (x for x in list(items))

    def _props(self, toks):
        n = int(toks[0])
        d = {}
        for j in range(n):
            d[s_of_tok(toks[1 + 2 * j])] = val_of_tok(toks[2 + 2 * j])
        return (d if n else None), toks[1 + 2 * n:]

    def _do(self, t):
        o = t[0]
        if o == 'new':
            kind = t[1]
            nm = None if t[2] == '~' else s_of_tok(t[2])
            props, _ = self._props(t[3:])
            if kind in ('wire', 'pin'):
                EXT_CLS[kind]()
            else:
                EXT_CLS[kind](name=nm, properties=props)
        elif o == 'create':
            rel, p = t[1], self.obj(t[2])
            nm = None if t[3] == '~' else s_of_tok(t[3])
            props, rest = self._props(t[4:])
            items, ref = int(rest[0]), self.obj(rest[1])
            f = getattr(p, REL[rel][5])
            # the bundle arguments spelled out with the values they default to (half of the calls, chosen from the
            # op text): is_scalar=True is what a new bundle stores anyway, also when several pins / wires follow
            kw = {}
            if rel in ('ports', 'cables') and (len(t[3]) + items) % 2 == 0:
                kw = dict(is_scalar=True, is_downto=True, lower_index=0)
            if rel == 'ports':
                f(name=nm, properties=props, pins=items or None, **kw)
            elif rel == 'cables':
                f(name=nm, properties=props, wires=items or None, **kw)
            elif rel == 'children':
                f(name=nm, properties=props, reference=ref)
            else:
                f(name=nm, properties=props)
        elif o == 'items':
            rel, p, n = t[1], self.obj(t[2]), int(t[3])
            if rel == 'pins':
                p.create_pins(n) if n != 1 else p.create_pin()
            else:
                p.create_wires(n) if n != 1 else p.create_wire()
        elif o == 'add':
            rel, p, c = t[1], self.obj(t[2]), self.obj(t[3])
            pos = None if t[4] == '~' else int(t[4])
            getattr(p, REL[rel][2])(c, position=pos) if pos is not None else getattr(p, REL[rel][2])(c)
        elif o == 'remove':
            rel, p, c = t[1], self.obj(t[2]), self.obj(t[3])
            getattr(p, REL[rel][3])(c)
        elif o == 'removefrom':
            rel, p = t[1], self.obj(t[2])
            cs = [self.obj(x) for x in t[4:4 + int(t[3])]]
            if t[4 + int(t[3]):] == ['set']:
                # trailing marker (ignored by the model's op parser: the model's argument is the same list): the
                # caller hands over a `set`, the argument type the docstrings of remove_*_from name - the one branch
                # that uses the caller's object as it is instead of building a set from it
                getattr(p, REL[rel][4])(set(cs))
            else:
                getattr(p, REL[rel][4])(self._as_iterable(cs, t))
        elif o == 'reorder':
            rel, p = t[1], self.obj(t[2])
            cs = [self.obj(x) for x in t[4:4 + int(t[3])]]
            setattr(p, REL[rel][0], self._as_iterable(cs, t))
        elif o == 'reorderwire':
            w = self.obj(t[1])
            w.pins = self._as_iterable([self.pin_arg(x) for x in t[3:3 + int(t[2])]], t)
        elif o == 'connect':
            w, p = self.obj(t[1]), self.pin_arg(t[2])
            if t[3] == '~':
                w.connect_pin(p)
            else:
                w.connect_pin(p, position=int(t[3]))
        elif o == 'disconnect':
            self.obj(t[1]).disconnect_pin(self.pin_arg(t[2]))
        elif o == 'disconnectfrom':
            w = self.obj(t[1])
            w.disconnect_pins_from(self._as_iterable([self.pin_arg(x) for x in t[3:3 + int(t[2])]], t))
        elif o == 'setref':
            if t[2] == '~' and t[3:] == ['del']:   # the deleter of the attribute: documented as "set to None"
                del self.obj(t[1]).reference
            else:
                self.obj(t[1]).reference = self.obj(t[2])
        elif o == 'settop':
            n = self.obj(t[1])
            n.top_instance = None if t[2] == 'N' else self._at(t[2][1:])
        elif o == 'setname':
            self.obj(t[1]).name = None if t[2] == '~' else name_of_tok(t[2])
        elif o == 'delname':
            del self.obj(t[1]).name
        elif o == 'dset':
            self.obj(t[1])[s_of_tok(t[2])] = val_of_tok(t[3])
        elif o == 'ddel':
            del self.obj(t[1])[s_of_tok(t[2])]
        elif o == 'dpop':
            self.obj(t[1]).pop(s_of_tok(t[2]))
        elif o == 'downto':
            self.obj(t[1]).is_downto = (t[2] == '1')
        elif o == 'scalar':
            if t[3:] == ['array']:   # the same assignment spelled through the inverse attribute
                self.obj(t[1]).is_array = not (t[2] == '1')
            else:
                self.obj(t[1]).is_scalar = (t[2] == '1')
        elif o == 'lower':
            self.obj(t[1]).lower_index = int(t[2])
        elif o == 'direction':
            d = [sdn.UNDEFINED, sdn.INOUT, sdn.IN, sdn.OUT][int(t[2])]
            how = t[3] if len(t) > 3 else 'enum'
            if how == 'int':        # the documented int form (0: UNDEFINED, 1: INOUT, 2: IN, 3: OUT)
                d = int(t[2])
            elif how[:3] == 'str':  # the documented string form, compared case-insensitively with the names
                nm = ['undefined', 'inout', 'in', 'out'][int(t[2])]
                d = {'strl': nm, 'stru': nm.upper(), 'strc': nm.capitalize()}[how]
            self.obj(t[1]).direction = d
        elif o == 'policy':
            sdn.namespace_manager.default = 'EDIF' if t[1] == '1' else 'DEFAULT'
        elif o in ('clone', 'uniquify', 'flatten'):
            try:
                if o == 'clone':
                    if int(t[1]) % 2:
                        from spydrnet.clone import clone as _clone   # the function form of the public API
                        _clone(self.obj(t[1]))
                    else:
                        self.obj(t[1]).clone()
                elif o == 'uniquify':
                    from spydrnet.uniquify import uniquify as _uniquify
                    _uniquify(self.obj(t[1]))
                else:
                    from spydrnet.flatten import flatten as _flatten
                    _flatten(self.obj(t[1]))
            except (AttributeError, TypeError) as e:
                raise XAttr(str(e))
        else:
            raise NotImplementedError(o)

    # ---- canonical dump ----
    def _slist(self, l):
        return '[' + ' '.join(self.tok_id(x) for x in l) + ']'

    def _sdata(self, o):
        return '{' + ' '.join(sorted(tok_of_s(k) + '=' + tok_of_val(o._data[k]) for k in o._data)) + '}'

    def _sns(self, o):
        ns = sdn.namespace_manager.namespaces.get(o)
        if ns is None:
            return '~'
        from spydrnet.plugins.namespace_manager.edif_namespace import EdifNamespace
        items = []
        for cls, tab in ns.namespaces.items():
            k = self._cls_kind(cls)
            for nm, e in tab.items():
                items.append('n:%s:%s=%s' % (k, tok_of_s(nm) if isinstance(nm, str) else '?', self.tok_id(e)))
        if isinstance(ns, EdifNamespace):
            for cls, tab in ns.edif_namespaces.items():
                k = self._cls_kind(cls)
                for nm, e in tab.items():
                    items.append('i:%s:%s=%s' % (k, tok_of_s(nm) if isinstance(nm, str) else '?', self.tok_id(e)))
        return ('E' if isinstance(ns, EdifNamespace) else 'D') + '{' + ' '.join(sorted(items)) + '}'

    def _cls_kind(self, cls):
        for name, c in KINDS:
            if issubclass(cls, c):
                return name
        return '?'

    def dump_obj(self, i):
        o = self.objs[i]
        k = self.kind(o)
        s = '%d:%s' % (i, k)
        b = lambda v: '1' if v else '0'
        if k == 'netlist':
            s += '; libs=%s; top=%s; data=%s; ns=%s' % (self._slist(o.libraries), self.tok_id(o.top_instance), self._sdata(o), self._sns(o))
        elif k == 'library':
            s += '; par=%s; defs=%s; data=%s; ns=%s' % (self.tok_id(o.netlist), self._slist(o.definitions), self._sdata(o), self._sns(o))
        elif k == 'definition':
            s += '; par=%s; ports=%s; cables=%s; children=%s; refs={%s}; data=%s; ns=%s' % (
                self.tok_id(o.library), self._slist(o.ports), self._slist(o.cables), self._slist(o.children),
                ' '.join(sorted(self.tok_id(x) for x in o.references)), self._sdata(o), self._sns(o))
        elif k == 'port':
            s += '; par=%s; pins=%s; dn=%s; sc=%s; rs=%s; lo=%d; dir=%d; data=%s' % (
                self.tok_id(o.definition), self._slist(o.pins), b(o.is_downto), b(o.is_scalar), b(o._is_scalar), o.lower_index,
                o.direction.value, self._sdata(o))
        elif k == 'cable':
            s += '; par=%s; wires=%s; dn=%s; sc=%s; rs=%s; lo=%d; data=%s' % (
                self.tok_id(o.definition), self._slist(o.wires), b(o.is_downto), b(o.is_scalar), b(o._is_scalar), o.lower_index,
                self._sdata(o))
        elif k == 'wire':
            s += '; par=%s; pins=[%s]' % (self.tok_id(o.cable), ' '.join(self.tok_pin(p) for p in o.pins))
        elif k == 'pin':
            s += '; par=%s; wire=%s' % (self.tok_id(o.port), self.tok_id(o.wire))
        elif k == 'instance':
            s += '; par=%s; ref=%s; istop=%s; pins=[%s]; data=%s' % (
                self.tok_id(o.parent), self.tok_id(o.reference), b(o.is_top_instance),
                ' '.join('%s>%s' % (self.tok_id(ip), self.tok_id(op.wire)) for ip, op in o._pins.items()),
                self._sdata(o))
        return s

    def dump(self, outcome):
        n = len(self.objs)
        pol = sdn.namespace_manager.default
        return '%s | ev %s | next=%d pol=%s | %s' % (
            outcome, ' '.join(sorted(self.events)), n, 'E' if pol == 'EDIF' else 'D',
            ' | '.join(self.dump_obj(i) for i in range(n)))
