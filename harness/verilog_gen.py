"""Engine `verilog`: generator of abstract structural-Verilog designs, an INDEPENDENT writer that renders
them to Verilog text (nothing of spydrnet's composer is used) and the designs' meaning as a canonical
description (`expected`, same shape as verilog_world.canon) computed from the abstract design alone:

  each module -> a definition with the declared ports (direction, width, base index 0) and one cable per
  declared or implied net; bit k of every connection expression, counted from its least significant end,
  is joined to bit k of the instance port; an assign of width w joins lhs bit k with rhs bit k through
  pin k of an SDN_VERILOG_ASSIGNMENT_w instance (o = lhs, i = rhs); never-declared modules become
  primitives with ports inferred from the connections; the single root module is the top.

A design is plain JSON data so that replay files can hold it:
  design  = {'modules': [module...]}                       (file order)
  module  = {'name', 'cell': bool, 'style': 'plain'|'ansi', 'params': [[key, value]...], 'attrs': [[k, v|None]...],
             'ports': [{'name','dir','width': int|None, 'decl_type': None|'wire'|'reg', 'attrs': [...]}...], 'body': [item...]}
  item    = {'k':'portdecl','ports':[names...]}             (plain style; same dir/width share a declaration)
          | {'k':'wire','names':[...],'msb','lsb' (both None = scalar),'type':'wire'|'reg','attrs':[...]}
          | {'k':'inst','mod','name','params':[[k,v]...],'pstyle':'hash'|'defparam','attrs':[...],
             'named':bool,'conns':[[port|None, expr]...]}
          | {'k':'assign','lhs':expr,'rhs':expr}
          | {'k':'junk','text': ...}                         (celldefine bodies only: skipped by the reader)
  expr    = None | ['id',net] | ['bit',net,i] | ['part',net,h,l] | ['cat',[expr...]] | ['const',0|1]
"""
import random

SIMPLE = ['a', 'b', 'c', 'd', 'clk', 'rst', 'q', 'A', 'B', 'n1', 'n2', '_t', 'data', 'Q', 'x_y', 'w0', 'sel', 'en',
          'din', 'dout', 'N1', 'zz', 'sum', 'co']
ESCAPED = ['\\a[1]', '\\b.c', '\\w-1', '\\<x>', '\\n/2', '\\q[0]', '\\A+B', '\\m(0)', '\\p,q', '\\e;f', '\\r{1}', '\\u:v']
MODNAMES = ['top', 'core', 'alu', 'M', 'm', 'regs', 'ctl', 'Leaf', 'leaf2', 'sub_a', 'sub_b', '\\blk.1', 'U0', 'pipe']
CELLNAMES = ['LUT2', 'FDRE', 'BUF', 'AND2', 'MUXF', '\\CELL$1', 'IBUF', 'OBUFT']
PRIMNAMES = ['GND', 'VCC', 'INV', 'DFF', 'XOR2', 'RAMB', 'CARRY4']
PNAMES = ['I', 'O', 'D', 'Q', 'C', 'CE', 'I0', 'I1', 'S', 'A', 'DI', 'DO', 'ADDR', 'WE', '\\P[0]', 'CLK', 'R']
DIRS = ['input', 'output', 'inout']
PARAM_VALUES = ["8'hFF", '42', '"str val"', "4'b1010", '1', '"TRUE"', "16'h00A5", '3.5', '-7'.replace('-', '')]
ATTR_ITEMS = [['keep', '"true"'], ['DONT_TOUCH', None], ['src', '"f.v:12"'], ['mark', '1'], ['RLOC', '"X0Y0"'], ['flag', None],
              ['init', "4'h0"], ['ratio', '1.5'], ['bias', '-2']]   # unquoted constants that are not plain unsigned decimals

DEFAULT_FEATURES = {
    'fwd_named_any_order': False,   # D1: first forward named use may list ports in any order / partially
    'late_decl': True, 'negative_index': True, 'escaped': True, 'cells': True, 'prims': True,
    'ansi_inherit': True,      # ANSI header: "input [3:0] a, b" - direction and range stay in force for the names that follow
    'shared_range': True,      # "wire [3:2] x, y;" - the range belongs to every name
    'cell_empty_body': True,   # a `celldefine module with nothing between header and endmodule
    'assign': True, 'params': True, 'attrs': True, 'positional': True, 'multi_assign': True, 'positional_prims': True,
}


def width_of(rng_spec):
    msb, lsb = rng_spec
    return 1 if msb is None else msb - lsb + 1


class Gen:
    def __init__(self, rng, size=2, features=None):
        self.rng = rng
        self.size = size
        self.f = dict(DEFAULT_FEATURES)
        if features:
            self.f.update(features)

    def pick_name(self, used, simple_pool, esc_pool=None):
        r = self.rng
        for _ in range(200):
            if esc_pool and self.f['escaped'] and r.random() < 0.2:
                n = r.choice(esc_pool)
            else:
                n = r.choice(simple_pool)
                if r.random() < 0.35:
                    n = n + str(r.randrange(0, 30))
            if n not in used:
                used.add(n)
                return n
        n = 'g%d' % len(used)
        used.add(n)
        return n

    def attrs(self, p=0.2):
        r = self.rng
        if not self.f['attrs'] or r.random() > p:
            return []
        k = r.randrange(1, 3)
        return [list(x) for x in r.sample(ATTR_ITEMS, k)]

    def params(self, p=0.25):
        r = self.rng
        if not self.f['params'] or r.random() > p:
            return []
        keys = r.sample(['INIT', 'WIDTH', 'MODE', 'IS_C_INVERTED', 'K'], r.randrange(1, 3))
        return [[k, r.choice(PARAM_VALUES)] for k in keys]

    def ports(self, maxp=4, unique_dirs=False):
        r = self.rng
        used = set()
        out = []
        for _ in range(r.randrange(0, maxp + 1)):
            w = r.choice([None, None, None, 1, 2, 3, 4, 5, 8])
            out.append({'name': self.pick_name(used, PNAMES + SIMPLE[:8], ESCAPED), 'dir': r.choice(DIRS), 'width': w,
                        'decl_type': None, 'attrs': []})
        return out

    def ansi_inherit(self, m):
        """ANSI header: some ports have no direction keyword of their own ('inherit_dir': the direction in force is
        theirs) and then sometimes no range of their own either ('inherit_rng': the range in force is theirs)"""
        r = self.rng
        if m['style'] != 'ansi' or not self.f.get('ansi_inherit'):
            return
        force = None
        for p in m['ports']:
            if 'alias' in p:
                continue
            if force is not None and r.random() < 0.35:
                p['inherit_dir'] = True
                p['dir'] = force[0]
                if p['width'] is None or r.random() < 0.5:
                    p['inherit_rng'] = True
                    p['width'] = force[1]
            force = (p['dir'], p['width'])

    def design(self):
        r = self.rng
        f = self.f
        nm = r.randrange(1, 2 + 2 * self.size)
        ncell = r.randrange(0, 3) if f['cells'] else 0
        nprim = r.randrange(0, 3) if f['prims'] else 0
        used = set()
        mods = []
        for i in range(nm):
            mods.append({'name': self.pick_name(used, MODNAMES, None), 'cell': False,
                         'style': r.choice(['plain', 'ansi']),
                         'params': self.mod_params(), 'attrs': self.attrs(0.15),
                         'ports': self.ports(), 'body': []})
        cells = []
        for i in range(ncell):
            cells.append({'name': self.pick_name(used, CELLNAMES, None), 'cell': True,
                          'style': r.choice(['plain', 'ansi']), 'params': [], 'attrs': [],
                          'ports': self.ports(), 'body': []})
        prims = []
        for i in range(nprim):
            pu = set()
            prims.append({'name': self.pick_name(used, PRIMNAMES, None),
                          'ports': [{'name': self.pick_name(pu, PNAMES, None), 'width': r.choice([1, 1, 1, 2, 4])}
                                    for _ in range(r.randrange(1, 4))],
                          'positional': f['positional'] and f['positional_prims'] and r.random() < 0.3})
        for m in mods + cells:
            self.ansi_inherit(m)
        # hierarchy: module i instantiates modules j > i; every j > 0 has a parent i < j  (single root = mods[0])
        children = {i: [] for i in range(nm)}
        for j in range(1, nm):
            for i in r.sample(range(j), r.randrange(1, min(j, 2) + 1)):
                children[i].append(j)
        order = mods + cells
        r.shuffle(order)
        pos = {m['name']: k for k, m in enumerate(order)}
        self.fwd_first_done = set()
        for i, m in enumerate(mods):
            self.fill_body(m, [mods[j] for j in children[i]], cells, prims, pos)
        for c in cells:
            self.fill_cell(c)
        return {'modules': order}

    def mod_params(self):
        r = self.rng
        if not self.f['params'] or r.random() > 0.15:
            return []
        out = []
        for k in r.sample(['W', 'DEPTH', 'INIT'], r.randrange(1, 3)):
            key = k if r.random() < 0.7 else '[3:0] ' + k
            out.append([key, r.choice(["8", "4'h2", '"x"', '16'])])
        return out

    def fill_cell(self, c):
        r = self.rng
        if c['style'] == 'plain':
            for p in c['ports']:
                c['body'].append({'k': 'portdecl', 'ports': [p['name']]})
        if r.random() < 0.4 or (not c['body'] and not self.f.get('cell_empty_body')):
            c['body'].append({'k': 'junk', 'text': r.choice([
                'wire tmp_internal ;', 'and g1 ( o_x , a_x , b_x ) ;', 'reg [3:0] mem_q ;',
                'specify ( a_x => o_x ) = ( 0 , 0 ) ; endspecify'])})

    # ---- expressions -------------------------------------------------------------------------
    def atom(self, nets, w, allow_const=True):
        """a non-concatenation expression of width w over the nets {name: (msb, lsb)}"""
        r = self.rng
        cands = []
        for n, rg in nets.items():
            nw = width_of(rg)
            if nw == w:
                cands.append(('id', n))
            if nw >= w and rg[0] is not None:
                cands.append(('sel', n))
        if w == 1 and allow_const and r.random() < 0.12:
            return ['const', r.randrange(2)]
        if not cands:
            return None
        kind, n = r.choice(cands)
        msb, lsb = nets[n]
        if kind == 'id':
            return ['id', n]
        lo = r.randrange(lsb, msb - w + 2)
        if w == 1:
            return ['bit', n, lo]
        return ['part', n, lo + w - 1, lo]

    def expr(self, nets, implied, w, allow_cat=True, allow_const=True):
        r = self.rng
        if w == 1 and r.random() < 0.12:
            # implied (never declared) scalar net
            n = r.choice(implied)
            return ['id', n]
        if allow_cat and r.random() < (0.3 if w > 1 else 0.05):
            parts = []
            left = w
            while left > 0:
                pw = r.randrange(1, left + 1)
                a = self.atom(nets, pw, allow_const) or self.atom(nets, 1, allow_const)
                if a is None:
                    a = ['id', r.choice(implied)]
                aw = expr_width(a, nets)
                if aw > left:
                    a = ['id', r.choice(implied)]
                    aw = 1
                parts.append(a)
                left -= aw
            return ['cat', parts]
        a = self.atom(nets, w, allow_const)
        if a is None:
            # build from single bits
            parts = []
            for _ in range(w):
                parts.append(self.atom(nets, 1, allow_const) or ['id', r.choice(implied)])
            return parts[0] if w == 1 else ['cat', parts]
        return a

    # ---- module bodies -----------------------------------------------------------------------
    def fill_body(self, m, kids, cells, prims, pos):
        r = self.rng
        f = self.f
        body = []
        used = set(p['name'] for p in m['ports'])
        nets = {}
        for p in m['ports']:
            nets[p['name']] = (None, None) if p['width'] is None else (p['width'] - 1, 0)
        if m['style'] == 'plain':
            for p in m['ports']:
                if r.random() < 0.1:
                    p['decl_type'] = 'wire'
                elif p['dir'] == 'output' and r.random() < 0.1:
                    p['decl_type'] = 'reg'
            names = [p['name'] for p in m['ports']]
            r.shuffle(names)
            # group ports with equal direction and width into one declaration sometimes
            byname = {p['name']: p for p in m['ports']}
            while names:
                n = names.pop()
                grp = [n]
                if r.random() < 0.3:
                    for o in list(names):
                        if (byname[o]['dir'], byname[o]['width'], byname[o]['decl_type']) == \
                                (byname[n]['dir'], byname[n]['width'], byname[n]['decl_type']) and r.random() < 0.7:
                            grp.append(o)
                            names.remove(o)
                body.append({'k': 'portdecl', 'ports': grp})
        # declared wires
        wires = []
        late = []
        for _ in range(r.randrange(0, 3 + 2 * self.size)):
            n = self.pick_name(used, SIMPLE, ESCAPED)
            if wires and wires[-1]['msb'] is not None and f.get('shared_range') and r.random() < 0.2:
                rg = (wires[-1]['msb'], wires[-1]['lsb'])      # likely to share the declaration: "wire [3:2] x, y;"
            elif r.random() < 0.4:
                rg = (None, None)
            else:
                lsb = r.choice([0, 0, 0, 1, 2, 3, 5]) if not (f['negative_index'] and r.random() < 0.08) else r.choice([-1, -2, -3])
                rg = (lsb + r.choice([0, 1, 2, 3, 4, 7]), lsb)
            nets[n] = rg
            item = {'k': 'wire', 'names': [n], 'msb': rg[0], 'lsb': rg[1], 'type': 'wire' if r.random() < 0.85 else 'reg',
                    'attrs': self.attrs(0.15)}
            if f['late_decl'] and rg[0] is not None and r.random() < 0.12:
                late.append(item)
            else:
                # several names in one declaration (only the first one takes the attributes -> none then)
                if wires and not item['attrs'] and not wires[-1]['attrs'] and r.random() < 0.4 and \
                        (item['msb'] is None or f.get('shared_range')) and \
                        (wires[-1]['msb'], wires[-1]['lsb'], wires[-1]['type']) == (item['msb'], item['lsb'], item['type']):
                    wires[-1]['names'].append(n)
                else:
                    wires.append(item)
        late_names = set(n for it in late for n in it['names'])
        implied = [self.pick_name(used, SIMPLE, ESCAPED) for _ in range(2)]
        body += wires
        stmts = []
        inames = set()
        targets = [('mod', k) for k in kids]
        extra = []
        for _ in range(r.randrange(0, 2 + self.size)):
            pool = [('mod', k) for k in kids] + [('cell', c) for c in cells] + [('prim', p) for p in prims]
            if pool:
                extra.append(r.choice(pool))
        for kind, t in targets + extra:
            stmts.append(self.instance(m, kind, t, nets, implied, late_names, inames, pos))
        if f['assign']:
            for _ in range(r.randrange(0, 3)):
                a = self.assign(nets, late_names)
                if a:
                    stmts.append(a)
        r.shuffle(stmts)
        # late declarations go somewhere after the first statement
        for it in late:
            stmts.insert(r.randrange(1, len(stmts) + 1) if stmts else 0, it)
        m['body'] = body + stmts

    def assign(self, nets, late_names):
        r = self.rng
        w = r.choice([1, 1, 1, 2, 3, 4]) if self.f['multi_assign'] else 1
        plain = {n: rg for n, rg in nets.items()}
        lhs = self.atom(plain, w, allow_const=False)
        # now and then the two sides differ in width: the assign joins the low min(widths) bits
        wr = r.choice([1, 2, 3, 5]) if self.f['multi_assign'] and r.random() < 0.15 else w
        rhs = self.atom(plain, wr, allow_const=True) or self.atom(plain, w, allow_const=True)
        if lhs is None or rhs is None:
            return None
        for e in (lhs, rhs):
            if e[0] == 'id' and e[1] in late_names:
                return None
        return {'k': 'assign', 'lhs': lhs, 'rhs': rhs}

    def instance(self, m, kind, t, nets, implied, late_names, inames, pos):
        r = self.rng
        f = self.f
        name = self.pick_name(inames, ['u', 'i', 'inst', 'U', 'r', 'x'], ['\\u[0]', '\\g.h', '\\i<1>'])
        if name in nets:
            name = name + '_i'
        ports = t['ports']
        forward = kind in ('mod', 'cell') and pos[t['name']] > pos[m['name']]
        named = True
        if f['positional'] and r.random() < 0.3:
            named = False
        if kind == 'prim':
            # a never-declared module is used either always by name or always by position; by position every use
            # has the full width (a later, wider positional use is finding V06-positional-undeclared-no-growth)
            named = not t['positional']
        conns = []
        usable = {n: rg for n, rg in nets.items()}

        def conn_expr(pw, allow_empty):
            if allow_empty and r.random() < 0.08:
                return None
            w = pw if r.random() < 0.8 else r.randrange(1, pw + 1)
            e = self.expr(usable, implied, w)
            return fix_late(e, late_names, nets)

        if named:
            plist = list(ports)
            if forward and not f['fwd_named_any_order']:
                # header order: the first forward named use fixes the port order of the black box; a third of the
                # time only a leading part of the ports is listed (the rest stay open in this instance) - a later
                # positional use of the same module still has to reach the ports left out here
                if r.random() < 0.3 and len(plist) > 1:
                    plist = plist[:r.randrange(1, len(plist))]
            else:
                r.shuffle(plist)
                if r.random() < 0.3 and plist:
                    plist = plist[:r.randrange(0, len(plist) + 1)]
            if kind == 'prim' and not plist and ports and r.random() < 0.85:
                plist = [r.choice(ports)]   # (a primitive without any port: kept rare)
            for p in plist:
                pw = p['width'] or 1
                conns.append([p['name'], conn_expr(pw, True)])
        else:
            k = len(ports) if r.random() < 0.75 else r.randrange(0, len(ports) + 1)
            for p in ports[:k]:
                pw = p['width'] or 1
                if kind == 'prim':
                    conns.append([None, fix_late(self.expr(usable, implied, pw), late_names, nets)])
                else:
                    conns.append([None, conn_expr(pw, True)])      # now and then an empty position: "M m(a, , b);"
        prm = self.params(0.3 if kind != 'mod' else 0.1)
        return {'k': 'inst', 'mod': t['name'], 'name': name, 'params': prm,
                'pstyle': 'defparam' if (prm and r.random() < 0.3) else 'hash', 'attrs': self.attrs(0.2),
                'named': named, 'conns': conns}


def fix_late(e, late_names, nets):
    """a net that is declared later in the text may only be used with an explicit select before"""
    if e is None:
        return e
    if e[0] == 'id' and e[1] in late_names:
        msb, lsb = nets[e[1]]
        return ['part', e[1], msb, lsb] if msb != lsb else ['bit', e[1], msb]
    if e[0] == 'cat':
        return ['cat', [fix_late(x, late_names, nets) for x in e[1]]]
    return e


def expr_width(e, nets):
    if e is None:
        return 0
    if e[0] == 'id':
        return width_of(nets[e[1]]) if e[1] in nets else 1
    if e[0] in ('bit', 'const'):
        return 1
    if e[0] == 'part':
        return e[2] - e[3] + 1
    return sum(expr_width(x, nets) for x in e[1])


# ===================================== independent writer ======================================

def vname(n):
    """identifier as written: escaped identifiers end with white space"""
    return n + ' ' if n.startswith('\\') else n


class Writer:
    """Renders a design. Layout (spaces, new lines, comments) is random but token boundaries are always
    unambiguous Verilog: a space after every escaped identifier, no space inside numbers."""

    def __init__(self, rng, noisy=True):
        self.r = rng
        self.noisy = noisy
        self.out = []

    def sp(self):
        if not self.noisy:
            return ' '
        x = self.r.random()
        if x < 0.7:
            return ' '
        if x < 0.8:
            return '\n  '
        if x < 0.86:
            return '  '
        if x < 0.9:
            return '\t'
        if x < 0.95:
            return ' /* c%d */ ' % self.r.randrange(100)
        return ' // note %d\n ' % self.r.randrange(100)

    def opt(self):
        """optional white space between punctuation"""
        if not self.noisy:
            return ''
        return '' if self.r.random() < 0.6 else self.sp()

    def rng_txt(self, msb, lsb):
        if msb is None:
            return ''
        return '[' + self.opt() + str(msb) + self.opt() + ':' + self.opt() + str(lsb) + self.opt() + ']' + self.sp()

    def attrs(self, attrs):
        if not attrs:
            return ''
        items = []
        for k, v in attrs:
            items.append(k if v is None else k + self.opt() + '=' + self.opt() + v)
        return '(*' + self.sp() + (self.opt() + ',' + self.sp()).join(items) + self.sp() + '*)' + self.sp()

    def expr(self, e):
        if e is None:
            return ''
        k = e[0]
        if k == 'id':
            return vname(e[1])
        if k == 'bit':
            return vname(e[1]) + self.opt() + '[' + self.opt() + str(e[2]) + self.opt() + ']'
        if k == 'part':
            return vname(e[1]) + self.opt() + '[' + self.opt() + str(e[2]) + self.opt() + ':' + self.opt() + str(e[3]) + self.opt() + ']'
        if k == 'const':
            return "1'b%d" % e[1]
        if k == 'cat':
            return '{' + self.opt() + (self.opt() + ',' + self.opt()).join(self.expr(x) for x in e[1]) + self.opt() + '}'
        raise ValueError(e)

    def module(self, m):
        o = []
        if m['cell']:
            o.append('`celldefine\n')
        o.append(self.attrs(m['attrs']))
        o.append('module' + self.sp() + vname(m['name']) + self.opt())
        if m['params']:
            o.append('#' + self.opt() + '(' + self.opt())
            o.append((self.opt() + ',' + self.sp()).join('parameter' + self.sp() + k + self.sp() + '=' + self.sp() + v for k, v in m['params']))
            o.append(self.opt() + ')' + self.sp())
        o.append('(' + self.opt())
        hp = []
        byname = {p['name']: p for p in m['ports']}
        for p in m['ports']:
            if 'alias' in p:
                hp.append('.' + self.opt() + vname(p['name']) + self.opt() + '(' + self.opt() + self.expr(p['alias']) + self.opt() + ')')
            elif m['style'] == 'ansi':
                w = p['width']
                # 'inherit_dir': no direction keyword of its own (takes the previous port's); 'decl_type': net type
                hp.append(('' if p.get('inherit_dir') else p['dir'] + self.sp()) +
                          ((p['decl_type'] + self.sp()) if p.get('decl_type') else '') +
                          ('' if p.get('inherit_rng') else self.rng_txt(None if w is None else w - 1, None if w is None else 0)) + vname(p['name']))
            else:
                hp.append(vname(p['name']))
        o.append((self.opt() + ',' + self.sp()).join(hp))
        o.append(self.opt() + ')' + self.opt() + ';\n')
        deferred = []
        for it in m['body']:
            k = it['k']
            if k == 'portdecl':
                p0 = portdecl_view(it, byname)
                o.append('  ' + self.attrs(p0.get('attrs') or []) + p0['dir'] + self.sp() + ((p0['decl_type'] + self.sp()) if p0.get('decl_type') else '') +
                         self.rng_txt(p0['msb'], p0['lsb']) +
                         (self.opt() + ',' + self.sp()).join(vname(n) for n in it['ports']) + self.opt() + ';\n')
            elif k == 'defparam':
                o.append('  defparam' + self.sp() + vname(it['inst']) + self.opt() + '.' + it['key'] + self.sp() + '=' + self.sp() + it['value'] + self.opt() + ';\n')
            elif k == 'wire':
                o.append('  ' + self.attrs(it['attrs']) + it['type'] + self.sp() + self.rng_txt(it['msb'], it['lsb']) +
                         (self.opt() + ',' + self.sp()).join(vname(n) for n in it['names']) + self.opt() + ';\n')
            elif k == 'assign':
                o.append('  assign' + self.sp() + self.expr(it['lhs']) + self.opt() + '=' + self.opt() + self.expr(it['rhs']) + self.opt() + ';\n')
            elif k == 'junk':
                o.append('  ' + it['text'] + '\n')
            elif k == 'inst':
                s = '  ' + self.attrs(it['attrs']) + vname(it['mod']) + self.sp()
                if it['params'] and it['pstyle'] == 'hash':
                    s += '#' + self.opt() + '(' + self.opt() + (self.opt() + ',' + self.sp()).join(
                        '.' + k2 + self.opt() + '(' + self.opt() + v + self.opt() + ')' for k2, v in it['params']) + self.opt() + ')' + self.sp()
                s += vname(it['name']) + self.opt() + '(' + self.opt()
                cs = []
                for pn, e in it['conns']:
                    if it['named']:
                        cs.append('.' + self.opt() + vname(pn) + self.opt() + '(' + self.opt() + self.expr(e) + self.opt() + ')')
                    else:
                        cs.append(self.expr(e))
                s += (self.opt() + ',' + self.sp()).join(cs) + self.opt() + ')' + self.opt() + ';\n'
                o.append(s)
                if it['params'] and it['pstyle'] == 'defparam':
                    for k2, v in it['params']:
                        o.append('  defparam' + self.sp() + vname(it['name']) + self.opt() + '.' + k2 + self.sp() + '=' + self.sp() + v + self.opt() + ';\n')
            else:
                raise ValueError(k)
        o.append('endmodule\n')
        if m['cell']:
            o.append('`endcelldefine\n')
        return ''.join(o)

    def render(self, design):
        parts = []
        if self.noisy and self.r.random() < 0.5:
            parts.append('// generated by the verif harness (independent writer)\n')
        if self.noisy and self.r.random() < 0.2:
            parts.append('/* block\n comment */\n')
        for m in design['modules']:
            parts.append(self.module(m))
            if self.noisy and self.r.random() < 0.3:
                parts.append('\n// ----\n')
        return ''.join(parts)


def portdecl_view(it, byname):
    """direction / net type / range / attributes of a port declaration item: those of its first port, unless the item
    carries its own ('dir', 'decl_type', 'msb', 'lsb', 'attrs': only the wild designs of verilog_wild.py do)"""
    p0 = byname.get(it['ports'][0]) or {'dir': 'input', 'width': None}
    w = p0.get('width')
    out = {'dir': it.get('dir', p0.get('dir')), 'decl_type': it.get('decl_type', p0.get('decl_type')),
           'msb': None if w is None else w - 1, 'lsb': None if w is None else 0, 'attrs': it.get('attrs', p0.get('attrs') or [])}
    if 'msb' in it:
        out['msb'], out['lsb'] = it['msb'], it['lsb']
    return out


def render(design, rng, noisy=True):
    return Writer(rng, noisy).render(design)


# ===================================== meaning of a design =====================================

DIRMAP = {'input': 'in', 'output': 'out', 'inout': 'inout', None: 'undefined'}


def bits_of(e, nets):
    """the net bits of an expression, LEAST significant first, as 'cable[idx]' labels"""
    if e is None:
        return []
    k = e[0]
    if k == 'id':
        msb, lsb = nets[e[1]]
        if msb is None:
            return ['%s[0]' % e[1]]
        return ['%s[%d]' % (e[1], i) for i in range(lsb, msb + 1)]
    if k == 'bit':
        return ['%s[%d]' % (e[1], e[2])]
    if k == 'part':
        return ['%s[%d]' % (e[1], i) for i in range(e[3], e[2] + 1)]
    if k == 'const':
        return ['\\<const%d>[0]' % e[1]]
    out = []
    for x in reversed(e[1]):
        out += bits_of(x, nets)
    return out


def names_in(e):
    if e is None:
        return []
    if e[0] in ('id', 'bit', 'part'):
        return [e[1]]
    if e[0] == 'const':
        return ['\\<const%d>' % e[1]]
    out = []
    for x in e[1]:
        out += names_in(x)
    return out


def root_modules(design):
    declared = {m['name']: m for m in design['modules']}
    inst = set()
    for m in design['modules']:
        if m['cell']:
            continue
        for it in m['body']:
            if it['k'] == 'inst':
                inst.add(it['mod'])
    return [m['name'] for m in design['modules'] if not m['cell'] and m['name'] not in inst]


def expected(design):
    declared = {m['name']: m for m in design['modules']}
    defs = {}
    prim_ports = {}     # undeclared module name -> ordered list [label, width]
    prim_order = []

    def strip(n):
        return n.strip()

    for m in design['modules']:
        d = {'lib': 'hdi_primitives' if m['cell'] else 'work'}
        d['ports'] = [[p['name'], DIRMAP[p['dir']], p['width'] or 1, 0] for p in m['ports']]
        d['port_attrs'] = {p['name']: {k: v for k, v in p['attrs']} for p in m['ports'] if p.get('attrs')}
        nets = {}
        cables = {}
        cable_attrs = {}
        for p in m['ports']:
            nets[p['name']] = (None, None) if p['width'] is None else (p['width'] - 1, 0)
            cables[p['name']] = [p['width'] or 1, 0, p.get('decl_type') or 'wire']
        netmap = {}

        def join(label, ep):
            netmap.setdefault(label, []).append(ep)

        for p in m['ports']:
            for k in range(p['width'] or 1):
                join('%s[%d]' % (p['name'], k), 'P:%s[%d]' % (p['name'], k))
        insts = {}
        assigns = []
        if not m['cell']:
            for it in m['body']:
                if it['k'] == 'wire':
                    for i, n in enumerate(it['names']):
                        nets[n] = (it['msb'], it['lsb'])
                        cables[n] = [width_of((it['msb'], it['lsb'])), it['lsb'] if it['lsb'] is not None else 0, it['type']]
                        if it['attrs'] and i == 0:
                            cable_attrs[n] = {k: v for k, v in it['attrs']}

            def touch(e):
                for n in names_in(e):
                    if n not in nets:
                        nets[n] = (None, None)      # implied scalar net (or constant)
                        cables[n] = [1, 0, 'wire']

            for it in m['body']:
                if it['k'] == 'assign':
                    touch(it['lhs'])
                    touch(it['rhs'])
                    lb, rb = bits_of(it['lhs'], nets), bits_of(it['rhs'], nets)
                    w = min(len(lb), len(rb))
                    assigns.append([w, [[lb[k], rb[k]] for k in range(w)]])
                elif it['k'] == 'inst':
                    params = {}
                    for k, v in it['params']:
                        params.setdefault(k, v)
                    insts[it['name']] = {'ref': it['mod'], 'params': params, 'attrs': {k: v for k, v in it['attrs']}}
                    tgt = declared.get(it['mod'])
                    if tgt is None and it['mod'] not in prim_ports:
                        prim_ports[it['mod']] = []
                        prim_order.append(it['mod'])
                    for idx, (pn, e) in enumerate(it['conns']):
                        touch(e)
                        bits = bits_of(e, nets)
                        if tgt is not None:
                            label = pn if it['named'] else tgt['ports'][idx]['name']
                        else:
                            label = pn if it['named'] else '~%d' % idx
                            pl = prim_ports[it['mod']]
                            ent = next((x for x in pl if x[0] == label), None)
                            if ent is None:
                                ent = [label, 1]
                                pl.append(ent)
                            ent[1] = max(ent[1], len(bits), 1)
                        for k, b in enumerate(bits):
                            join(b, 'I:%s.%s[%d]' % (it['name'], label, k))
        d['cables'] = cables
        d['cable_attrs'] = cable_attrs
        d['insts'] = insts
        d['nets'] = {k: sorted(v) for k, v in netmap.items()}
        d['assigns'] = sorted(assigns, key=lambda a: (a[0], str(a[1])))
        d['params'] = {k: v for k, v in m['params']}
        d['attrs'] = {k: v for k, v in m['attrs']}
        d['primitive'] = False
        defs[m['name']] = d
    for n in prim_order:
        defs[n] = {'lib': 'hdi_primitives', 'ports': [[l, 'undefined', w, 0] for l, w in prim_ports[n]], 'port_attrs': {},
                   'cables': {}, 'cable_attrs': {}, 'insts': {}, 'nets': {}, 'assigns': [], 'params': {}, 'attrs': {},
                   'primitive': True}
    roots = root_modules(design)
    return {'top': roots[0] if len(roots) == 1 else None, 'defs': defs}


def features_of(design):
    """what a design contains (for the evidence histogram)"""
    c = {}

    def inc(k, n=1):
        c[k] = c.get(k, 0) + n

    declared = {m['name']: i for i, m in enumerate(design['modules'])}
    for mi, m in enumerate(design['modules']):
        inc('cell_modules' if m['cell'] else 'modules')
        inc('style_' + m['style'])
        if m['params']:
            inc('module_params')
        if m['attrs']:
            inc('module_attrs')
        if m['style'] == 'ansi':
            inc('ansi_port_inherits_direction', sum(1 for p in m['ports'] if p.get('inherit_dir')))
            inc('ansi_port_inherits_range', sum(1 for p in m['ports'] if p.get('inherit_rng') and p.get('width') is not None))
        if m['cell'] and not m['body']:
            inc('cell_empty_body')
        for it in m['body']:
            k = it['k']
            if k == 'wire' and it['msb'] is not None and len(it['names']) > 1:
                inc('wire_decl_shared_range')
            if k == 'inst':
                inc('instances')
                inc('map_named' if it['named'] else 'map_positional')
                if it['mod'] not in declared:
                    inc('inst_of_undeclared')
                elif declared[it['mod']] > mi:
                    inc('inst_forward_reference')
                if it['params']:
                    inc('inst_params_' + it['pstyle'])
                if it['attrs']:
                    inc('inst_attrs')
                for pn, e in it['conns']:
                    inc('expr_' + ('empty' if e is None else e[0]))
            elif k == 'assign':
                inc('assign')
            elif k == 'wire':
                inc('wire_decl')
                if it['lsb'] not in (None, 0):
                    inc('wire_nonzero_base')
                if it['lsb'] is not None and it['lsb'] < 0:
                    inc('wire_negative_base')
    return c
