"""C15 - Rejected input fails cleanly and leaves no process-wide residue.

Theorems (Props/C15.v) are about the parse() wrappers as transitions on the naming policy. The tie
to the code and the runtime residue (termination of the real recursive-descent loops, nothing
half-built handed back, undeclared EDIF references rejected) are checked here on the
implementation: every reader is fed valid files and single corruptions of them (truncation at a
token boundary, deletion / duplication / replacement of a token, dangling references) under a
per-input timeout; the policy before/after each call is compared with the model's answer
(restored), everything returned is checked for well-formedness, and a fixed probe script must
behave after rejections exactly as it did in the fresh process."""
import io, json, os, random, re, signal, sys, tempfile, time, zipfile, collections, shutil
sys.path.insert(0, os.path.dirname(os.path.abspath(__file__)))
import common
common.ensure_impl_python()
import spydrnet as sdn
import elab, ir_oracles
from ir_world import World

EX = os.path.join(common.REPO, 'example_netlists')
DIRS = {'edif': ('EDIF_netlists', '.edf'), 'verilog': ('verilog_netlists', '.v'), 'eblif': ('eblif_netlists', '.eblif')}

TINY = {
    'edif': '''(edif top (edifVersion 2 0 0) (edifLevel 0) (keywordMap (keywordLevel 0))
 (library prims (edifLevel 0) (technology (numberDefinition))
  (cell BUF (cellType GENERIC) (view netlist (viewType NETLIST) (interface (port I (direction INPUT)) (port O (direction OUTPUT))))))
 (library work (edifLevel 0) (technology (numberDefinition))
  (cell mid (cellType GENERIC) (view netlist (viewType NETLIST) (interface (port m (direction INPUT)) (port I (direction INPUT)))
   (contents (instance x9 (viewRef netlist (cellRef BUF (libraryRef prims))))
    (net m (joined (portRef m) (portRef I (instanceRef x9)))))))
  (cell top (cellType GENERIC) (view netlist (viewType NETLIST)
   (interface (port a (direction INPUT)) (port (array (rename b "b[1:0]") 2) (direction OUTPUT)))
   (contents (instance u1 (viewRef netlist (cellRef BUF (libraryRef prims))) (property INIT (string "00112233445566778899AABBCCDDEEFF00112233445566778899aabbccddeeff")))
    (instance u3 (viewRef netlist (cellRef mid (libraryRef work))))
    (instance u4 (viewRef netlist (cellRef mid)))
    (instance (rename u2 "u[2]") (viewRef netlist (cellRef BUF (libraryRef prims))))
    (net a (joined (portRef a) (portRef I (instanceRef u1)) (portRef I (instanceRef u2))))
    (net (rename b_0_ "b[0]") (joined (portRef (member b 1)) (portRef O (instanceRef u1))))
    (net (rename b_1_ "b[1]") (joined (portRef (member b 0)) (portRef O (instanceRef u2))))))))
 (design top (cellRef top (libraryRef work)) (property part (string "xc7a35t")))
 (library late (edifLevel 0) (technology (numberDefinition))
  (cell PAD (cellType GENERIC) (view netlist (viewType NETLIST) (interface (port P (direction INOUT)))))))
''',
    'verilog': '''// tiny
module leaf(input a, output [1:0] y);
endmodule
(* keep = "true" *)
module top(a, b, c);
  input a;
  input [3:0] b;
  output [1:0] c;
  wire [1:0] w;
  wire n1;
  leaf #(.P(2)) u1 (.a(a), .y(w));
  leaf u2 (.a(b[2]), .y({n1, c[0]}));
  assign c[1] = w[0];
  prim u3 (.i(1'b0), .o(w[1]));
endmodule
''',
    'eblif': '''# tiny
.model top
.inputs a b[0] b[1] clk
.outputs y
.names a b[0] n1
11 1
.subckt AND2 A=n1 B=b[1] \\
 O=n2
.cname inst_and
.attr keep true
.latch n2 y re clk 0
.conn a unused
.end

.model AND2
.inputs A B
.outputs O
.blackbox
.end
''',
}

TOKEN_RE = re.compile(r'\s+|"[^"\n]*"|\(\*|\*\)|[()\[\]{};,#@=]|[^\s()\[\]{};,#@="]+')


def tokens(text):
    return TOKEN_RE.findall(text)


CHAIN_V = '''module X(input i);
endmodule
module D(input i);
endmodule
module A(input i);
  B b(.i(i));
endmodule
module B(input i);
  D a(.i(i));
  C c(.i(i));
endmodule
module C(input i);
  X x(.i(i));
endmodule
'''


def sources(fmt, n_files, max_bytes):
    """(name, text) of the n smallest bundled examples of a format (+ the tiny hand-written one)"""
    out = [('tiny.' + fmt, TINY[fmt])]
    if fmt == 'verilog':
        out.append(('tiny.chain.v', CHAIN_V))      # modules listed bottom-up except one: name swaps make instancing cycles
    d, ext = DIRS[fmt]
    cands = []
    for fn in os.listdir(os.path.join(EX, d)):
        p = os.path.join(EX, d, fn)
        if fn.endswith('.zip') and os.path.getsize(p) > 0:
            cands.append((os.path.getsize(p), fn))
    for _, fn in sorted(cands):
        if len(out) > n_files:
            break
        try:
            with zipfile.ZipFile(os.path.join(EX, d, fn)) as z:
                name = z.namelist()[0]
                data = z.read(name)
        except Exception:
            continue
        if len(data) > max_bytes:
            continue
        try:
            out.append((fn[:-4], data.decode('utf-8', 'replace')))
        except Exception:
            pass
    return out


APPENDED = ['garbage', ')', '(', '()', '"s"', '0', '(comment "after the end")', '(design d (cellRef c (libraryRef l)))', '"unterminated']
REF_WORDS = ('cellRef', 'libraryRef', 'portRef', 'instanceRef', 'viewRef')


def corrupt(rng, fmt, text, kind=None):
    toks = tokens(text)
    idx = [i for i, t in enumerate(toks) if not t.isspace()]
    if not idx:
        return text, 'empty', -1
    kind = kind or rng.choice(['truncate', 'truncate', 'delete', 'duplicate', 'replace', 'garbage', 'dangling', 'cross'])
    k = rng.choice(idx)
    if kind == 'truncate':
        return ''.join(toks[:k]), kind, k
    if kind == 'delete':
        return ''.join(toks[:k] + toks[k + 1:]), kind, k
    if kind == 'duplicate':
        return ''.join(toks[:k + 1] + [' ', toks[k]] + toks[k + 1:]), kind, k
    if kind == 'replace':
        return ''.join(toks[:k] + [toks[rng.choice(idx)]] + toks[k + 1:]), kind, k
    if kind == 'garbage':
        if fmt == 'edif' and rng.random() < 0.15:
            # tokens after the last parenthesis of a complete file
            return text.rstrip() + ' ' + rng.choice(APPENDED), 'append', len(toks)
        return ''.join(toks[:k] + [rng.choice(['zz_nosuch', '(', ')', '"', ';', '.end', 'endmodule', '[', '123', '\\'])] + toks[k + 1:]), kind, k
    if kind == 'cross' and fmt == 'edif':
        cr = cross_refs(toks, idx)
        if cr:
            r, j, m = rng.choice(cr)
            return ''.join(toks[:j] + [m] + toks[j + 1:]), 'cross:' + toks[r], j
        kind = 'dangling'
    if kind == 'dangling':
        if fmt == 'edif':
            refs = [i for i in idx if toks[i] in REF_WORDS or toks[i] == 'member']
            if refs:
                r = rng.choice(refs)
                j = next((x for x in idx if x > r and toks[x] not in '()'), None)
                if j is not None:
                    return ''.join(toks[:j] + ['zz_undeclared_9'] + toks[j + 1:]), 'dangling:' + toks[r], j
        words = [i for i in idx if re.match(r'^[A-Za-z_][\w$]*$', toks[i])]
        if words:
            j = rng.choice(words)
            return ''.join(toks[:j] + ['zz_undeclared_9'] + toks[j + 1:]), 'dangling:any', j
    return ''.join(toks[:k]), 'truncate', k


DECL_OF = {'instanceRef': 'instance', 'portRef': 'port', 'cellRef': 'cell', 'libraryRef': 'library', 'viewRef': 'view'}


def cross_refs(toks, idx):
    """(ref position, name position, other declared name of the kind the reference asks for)"""
    decl = collections.defaultdict(list)
    for a, i in enumerate(idx):
        if toks[i] in DECL_OF.values() and a and toks[idx[a - 1]] == '(':
            rest = [x for x in idx[a + 1:a + 5]]
            if rest and toks[rest[0]] == '(' and len(rest) > 2 and toks[rest[1]] in ('rename', 'array'):
                nm = toks[rest[2]] if toks[rest[2]] != '(' else (toks[rest[4 - 1]] if len(rest) > 3 else None)
                if toks[rest[2]] == '(' and len(idx) > a + 5:   # (array (rename x "..") n)
                    nm = toks[idx[a + 5]]
            elif rest:
                nm = toks[rest[0]]
            else:
                nm = None
            if nm and nm not in '()' and nm not in decl[toks[i]]:
                decl[toks[i]].append(nm)
    out = []
    for r in idx:
        if toks[r] in DECL_OF:
            j = next((x for x in idx if x > r and toks[x] not in '()'), None)
            if j is None or toks[j] == 'member':
                continue
            for m in decl[DECL_OF[toks[r]]]:
                if m.lower() != toks[j].lower():
                    out.append((r, j, m))
    return out


def exhaustive(fmt, text):
    """every single truncation, deletion and (EDIF) dangling reference of a small file"""
    toks = tokens(text)
    idx = [i for i, t in enumerate(toks) if not t.isspace()]
    out = []
    for k in idx:
        out.append((''.join(toks[:k]), 'truncate', k))
        out.append((''.join(toks[:k] + toks[k + 1:]), 'delete', k))
        out.append((''.join(toks[:k + 1] + [' ', toks[k]] + toks[k + 1:]), 'duplicate', k))
    # damage inside a quoted string: the file ends in the middle of it / a character outside the accepted set
    for k in idx:
        t = toks[k]
        if len(t) > 3 and t[0] == '"' and t[-1] == '"':
            cut = len(t) - 2
            out.append((''.join(toks[:k]) + t[:cut], 'truncate-in-string', k))
            out.append((''.join(toks[:k] + [t[:cut] + '\u00e9' + t[cut:]] + toks[k + 1:]), 'garbage-in-string', k))
    if fmt == 'verilog':
        # an instantiated module name re-spelled as every other module the file declares: the hierarchy may then
        # contain modules that instantiate each other - the reader has to come back
        mods = [toks[idx[a + 1]] for a, i in enumerate(idx[:-1]) if toks[i] == 'module']
        for a, i in enumerate(idx):
            if toks[i] in mods and a and toks[idx[a - 1]] != 'module':
                for mname in mods:
                    if mname != toks[i]:
                        out.append((''.join(toks[:i] + [mname] + toks[i + 1:]), 'cross:module', i))
    if fmt == 'edif':
        for a in APPENDED:
            out.append((text.rstrip() + ' ' + a, 'append', len(toks)))
        # duplication of a whole parenthesised construct (instance, net, port, cell, property ...)
        for k in idx:
            if toks[k] == '(':
                depth, j = 0, k
                while j < len(toks):
                    if toks[j] == '(':
                        depth += 1
                    elif toks[j] == ')':
                        depth -= 1
                        if depth == 0:
                            break
                    j += 1
                if j < len(toks) and j - k < 120:
                    out.append((''.join(toks[:j + 1] + [' '] + toks[k:j + 1] + toks[j + 1:]), 'duplicate-construct', k))
        for r in idx:
            if toks[r] in REF_WORDS or toks[r] == 'member':
                j = next((x for x in idx if x > r and toks[x] not in '()'), None)
                if j is not None:
                    out.append((''.join(toks[:j] + ['zz_undeclared_9'] + toks[j + 1:]), 'dangling:' + toks[r], j))
        # a reference re-spelled as a name that IS declared, but for another object of that kind (an instance of a
        # different cell, a port of a different cell, a cell of a different library ...): the reader either resolves
        # it in the scope the reference stands in or rejects it - what it hands back must be well formed either way
        for r, j, m in cross_refs(toks, idx):
            out.append((''.join(toks[:j] + [m] + toks[j + 1:]), 'cross:' + toks[r], j))
        idents = set(t.lower() for t in toks)
        shown = sorted(set(m for m in re.findall(r'\(rename\s+\S+\s+"([^"\s()]+)"\)', text) if m.lower() not in idents))
        for r in idx:
            if toks[r] in REF_WORDS:
                j = next((x for x in idx if x > r and toks[x] not in '()'), None)
                if j is not None:
                    for m in shown:
                        out.append((''.join(toks[:j] + [m] + toks[j + 1:]), 'dangling:' + toks[r], j))
    return out


class Timeout(Exception):
    pass


def _alarm(signum, frame):
    raise Timeout()


def parse_text(fmt, text, tmpdir, timeout, start_pol=None):
    """returns (outcome, netlist-or-None, world). outcome in returned / raised:<Type> / timeout"""
    ext = DIRS[fmt][1]
    path = os.path.join(tmpdir, 'in' + ext)
    with open(path, 'w') as f:
        f.write(text)
    w = World(listen=False)
    if start_pol is not None:
        sdn.namespace_manager.default = start_pol
    signal.signal(signal.SIGALRM, _alarm)
    signal.setitimer(signal.ITIMER_REAL, timeout)
    try:
        n = sdn.parse(path)
        out = 'returned'
    except Timeout:
        n, out = None, 'timeout'
    except RecursionError:
        n, out = None, 'raised:RecursionError'
    except BaseException as e:  # noqa - StopIteration, SystemExit... are all "raised"
        if isinstance(e, KeyboardInterrupt):
            raise
        n, out = None, 'raised:' + type(e).__name__
    finally:
        signal.setitimer(signal.ITIMER_REAL, 0)
    return out, n, w


def wf_returned(n, w):
    bad = []
    if not isinstance(n, sdn.ir.Netlist):
        return ['parse returned %r' % type(n).__name__]
    bad += elab.wf_netlist(n)[:3]
    # a reader builds the netlist from nothing: an instance that references one of its cells without being placed
    # in the netlist (child of a cell or top instance) is a leftover of a refused construct - half-built
    placed = set()
    if n.top_instance is not None:
        placed.add(id(n.top_instance))
    for lib in n.libraries:
        for d in lib.definitions:
            placed.update(id(c) for c in d.children)
    for lib in n.libraries:
        for d in lib.definitions:
            for r in d.references:
                if id(r) not in placed:
                    bad.append('definition %r is referenced by an instance %r that is not part of the returned netlist' % (d.name, r.name))
                    break
    if len(w.objs) < 4000:
        bad += ir_oracles.inv1(w)[:2] + ir_oracles.inv2(w)[:2]
    return bad


def probe(baseline_texts, tmpdir):
    """a fixed script: create, name, refuse a duplicate, parse a good file of each format"""
    out = []
    n = sdn.Netlist(name='probe')
    lib = n.create_library(name='work')
    d = lib.create_definition(name='d')
    d.create_port(name='p', pins=2)
    try:
        lib.create_definition(name='d')
        out.append('dup-accepted')
    except ValueError:
        out.append('dup-refused')
    try:
        d['EDIF.identifier'] = 'a-b'
        out.append('illegal-identifier-accepted-under-' + str(d.get('.NS')))
    except ValueError:
        out.append('illegal-identifier-refused')
    out.append('ns=' + str(n.get('.NS')))
    for fmt, text in baseline_texts:
        o, nl, w = parse_text(fmt, text, tmpdir, 30)
        try:
            if o != 'returned':
                out.append('%s:%s' % (fmt, o))
            else:
                e = elab.elaborate(nl)
                out.append('%s:%d:%d:%d' % (fmt, len(e['tree']), len(e['leaves']), len(e['nets'])))
        finally:
            w.close()
    return out


def known_match(known, fmt, kind, what):
    for k in known:
        if k.get('status') != 'open':
            continue
        sigs = k.get('signature')
        sigs = sigs if isinstance(sigs, list) else [sigs]
        for sgn in sigs:
            parts = sgn.split('|')
            if len(parts) == 3 and parts[0] in (fmt, '*') and (parts[1] == '*' or kind.startswith(parts[1])) and parts[2] in what:
                return k
    return None


BUDGET = {'quick': dict(files=4, max_bytes=60000, per_file=120, timeout=8), 'thorough': dict(files=40, max_bytes=400000, per_file=160, timeout=30)}


def run(prop, tier, seed, replay):
    t0 = time.time()
    rep = common.Reporter(prop)
    tmpdir = tempfile.mkdtemp(prefix='verif_c15_')
    try:
        if replay:
            obj = json.load(open(replay))
            o, n, w = parse_text(obj['format'], obj['text'], tmpdir, 60)
            bad = wf_returned(n, w) if o == 'returned' else []
            w.close()
            print(json.dumps({'outcome': o, 'wf_failures': bad, 'policy_after': sdn.namespace_manager.default}, indent=1))
            if o == 'timeout' or bad or (obj.get('must_raise') and o == 'returned'):
                print('VIOLATION property=%s replay=%s' % (prop, replay))
                return 1
            return 0
        ok, log = common.build_if_needed()
        proof = common.check_props_file(prop)
        if not ok or not proof['ok']:
            rep.violation('proof', {'kind': 'proof-obligation', 'theorem_file': 'coq/theories/Props/%s.v' % prop,
                                    'build_ok': ok, 'log': log[-1500:], 'coqc_output': proof['assumptions'][-1500:]}, found_input=False)
        B = BUDGET[tier]
        known = common.load_known_findings(prop)
        rng = random.Random('%d/C15' % seed)
        hist = collections.Counter()
        known_hits = collections.Counter()
        samples = []
        total = 0
        distinct = set()
        reported = 0
        baseline_texts = [(f, TINY[f]) for f in ('edif', 'verilog', 'eblif')]
        sdn.namespace_manager.default = 'DEFAULT'
        probe0 = probe(baseline_texts, tmpdir)

        def fail(name, fmt, text, kind, what, must_raise=False, found=True):
            nonlocal reported
            k = known_match(known, fmt, kind, what)
            if k is not None:
                known_hits[k['id']] += 1
                return
            if reported < 6:
                reported += 1
                rep.violation(name, {'kind': 'property-violation-on-implementation', 'format': fmt, 'corruption': kind,
                                     'what': what, 'must_raise': must_raise, 'text': text}, found_input=found)

        # inputs that are rejected before the first token is read: a path that does not exist, a directory, an empty
        # file, a zip archive whose member has another name - under both start policies, for every reader
        for fmt in ('edif', 'verilog', 'eblif'):
            ext = DIRS[fmt][1]
            base = os.path.join(tmpdir, 'unreadable')
            os.makedirs(base, exist_ok=True)
            inputs = [('missing', os.path.join(base, 'nosuch' + ext))]
            dpath = os.path.join(base, 'adir' + ext)
            os.makedirs(dpath, exist_ok=True)
            inputs.append(('directory', dpath))
            epath = os.path.join(base, 'empty' + ext)
            open(epath, 'w').close()
            inputs.append(('empty', epath))
            zpath = os.path.join(base, 'arch' + ext + '.zip')
            with zipfile.ZipFile(zpath, 'w') as z:
                z.writestr('other_name.txt', TINY[fmt])
            inputs.append(('zip-other-member', zpath))
            zplain = os.path.join(base, 'plainzip' + ext)
            shutil.copy(zpath, zplain)
            inputs.append(('zip-bytes-under-plain-name', zplain))
            # ... and the other ways into parse(): a well-formed single-member archive (the member is extracted and read),
            # a name whose extension no reader is registered for, and the `architecture` argument (a primitive library
            # read by a second, nested Verilog parse after the first one; EBLIF then re-derives its instance names)
            zgood = os.path.join(base, 'good' + ext + '.zip')
            with zipfile.ZipFile(zgood, 'w') as z:
                z.writestr('good' + ext, TINY[fmt])
            inputs.append(('zip-valid-member', zgood))
            upath = os.path.join(base, 'design' + ext + '.txt')
            open(upath, 'w').write(TINY[fmt])
            inputs.append(('unknown-extension', upath))
            gpath = os.path.join(base, 'good' + ext)
            open(gpath, 'w').write(TINY[fmt])
            arch = os.path.join(common.REPO, 'spydrnet', 'support_files', 'architecture_libraries', 'yosys_internal_cells.v.zip')
            if fmt != 'edif' and os.path.exists(arch):
                inputs.append(('with-architecture', gpath, {'architecture': arch}))
                inputs.append(('with-missing-architecture', gpath, {'architecture': os.path.join(base, 'nosuch_arch.v')}))
            for what, path, *kw in inputs:
                kw = kw[0] if kw else {}
                for start_pol in ('DEFAULT', 'EDIF'):
                    total += 1
                    sdn.namespace_manager.default = start_pol
                    signal.signal(signal.SIGALRM, _alarm)
                    signal.setitimer(signal.ITIMER_REAL, B['timeout'])
                    try:
                        sdn.parse(path, **kw)
                        out = 'returned'
                    except Timeout:
                        out = 'timeout'
                    except BaseException as e:  # noqa
                        if isinstance(e, KeyboardInterrupt):
                            raise
                        out = 'raised:' + type(e).__name__
                    finally:
                        signal.setitimer(signal.ITIMER_REAL, 0)
                    hist['%s/unreadable-%s/%s' % (fmt, what, out.split(':')[0])] += 1
                    after = sdn.namespace_manager.default
                    if after != start_pol:
                        fail('%s-unreadable-%s-policy' % (fmt, what), fmt, path, 'unreadable:' + what,
                             'naming policy was %s before the call and %s after (%s)' % (start_pol, after, out))
                    if out == 'timeout':
                        fail('%s-unreadable-%s-hang' % (fmt, what), fmt, path, 'unreadable:' + what, 'reader did not terminate')
        sdn.namespace_manager.default = 'DEFAULT'
        edif_tie = []
        for fmt in ('edif', 'verilog', 'eblif'):
            for name, text in sources(fmt, B['files'], B['max_bytes']):
                cases = [(text, 'valid', -1)]
                if name.startswith('tiny.'):
                    cases += exhaustive(fmt, text)
                for _ in range(B['per_file']):
                    cases.append(corrupt(rng, fmt, text))
                for ctext, kind, k in cases:
                    total += 1
                    distinct.add(common.sha(ctext))
                    start_pol = rng.choice(['DEFAULT', 'EDIF'])
                    out, n, w = parse_text(fmt, ctext, tmpdir, B['timeout'], start_pol)
                    if fmt == 'edif' and len(ctext) < 20000 and len(edif_tie) < B.get('tie', 1500):
                        edif_tie.append((ctext, out, name, kind, k))
                    try:
                        hist['%s/%s/%s' % (fmt, kind.split(':')[0], out.split(':')[0])] += 1
                        after = sdn.namespace_manager.default
                        tag = '%s-%s-%s-%d' % (fmt, name, kind.replace(':', '_'), k)
                        # model: parse_call restores the policy for every outcome (Props/C15.v)
                        if after != start_pol:
                            fail(tag + '-policy', fmt, ctext, kind, 'naming policy was %s before the call and %s after (%s)' % (start_pol, after, out))
                        if out == 'timeout':
                            fail(tag + '-hang', fmt, ctext, kind, 'reader did not terminate within %ss' % B['timeout'])
                        elif out == 'returned':
                            bad = wf_returned(n, w)
                            if bad:
                                fail(tag + '-wf', fmt, ctext, kind, 'returned a netlist that is not well-formed: ' + '; '.join(bad[:2]))
                            if kind.startswith('dangling:') and kind != 'dangling:any' and fmt == 'edif':
                                fail(tag + '-dangling', fmt, ctext, kind, 'accepted-undeclared-reference after %s' % kind.split(':')[1], must_raise=True)
                            if kind == 'append' and fmt == 'edif':
                                fail(tag + '-append', fmt, ctext, kind, 'accepted-trailing-tokens: tokens follow the last parenthesis of the file and it was read as a netlist', must_raise=True)
                            if kind in ('truncate', 'truncate-in-string') and fmt == 'edif':
                                # every source ends with its last ")": a text cut before any of its tokens lacks at least that one
                                # (model side: Props/C15.v C15_edif_truncated_rejected)
                                fail(tag + '-truncated', fmt, ctext, kind, 'accepted-truncated-text: the file lacks its last tokens and was read as a netlist', must_raise=True)
                        if kind == 'valid' and out != 'returned':
                            fail(tag + '-valid', fmt, ctext, kind, 'valid file rejected: ' + out)
                        if len(samples) < 4 and kind != 'valid' and total % 37 == 0:
                            samples.append({'format': fmt, 'source': name, 'corruption': kind, 'token': k, 'outcome': out})
                    finally:
                        w.close()
                    if total % 60 == 0:
                        sdn.namespace_manager.default = 'DEFAULT'
                        p1 = probe(baseline_texts, tmpdir)
                        if p1 != probe0:
                            fail('probe-%d' % total, fmt, ctext, kind, 'probe script behaves differently after rejections: %s vs fresh %s' % (p1, probe0))
        # the EDIF theorems of Props/C15.v (every text the model accepts gives a well-formed netlist; the model is a
        # total function, so it terminates on every text) are tied to the code here: the whole-file reader model
        # Fmt/EdifFile.v (extracted) judges the very texts the real reader was given - accept/reject must agree
        # (texts the model declares outside its subset are counted, not compared)
        tie = {'cases': 0, 'compared': 0, 'unsupported': 0, 'disagreements': 0}
        if edif_tie:
            try:
                import edif_file as ef
                models = ef.run_model([c[0] for c in edif_tie])
            except Exception as e:  # noqa
                models = None
                rep.violation('edif-tie-crash', {'kind': 'correspondence-broken', 'what': 'the EDIF whole-file model could not be run: %r' % e}, found_input=False)
            tie_reported = 0
            for (ctext, out, name, kind, k), mres in zip(edif_tie, models or []):
                tie['cases'] += 1
                if mres[0] == 'err' and mres[1] == 'unsupported':
                    tie['unsupported'] += 1
                    continue
                tie['compared'] += 1
                m_acc, i_acc = mres[0] == 'ok', out == 'returned'
                if out != 'timeout' and m_acc != i_acc:
                    what = 'EDIF reader model and implementation disagree: model %s, reader %s' % ('accepts' if m_acc else 'rejects (%s)' % mres[1], out)
                    if known_match(known, 'edif', kind, what) is not None:
                        known_hits[known_match(known, 'edif', kind, what)['id']] += 1
                        continue
                    tie['disagreements'] += 1
                    if tie_reported < 3:
                        tie_reported += 1
                        rep.violation('edif-tie-%s-%s-%d' % (name, kind.replace(':', '_'), k),
                                      {'kind': 'correspondence-broken', 'format': 'edif', 'corruption': kind, 'what': what,
                                       'theorems': 'Props/C15.v: C15_edif_wf_or_error, C15_edif_truncated_rejected, C15_edif_trailing_rejected (model Fmt/EdifFile.v)', 'text': ctext}, found_input=False)
        sdn.namespace_manager.default = 'DEFAULT'
        p1 = probe(baseline_texts, tmpdir)
        if p1 != probe0:
            fail('probe-final', 'edif', '', 'probe', 'probe script behaves differently at the end: %s vs fresh %s' % (p1, probe0))
        for kid, cnt in known_hits.items():
            k = [x for x in known if x['id'] == kid][0]
            rep.known_finding('%s: %s (%d cases this run)' % (kid, k.get('what'), cnt))
        wall = time.time() - t0
        theorems = proof['theorems']
        coverage = {
            'obligations': len(theorems), 'discharged': len(theorems) if (ok and proof['ok']) else 0,
            'checker_cmd': 'cd /verif && tools/build.sh && ' + proof['cmd'],
            'trusted_base': ['Coq 8.16.1 kernel; Print Assumptions: ' + ('Closed under the global context' if 'Axioms' not in proof['assumptions'] else 'see print_assumptions'),
                             'the model Fmt/Policy.v covers the policy save/restore wrapper of the three readers (reader bodies are arbitrary computations in those theorems); the EDIF reader body is modelled whole-file by Fmt/EdifFile.v (hand-written, extracted, tied to sdn.parse on the corrupted texts of this run and - with full structural comparison - in the C05 check)',
                             'harness/policy_check.py (corruption generator, SIGALRM timeout, well-formedness checkers harness/elab.py and ir_oracles.py)'],
            'theorems': theorems, 'print_assumptions': proof['assumptions'][-2000:],
            'programs': total, 'disagreements_checked': total,
            'evaluations': total, 'distinct_nontrivial': len(distinct),
            'rule': 'valid bundled/hand-written files of the three formats and single corruptions of them (truncate at a token, delete/duplicate/replace a token, garbage token, tokens appended after the end (EDIF), dangling reference); distinct by hash of the text; every case is non-trivial (>= 1 token)',
            'samples': samples or [{'note': 'none sampled'}],
            'format_corruption_outcome_histogram': dict(sorted(hist.items())),
            'edif_whole_file_tie': tie,
            'probe_script_fresh': probe0, 'known_finding_hits': dict(known_hits), 'exhaustive': False,
        }
        common.write_evidence(prop, tier, seed, coverage, wall, len(rep.violations),
                              ['termination and "nothing half-built" are checked on the implementation only (runtime residue; no theorem)',
                               'character-level tokenisation of Verilog/EBLIF is not modelled'])
        print('%s %s: %d inputs, outcomes %s, EDIF reader model tie %d compared / %d disagreements, %d known-finding cases, proof %s (%d theorems), %.1fs' % (
            prop, tier, total, dict(collections.Counter(k.split('/')[-1] for k in hist.elements())), tie['compared'], tie['disagreements'], sum(known_hits.values()),
            'ok' if (ok and proof['ok']) else 'BROKEN', len(theorems), wall))
        return rep.exit_code()
    finally:
        shutil.rmtree(tmpdir, ignore_errors=True)
        sdn.namespace_manager.default = 'DEFAULT'
