"""Engine `names` (C17): generators of sibling lists and of netlist specs. All randomness comes
from the random.Random handed in by the caller."""
import itertools

ALPHABET = ['a', 'A', 'b', '1', '_', '-', '[', ']', '/', '\\', ' ', '$', '&']
SMALL = ['a', 'A', '1', '_', '-', '&', '[', ' ']
TINY = ['a', 'A', 'b', '1', '_', '-']
EXTRA = ['B', 'z', 'Z', '0', '9', '.', ':', '<', '>', '(', ')', '%', ';', '*', '+', '~', '#', '@', '!', '?', ',', "'", '`', '^', '|', '{', '}', '=']
SDN_FORMS = ['a', 'A', 'a_sdn_1_', 'A_sdn_1_', 'a_sdn_2_', 'a_sdn_01_', 'a_sdn_9_', 'a_sdn_10_', 'a_sdn_', 'a_sdn_1', 'a-sdn-1-', 'a_sdn_1__sdn_1_']


def short_names(alphabet, maxlen):
    out = []
    for n in range(1, maxlen + 1):
        out += [''.join(t) for t in itertools.product(alphabet, repeat=n)]
    return out


def exhaustive_cases(tier):
    """sibling lists [(name, pre-identifier or None, rename flag)], exhaustive over small spaces"""
    cases = []
    two = short_names(ALPHABET, 2)
    if tier == 'quick':
        base = short_names(SMALL, 2)                       # 72 names -> 5184 ordered pairs
        for a in base:
            for b in base:
                cases.append(('pairs<=2/8', [(a, None, False), (b, None, False)]))
        for a in two:                                      # full alphabet: every name alone and against its own lower/upper/sanitised twin
            cases.append(('single<=2/13', [(a, None, False)]))
    else:
        for a in two:                                      # 182^2 = 33124 ordered pairs
            for b in two:
                cases.append(('pairs<=2/13', [(a, None, False), (b, None, False)]))
        base3 = short_names(SMALL, 3)                      # 584 names; pairs with every 1..2-letter name
        base2 = short_names(SMALL, 2)
        for a in base3:
            for b in base2:
                cases.append(('pairs3x2/8', [(a, None, False), (b, None, False)]))
                cases.append(('pairs2x3/8', [(b, None, False), (a, None, False)]))
    one = short_names(TINY, 1)
    t2 = short_names(TINY, 2 if tier != 'quick' else 1) if tier != 'quick' else one
    for a in (short_names(TINY, 2) if tier != 'quick' else short_names(['a', 'A', '-', '_'], 2)):
        for b in t2:
            for c in t2:
                cases.append(('triples/6', [(a, None, False), (b, None, False), (c, None, False)]))
    # pre-existing x_sdn_N_ names and pre-assigned identifiers
    pre_opts = [None, 'a', 'A', 'a_sdn_1_', 'A_sdn_2_']
    forms = SDN_FORMS if tier != 'quick' else SDN_FORMS[:8]
    for a in forms:
        for b in forms:
            for pb in pre_opts:
                cases.append(('sdn-forms', [(a, None, False), (b, pb, False)]))
                cases.append(('sdn-forms', [(b, pb, False), (a, None, False)]))
                for c in forms[:4]:
                    cases.append(('sdn-forms3', [(a, None, False), (b, pb, False), (c, None, False)]))
    return cases


def rand_name(rng, maxlen=300):
    """a random long name; lengths concentrate around the 255/256 boundary"""
    mode = rng.random()
    if mode < 0.45:
        n = rng.choice([248, 249, 250, 251, 252, 253, 254, 255, 256, 257, 258, 262, 263, 264, 300])
    elif mode < 0.75:
        n = rng.randint(1, maxlen)
    else:
        n = rng.randint(1, 12)
    style = rng.random()
    if style < 0.3:
        alpha = ['a']
    elif style < 0.5:
        alpha = ['a', 'A']
    elif style < 0.8:
        alpha = ALPHABET
    else:
        alpha = ALPHABET + EXTRA
    s = ''.join(rng.choice(alpha) for _ in range(n))
    r = rng.random()
    if r < 0.25:                                           # pre-existing suffix, possibly long / with leading zeros
        digits = rng.choice(['1', '2', '9', '99', '007', '10', str(rng.randint(0, 10 ** rng.randint(1, 12)))])
        suffix = '_sdn_%s_' % digits
        s = s[:max(0, n - len(suffix))] + suffix
    elif r < 0.30:
        s = s[:max(0, n - 1)] + '\n'                       # `$` of the suffix pattern also matches before a final newline
    elif r < 0.33:
        s = s[:max(0, n - 9)] + '_sdn_12_\n'
    if rng.random() < 0.15 and s:
        s = rng.choice(['1', '_', '&', '-', ' ']) + s[1:]
    return s or 'a'


def giant_suffix_name(rng):
    """names ending in _sdn_<240..300 digits>_ : the slice bound 256 - len(suffix) reaches zero and below"""
    nd = rng.choice([243, 244, 248, 249, 250, 251, 252, 260, 290])
    d = ''.join(rng.choice('0123456789') for _ in range(nd))
    if rng.random() < 0.5:
        d = '9' * nd
    return rng.choice(['a', 'A', 'ab', '1', '']) + ('x' * rng.choice([0, 0, 1, 5])) + '_sdn_' + d + '_'


def random_case(rng):
    """a sibling list with related long names: shared prefixes, case twins, sanitised twins, truncation twins"""
    k = rng.choice([1, 2, 2, 3, 3, 4, 6])
    base = rand_name(rng)
    sibs = []
    for j in range(k):
        r = rng.random()
        if j == 0 or r < 0.2:
            nm = rand_name(rng) if j else base
        elif r < 0.35:
            nm = base
        elif r < 0.5:
            nm = base.swapcase() if rng.random() < 0.5 else base.lower()
        elif r < 0.65:
            nm = ''.join('_' if (not c.isalnum() and rng.random() < 0.7) else c for c in base)
        elif r < 0.8:
            nm = base + rng.choice(['x', '_sdn_1_', '_sdn_2_', 'X' * 10, '-'])
        elif r < 0.9:
            nm = base[:256]
        else:
            nm = (base.lower()[:249] + '_sdn_%d_' % rng.randint(1, 3))
        pre = None
        p = rng.random()
        if p < 0.08:
            pre = rng.choice([nm.lower(), nm, nm.upper(), 'x', base.lower() + '_sdn_1_', base[:249].lower() + '_sdn_1_'])
        sibs.append((nm, pre, False))
    if rng.random() < 0.02:
        sibs[rng.randrange(len(sibs))] = (giant_suffix_name(rng), None, False)
    if rng.random() < 0.01:
        sibs[rng.randrange(len(sibs))] = ('', None, False)  # IndexError in the code, `index` in the model
    return sibs


def dedup(names):
    seen = set()
    out = []
    for n in names:
        if n not in seen:
            seen.add(n)
            out.append(n)
    return out


E2E_ALPHABET = ['a', 'A', 'b', 'B', '1', '_', '-', '[', ']', '/', '\\', ' ', '$', '&', '.', ':', '%', '(', ')', ';', '<', '*']


BENIGN_ALPHABET = ['a', 'b', 'c', '1', '0', '_', '-', '[', ']', '/', '\\', ' ', '$', '&', '.', ':', '%', '(', ')', ';', '<', '*', '+', '~', "'", '"']


def e2e_name(rng, pool, benign=False):
    """benign = inside the part of the name space where C17 is expected to HOLD on the current code:
    no upper-case letters, short enough that nothing is cut; still adversarial (sanitised twins,
    pre-existing x_sdn_N_ forms, leading digits / symbols, double quotes and percent signs - written
    as %34% and %37% -, a trailing open bracket)"""
    alpha = BENIGN_ALPHABET if benign else E2E_ALPHABET
    r = rng.random()
    if pool and r < 0.45:
        b = rng.choice(pool)
        t = rng.random()
        if t < 0.3:
            return b if benign else b.swapcase()
        if t < 0.45:
            return b.lower()
        if t < 0.6:
            return ''.join('_' if not c.isalnum() else c for c in b)
        if t < 0.75:
            return b + rng.choice(['_sdn_1_', '_sdn_2_', '-', '_'])
        if t < 0.85:
            return b.lower() + '_sdn_1_'
        return b[:-1] + rng.choice(alpha) if len(b) > 1 else b + 'x'
    if r < 0.55:
        n = rng.choice([100, 200, 230, 236]) if benign else rng.choice([250, 254, 255, 256, 257, 300])
        head = rng.choice(['a', '1', '_'] if benign else ['a', 'A', '1', '_'])
        return head + ''.join(rng.choice(['a', 'b', '_', '-'] if benign else ['a', 'b', 'A', '_', '-']) for _ in range(n - 1))
    if r < 0.60:                                           # double quotes, percent groups, a trailing open bracket
        s = ''.join(rng.choice(alpha + ['"', '"', '%']) for _ in range(rng.randint(1, 6)))
        return s + rng.choice(['', '', '"', '%34%', '%37%', '%3 4%', '[', '[1', '"['])
    return ''.join(rng.choice(alpha) for _ in range(rng.randint(1, 6)))


def e2e_scope(rng, k, benign=False):
    pool = []
    for _ in range(k):
        pool.append(e2e_name(rng, pool, benign))
    return dedup(pool)


def e2e_spec(rng, benign=None):
    """a small netlist whose every scope carries adversarial names (unique per scope, as the default
    naming policy requires). 60 % of the netlists are `benign` (see e2e_name): there the whole
    round trip must succeed; the rest reaches the known defects."""
    if benign is None:
        benign = rng.random() < 0.6
    libs = []
    lib_names = e2e_scope(rng, rng.randint(2, 3), benign)
    if len(lib_names) < 2:
        lib_names.append(lib_names[0] + 'x')
    for li, ln in enumerate(lib_names):
        defs = []
        for dn in e2e_scope(rng, rng.randint(1, 3), benign):
            cables = [[c, 1 if rng.random() < 0.8 else rng.randint(2, 3)] for c in e2e_scope(rng, rng.randint(0, 4), benign)]
            # next to a multi-wire cable: a one-wire cable named like the identifier of one of its bits
            for c, nw in list(cables):
                if nw > 1 and rng.random() < 0.4:
                    twin = ''.join(ch if ch.isalnum() else '_' for ch in c)[:250] + '_%d_' % rng.randint(0, nw)
                    twin = rng.choice([twin, twin.lower(), twin + '_sdn_1_'])
                    if twin not in [x for x, _ in cables]:
                        cables.insert(rng.randrange(len(cables) + 1), [twin, 1])
            ports = e2e_scope(rng, rng.randint(0, 3), benign)
            defs.append({'name': dn, 'ports': ports, 'cables': cables,
                         'insts': e2e_scope(rng, rng.randint(0, 4), benign)})
            if rng.random() < 0.5:
                # the identifiers are also what the file uses to REFER to a port: array ports ((array nameDef n), members
                # addressed as (member id k)), every direction the format knows, and the ports' own pins joined to the
                # nets of the cell (portref id / portref (member id k)), next to the (portref .. (instanceref ..)) of the
                # instances. width 1 with array=True is the one-pin array port.
                defs[-1]['widths'] = [rng.choice([1, 1, 2, 3]) for _ in ports]
                defs[-1]['arrays'] = [w > 1 or rng.random() < 0.2 for w in defs[-1]['widths']]
                defs[-1]['dirs'] = [rng.choice(['in', 'out', 'inout']) for _ in ports]
                defs[-1]['join_ports'] = rng.random() < 0.7
        libs.append({'name': ln, 'defs': defs})
    return {'netlist': e2e_name(rng, [], benign), 'top': e2e_name(rng, [], benign), 'libs': libs, 'benign': benign}
