"""Generators of the `hier` engine: hierarchical netlists as `ir` op histories (replayable on the
implementation through ir_world.World.apply and on the model through driver_hier), and
path-breaking edits.

Two families:
  * netgen.build (shared with the other engines): sparse wiring, leaf cells without contents;
  * build_dense (here): every level is wired densely so that nets span several levels - nets that
    touch only instance pins, only ports, both, or nothing; pass-through and wire-only cells;
    shared definitions reached by several paths; unconnected pins on both sides; bus ports/cables
    with non-zero lower_index; unnamed elements.
All randomness comes from the rng handed in."""
import netgen


def build_dense(rng, depth=3, unnamed_rate=0.1, wire_rate=0.85, passthrough_rate=0.3, top_as_child=False,
                unreferenced_child=False, outside_library=False, second_netlist=False):
    """unreferenced_child: instances without a reference sit in the top cell and in some cells further down;
    outside_library: some instantiated cells are in no library (created on their own and never added, or taken out
    of their library after the design is built); second_netlist: another netlist whose top cell instantiates cells
    of the first one (elements of those cells then occur below two top instances)"""
    b = netgen.Builder()
    info = {'defs': {}, 'layers': [], 'ports': {}, 'cables': {}, 'children': {}, 'lib_of': {}, 'outside': []}
    from ir_world import tok_of_s as _tok

    def new_definition(lib, name, may_be_homeless=True):
        if outside_library and may_be_homeless and rng.random() < 0.3:
            d = b._alloc('definition')          # sdn.Definition(): in no library, ever
            b.ops.append(['new', 'definition', _tok(name), '0'])
            info['outside'].append(d)
            return d
        d = b.definition(lib, name)
        info['lib_of'][d] = lib
        return d

    def nm(prefix, k):
        if rng.random() < unnamed_rate:
            return None
        return '%s%d' % (prefix, k)

    n = b.netlist('net')
    libs = [b.library(n, 'work')]
    if rng.random() < 0.5:
        libs.insert(0, b.library(n, 'prims'))
    info['netlist'] = n
    info['libs'] = libs

    layer0 = []
    for k in range(rng.randint(1, 3)):
        d = new_definition(libs[0], 'LEAF%d' % k)
        ports = []
        for j in range(rng.randint(1, 3)):
            width = rng.choice([1, 1, 1, 2, 3])
            lower = rng.choice([None, 0, 1, 5]) if width > 1 else None
            p, pins = b.port(d, nm('p', j), width, direction=rng.choice([1, 2, 2, 3]), lower=lower)
            if width == 1 and rng.random() < 0.15:
                b.ops.append(['scalar', str(p), '0'])  # one-bit array port: name carries [index]
                if rng.random() < 0.5:
                    b.ops.append(['lower', str(p), str(rng.choice([0, 3, -2]))])
            ports.append((p, pins))
        info['ports'][d] = ports
        info['children'][d] = []
        cables = []
        if rng.random() < 0.55:
            # a leaf with contents but no children: its port pins are wired inside (feed-through
            # pairs, single stubs), so that nets cross the lowest boundary as well
            pins = [pin for _, pp in ports for pin in pp if rng.random() < 0.8]
            rng.shuffle(pins)
            j = 0
            while pins:
                k = 2 if (len(pins) >= 2 and rng.random() < 0.4) else 1
                grp, pins = pins[:k], pins[k:]
                c, wires = b.cable(d, nm('lc', j), 1)
                j += 1
                cables.append((c, wires))
                for pin in grp:
                    b.connect_inner(wires[0], pin)
        info['cables'][d] = cables
        layer0.append(d)
    info['layers'].append(layer0)

    lower_defs = list(layer0)
    k_def = 0
    for layer in range(1, depth + 1):
        this = []
        count = 1 if layer == depth else rng.randint(1, 2)
        for _ in range(count):
            d = new_definition(rng.choice(libs), 'M%d_%d' % (layer, k_def), may_be_homeless=(layer != depth or rng.random() < 0.1))
            k_def += 1
            ports = []
            for j in range(rng.randint(0 if layer == depth else 1, 3)):
                width = rng.choice([1, 1, 2])
                p, pins = b.port(d, nm('q', j), width, direction=rng.choice([2, 3, 1]),
                                 lower=rng.choice([None, 2]) if width > 1 else None)
                ports.append((p, pins))
            kids = []
            wire_only = rng.random() < 0.1 and layer != depth
            for j in range(0 if wire_only else rng.randint(1, 4)):
                pool = info['layers'][layer - 1] if rng.random() < 0.65 else lower_defs
                ref = rng.choice(pool)
                x = b.child(d, nm('u', j), ref)
                kids.append((x, ref))
            if unreferenced_child and (layer == depth or rng.random() < 0.4):
                b.child(d, nm('z', 0), None)   # an instance without a reference (black hole)
            inner = [pin for _, pins in ports for pin in pins]
            outer = [(x, pin) for x, ref in kids for _, pins in info['ports'][ref] for pin in pins]
            rng.shuffle(inner)
            rng.shuffle(outer)
            cables = []
            nets = []
            # pass-through nets tie two port pins (possibly with instance pins as well)
            while len(inner) >= 2 and rng.random() < passthrough_rate:
                nets.append(([inner.pop(), inner.pop()], []))
            # the remaining endpoints are grouped into nets of 1..4 endpoints; some stay unconnected
            ends = [('i', p) for p in inner if rng.random() < wire_rate] + [('o', q) for q in outer if rng.random() < wire_rate]
            rng.shuffle(ends)
            while ends:
                k = rng.randint(1, 4)
                grp, ends = ends[:k], ends[k:]
                nets.append(([p for t, p in grp if t == 'i'], [q for t, q in grp if t == 'o']))
            if rng.random() < 0.3:
                nets.append(([], []))  # a wire attached to nothing
            rng.shuffle(nets)
            j = 0
            while nets:
                width = min(len(nets), rng.choice([1, 1, 1, 2, 3]))
                c, wires = b.cable(d, nm('c', j), width, lower=rng.choice([None, 0, 2]) if width > 1 else None)
                if width == 1 and rng.random() < 0.1:
                    b.ops.append(['scalar', str(c), '0'])
                j += 1
                cables.append((c, wires))
                for w in wires:
                    ins, outs = nets.pop()
                    for pin in ins:
                        b.connect_inner(w, pin)
                    for x, pin in outs:
                        b.connect_outer(w, x, pin, stored=rng.random() < 0.5)
            info['ports'][d] = ports
            info['children'][d] = kids
            info['cables'][d] = cables
            this.append(d)
        info['layers'].append(this)
        lower_defs += this
    top_def = info['layers'][-1][0]
    info['top_def'] = top_def
    if top_as_child:
        # the top instance is a child of a wrapper definition that is not part of the design, and
        # its pins are wired there (the wrapper's wires must never show up in an answer)
        wrap = b.definition(libs[-1], 'WRAP')
        t = b.child(wrap, 'wrapped_top', top_def)
        other = b.child(wrap, 'beside', rng.choice(info['layers'][0]))
        pins = [(t, pin) for _, pp in info['ports'][top_def] for pin in pp]
        c, wires = b.cable(wrap, 'wc', max(1, len(pins)))
        for w, (x, pin) in zip(wires, pins):
            b.connect_outer(w, x, pin, stored=True)
        b.top_instance(n, t)
    else:
        t = b.top_from_definition(n, top_def)
        if rng.random() < 0.9:
            b.name(t, 'top')
    info['top'] = t
    info['all_defs'] = lower_defs
    if outside_library:
        # ... and one or two cells leave their library after the design is built (rarely the top cell: then no
        # reference at all is valid)
        housed = [d for d in lower_defs if d in info['lib_of'] and (d != top_def or rng.random() < 0.1)]
        for d in rng.sample(housed, min(len(housed), rng.randint(1, 2))):
            b.ops.append(['remove', 'defs', str(info['lib_of'].pop(d)), str(d)])
            info['outside'].append(d)
    if second_netlist:
        n2 = b.netlist('net2')
        l2 = b.library(n2, 'work2')
        d2 = b.definition(l2, 'TOP2')
        for j in range(rng.randint(1, 3)):
            b.child(d2, nm('x', j), rng.choice(lower_defs))
        if unreferenced_child and rng.random() < 0.5:
            b.child(d2, nm('z', 9), None)
        t2 = b.top_from_definition(n2, d2)
        info['netlist2'] = n2
    info['next'] = b.next
    return b.ops, info


def build(rng, kind=None, depth=None):
    """(ops, info, label)"""
    kind = kind or rng.choice(['dense', 'dense', 'dense', 'sparse'])
    depth = depth or rng.choice([1, 2, 2, 3, 3, 3, 4])
    if kind == 'dense':
        tac = rng.random() < 0.08
        unref = rng.random() < 0.2
        homeless = rng.random() < 0.2
        second = rng.random() < 0.1
        ops, info = build_dense(rng, depth=depth, unnamed_rate=rng.choice([0.0, 0.1, 0.4]), top_as_child=tac,
                                unreferenced_child=unref, outside_library=homeless, second_netlist=second)
        if tac:
            kind = 'dense+top-as-child'
        if unref:
            kind += '+unreferenced-instance'
        if homeless:
            kind += '+cell-outside-library'
        if second:
            kind += '+second-netlist'
    else:
        ops, info = netgen.build(rng, depth=depth, unnamed_rate=rng.choice([0.0, 0.2]))
        info['next'] = None
    return ops, info, '%s/d%d' % (kind, depth)


# ------------------------------------------------------------------ path-breaking edits
def edits(rng, w, info, k=3):
    """k edit ops chosen on the built implementation world `w` (so that they are applicable):
    remove a child, re-point a reference to a definition of the same shape, remove a port,
    remove a cable, remove a wire or pin, move the top, rename. Returns op token lists."""
    import spydrnet as sdn
    out = []
    defs = [i for i, o in enumerate(w.objs) if isinstance(o, sdn.ir.Definition)]

    def idx(o):
        return w.index[id(o)]
    # directed first edit (a third of the time): a cell with at least two levels of hierarchy below it gets one
    # more instance somewhere under the top - every element two or more levels further down gains occurrences
    # while the reference sets next to it stay as they were
    if rng.random() < 0.35:
        tall = [w.objs[i] for i in defs if any(c.reference is not None and c.reference.children for c in w.objs[i].children)]
        nl = w.objs[info['netlist']]
        topd = nl.top_instance.reference if nl.top_instance is not None else None
        if tall and topd is not None:
            P = rng.choice(tall)
            hosts = [w.objs[i] for i in defs if w.objs[i] is not P and _reaches(topd, w.objs[i]) and not _reaches(P, w.objs[i])]
            if hosts:
                from ir_world import tok_of_s
                out.append(['create', 'children', str(idx(rng.choice(hosts))), tok_of_s('g%d' % rng.randint(0, 99)), '0', '0', str(idx(P))])
    for _ in range(k):
        kind = rng.choice(['rmchild', 'rmchild', 'setref', 'setref', 'rmport', 'rmcable', 'rmwire', 'rmpin',
                           'unref', 'unref', 'rmdef', 'settop', 'rename', 'addchild', 'addchild', 'badsetref', 'badsetref'])
        d = w.objs[rng.choice(defs)]
        if kind == 'rmchild' and d.children:
            c = rng.choice(list(d.children))
            out.append(['remove', 'children', str(idx(d)), str(idx(c))])
        elif kind == 'setref':
            cands = [w.objs[i] for i in defs if w.objs[i].children]
            if not cands:
                continue
            c = rng.choice(list(rng.choice(cands).children))
            same = [w.objs[i] for i in defs if w.objs[i] is not c.reference and c.reference is not None
                    and [len(p.pins) for p in w.objs[i].ports] == [len(p.pins) for p in c.reference.ports]
                    and not _reaches(w.objs[i], c.parent)]
            if same:
                out.append(['setref', str(idx(c)), str(idx(rng.choice(same)))])
        elif kind == 'badsetref':
            # a re-pointing that is refused (the new cell has another port shape): nothing may change, every
            # reference keeps its validity
            cands = [c for i in defs for c in w.objs[i].children if c.reference is not None]
            if cands:
                c = rng.choice(cands)
                other = [w.objs[i] for i in defs if [len(p.pins) for p in w.objs[i].ports] != [len(p.pins) for p in c.reference.ports]]
                if other:
                    out.append(['setref', str(idx(c)), str(idx(rng.choice(other)))])
        elif kind == 'unref':
            cands = [c for i in defs for c in w.objs[i].children]
            if cands:
                out.append(['setref', str(idx(rng.choice(cands))), '~'])
        elif kind == 'rmdef':
            # the cell leaves its library (it stays instantiated): its elements keep their occurrences
            if d.library is not None:
                out.append(['remove', 'defs', str(idx(d.library)), str(idx(d))])
        elif kind == 'rmport' and d.ports:
            out.append(['remove', 'ports', str(idx(d)), str(idx(rng.choice(list(d.ports))))])
        elif kind == 'rmcable' and d.cables:
            out.append(['remove', 'cables', str(idx(d)), str(idx(rng.choice(list(d.cables))))])
        elif kind == 'rmwire' and d.cables:
            c = rng.choice(list(d.cables))
            if c.wires:
                out.append(['remove', 'wires', str(idx(c)), str(idx(rng.choice(list(c.wires))))])
        elif kind == 'rmpin' and d.ports:
            p = rng.choice(list(d.ports))
            if p.pins:
                out.append(['remove', 'pins', str(idx(p)), str(idx(rng.choice(list(p.pins))))])
        elif kind == 'settop':
            n = info['netlist']
            r = rng.random()
            if r < 0.3:
                out.append(['settop', str(n), 'N'])
            elif r < 0.7:
                out.append(['settop', str(n), 'D%d' % idx(d)])
            else:
                cands = [c for i in defs for c in w.objs[i].children if c.reference is not None]
                if cands:
                    out.append(['settop', str(n), 'I%d' % idx(rng.choice(cands))])
        elif kind == 'rename':
            cands = [c for i in defs for c in list(w.objs[i].children) + list(w.objs[i].cables) + list(w.objs[i].ports)]
            if cands:
                from ir_world import tok_of_s
                out.append(['setname', str(idx(rng.choice(cands))), tok_of_s('r%d' % rng.randint(0, 9))])
        elif kind == 'addchild':
            lower = [w.objs[i] for i in defs if w.objs[i] is not d and not _reaches(w.objs[i], d)]
            # half of the time the new instance instantiates a cell with at least two levels below it: every
            # element further down then has more occurrences although no reference set near it changed
            tall = [x for x in lower if any(c.reference is not None and c.reference.children for c in x.children)]
            if tall and rng.random() < 0.5:
                lower = tall
            if lower:
                from ir_world import tok_of_s
                out.append(['create', 'children', str(idx(d)), tok_of_s('n%d' % rng.randint(0, 99)), '0', '0', str(idx(rng.choice(lower)))])
    # directed renames (six cases in ten): an instance (preferably a hierarchical one: it is on the path of
    # everything below it), a cable or a port somewhere below the top gets another name, the name None, or loses
    # its name entry - references obtained before stay valid and must report the new name
    if rng.random() < 0.6:
        from ir_world import tok_of_s
        nl = w.objs[info['netlist']]
        topd = nl.top_instance.reference if nl.top_instance is not None else None
        below = [w.objs[i] for i in defs if topd is not None and (w.objs[i] is topd or _reaches(topd, w.objs[i]))]
        insts = [c for dd in below for c in dd.children]
        hier = [c for c in insts if c.reference is not None and (c.reference.children or c.reference.cables or c.reference.ports)]
        others = [x for dd in below for x in list(dd.cables) + list(dd.ports)]
        for _ in range(rng.randint(1, 2)):
            pool = hier if hier and rng.random() < 0.6 else (insts + others)
            if not pool:
                break
            e = rng.choice(pool)
            r = rng.random()
            if r < 0.6:
                out.append(['setname', str(idx(e)), tok_of_s('rn%d' % rng.randint(0, 99))])
            elif r < 0.8:
                out.append(['setname', str(idx(e)), '~'])
            else:
                out.append(['delname', str(idx(e))])
    # directed last edit (one case in eight): the library that holds the top cell is taken out of the netlist and
    # put into a new, empty netlist (which has no top instance): every reference obtained before is rooted at an
    # instance that is no longer the top instance of the netlist its cell lives in
    if rng.random() < 0.125:
        nl = w.objs[info['netlist']]
        t = nl.top_instance
        lib = t.reference.library if t is not None and t.reference is not None else None
        if lib is not None and lib.netlist is nl:
            created = sum(1 for o in out if o[0] == 'create' or (o[0] == 'settop' and o[2][:1] == 'D'))
            new_n = len(w.objs) + created
            out.append(['new', 'netlist', '~', '0'])
            out.append(['remove', 'libs', str(info['netlist']), str(idx(lib))])
            out.append(['add', 'libs', str(new_n), str(idx(lib)), '~'])
    return out


def _reaches(a, b, seen=None):
    """definition a (transitively) instantiates definition b (or is b)"""
    if a is b:
        return True
    seen = seen if seen is not None else set()
    if id(a) in seen:
        return False
    seen.add(id(a))
    return any(c.reference is not None and _reaches(c.reference, b, seen) for c in a.children)
