"""Checks of the properties decided on the `edif` engine:
  C03  EDIF write-then-read returns the same netlist
  C05  the EDIF reader builds exactly the design the file describes

One run = proof re-check of Props/<prop>.v + replay of corpus/edif + correspondence of the
extracted mechanism models with the real functions (edif_mech) + the property's own oracle on the
implementation (generated cases and bundled example files) + classification against known
findings + shrinking + violation search + evidence.

    checks/run C03 [--tier quick|thorough] [--replay file]

Environment: VERIF_NO_BUILD=1 skips tools/build.sh (used while several engines are being built
concurrently); VERIF_REPO selects a scratch copy of the implementation (mutation experiments)."""
import json, os, sys, time, collections, random, re, traceback
sys.path.insert(0, os.path.dirname(os.path.abspath(__file__)))
import common
common.ensure_impl_python()
import spydrnet as sdn
import edif_canon as ec
import edif_gen as eg
import edif_mech as em
import edif_file as ef
import edif_emit as ee

CORPUS_DIR = os.path.join(common.CORPUS, 'edif')
LOCAL_FINDINGS = os.path.join(CORPUS_DIR, 'known_findings_edif.json')

BUDGET = {
    # (generated oracle cases, risky share, mechanism cases, bundled size limit in bytes of the zip)
    ('C03', 'quick'): dict(cases=900, risky=0.10, mech=200, bundled=12000),
    ('C03', 'thorough'): dict(cases=6000, risky=0.12, mech=3000, bundled=None),
    ('C05', 'quick'): dict(cases=1300, risky=0.08, mech=200, bundled=20000, corrupt=1400, model_bundled=20000),
    ('C05', 'thorough'): dict(cases=8000, risky=0.10, mech=3000, bundled=None, corrupt=16000, model_bundled=120000),
}
CALL_LIMIT = 20          # seconds per compose / parse call on generated input
BUNDLED_LIMIT = 600      # seconds per bundled file (thorough tier)
MAX_REPORTED = 5         # concrete failing inputs reported per run (the rest are counted in the evidence)


# ================================================================================================
# known findings
# ================================================================================================
def load_findings(prop):
    out = list(common.load_known_findings(prop))
    have = set(f.get('id') for f in out)
    if os.path.exists(LOCAL_FINDINGS):
        for f in json.load(open(LOCAL_FINDINGS)).get('findings', []):
            if f.get('property') == prop and f.get('id') not in have:
                out.append(f)
    return [f for f in out if f.get('status') == 'open']


# ================================================================================================
# C03: one case
# ================================================================================================
def cell_features(netlist):
    """per (library name, cell name): the nets that fall under a known reader/writer limitation,
    computed on the netlist AFTER compose (identifiers assigned)"""
    feats = {}
    for lib in netlist.libraries:
        for d in lib.definitions:
            f = collections.defaultdict(list)
            for c in d.cables:
                name = c.name or ''
                ident = c.data.get('EDIF.identifier', '') or ''
                bus = len(c.wires) > 1 or c.is_array
                bsl = bus and name.startswith('\\') and name.count(' ') != 1
                if bsl:
                    f['backslash-bus-split'].append(name)
                # (K4 repaired: an &_ identifier no longer hides the name from the reader; the feature stays so that a
                # bus lost for this reason is attributed - there is no open entry for it any more, so it is a VIOLATION)
                amp = bus and not bsl and (ident == '&' or ident.startswith('&_')) and not ident.endswith('_')
                if amp:
                    f['amp-underscore-bus-split'].append(name)
                if not bus and re.match(r'.*\[\d+\]$', name, re.S) and re.match(r'.*_\d+_$', ident, re.S):
                    f['bitlike-scalar-merged-as-bit'].append(name)
                if '*' in name or '?' in name:
                    f['glob-name-merge'].append(name)
            feats[(lib.name, d.name)] = f
    return feats


_CELL_RE = re.compile(r'^/libraries/(.*?)/cells/(.*?)/(ports|nets|net_order|instances|inst_order)(.*)$', re.S)


def explain_diff(lines, feats):
    """every difference must be attributable to ONE known cause, in a cell that has that feature"""
    causes = set()
    for line in lines:
        m = _CELL_RE.match(line)
        if not m:
            return None
        lib, cell, what, rest = m.groups()
        # names may contain '/': find the (lib, cell) key that is a prefix match
        key = None
        for (l, c) in feats:
            if line.startswith('/libraries/%s/cells/%s/' % (l, c)):
                if key is None or len(l) + len(c) > len(key[0]) + len(key[1]):
                    key = (l, c)
        if key is None:
            return None
        f = feats[key]
        tail = line[len('/libraries/%s/cells/%s/' % key):]
        if tail.startswith('ports['):
            return None                   # no known cause changes a port (C03-K2 one-pin array port: repaired)
        if tail.startswith('nets/') or tail.startswith('net_order'):
            cands = [k for k in ('amp-underscore-bus-split', 'backslash-bus-split', 'bitlike-scalar-merged-as-bit', 'glob-name-merge') if f.get(k)]
            if len(cands) != 1:
                return None
            k = cands[0]
            if tail.startswith('nets/'):
                # the differing net must be one of the nets carrying the feature (or a bit / the
                # short name of it); glob patterns can capture any net of the cell
                netname = tail[len('nets/'):]
                ok = k == 'glob-name-merge'
                for nm in f[k]:
                    short = re.sub(r'\[\d+\]$', '', nm)
                    if netname.startswith(nm) or netname.startswith(short):
                        ok = True
                if not ok:
                    return None
            causes.add(k)
            continue
        return None
    if len(causes) == 1:
        return causes.pop()
    return None


@ee.rt_consistency
def c03_case(netlist, spec_feats=None, second_round=True, limit=CALL_LIMIT):
    """The C03 oracle on one netlist. Returns (result, info): result is None (property holds) or a
    dict {kind, detail, signature}."""
    info = {}
    why = ec.expressible(netlist)
    if why:
        return {'kind': 'inexpressible', 'detail': why[:3], 'signature': 'inexpressible'}, info
    before = ec.canon(netlist)
    info['size'] = sum(len(L['cells']) for L in before['libraries'].values())
    with ec.TempDir() as tmp:
        try:
            with ec.time_limit(limit):
                path, text = ec.compose_to_text(netlist, tmp)
        except ec.Timeout:
            return _res('compose-timeout', ['compose did not return within %d s' % limit], 'unexplained'), info
        except Exception as e:
            return _res('compose-exc', ['%s: %s' % (type(e).__name__, str(e)[:200])], 'unexplained'), info
        info['text'] = text
        feats = cell_features(netlist)
        mid = ec.canon(netlist, identifiers=True)
        # (1) what was written, read with the independent reader
        try:
            doc = ec.read_sexp(text)
            summ = ec.doc_summary(doc)
        except Exception as e:
            doc = None
            summ = None
            info['independent_reader'] = '%s: %s' % (type(e).__name__, str(e)[:100])
        if summ is not None:
            bad = written_vs_netlist(summ, netlist)
            if bad:
                return _res('written-file-differs-from-netlist', bad[:6], 'unexplained'), info
        # (1b) what was written against the whole-file WRITER MODEL (Fmt/EdifEmit.emit_file, extracted)
        bad = ee.check_written(netlist, doc, info)
        if bad:
            return _res('writer-model-differs-from-composer', bad[:6], 'unexplained'), info
        # (2) the file must be accepted by the reader
        try:
            with ec.time_limit(limit):
                n2 = sdn.parse(path)
        except ec.Timeout:
            return _res('parse-timeout', ['parse did not return within %d s' % limit], 'unexplained'), info
        except Exception as e:
            msg = '%s: %s' % (type(e).__name__, str(e)[:200])
            return _res('reader-rejects-written-file', [msg], explain_parse_exc(msg, netlist)), info
        # (3) same structure
        after = ec.canon(n2)
        d = ec.diff(ec.strip_order(before), ec.strip_order(after), limit=400)
        if d:
            return _res('structure-differs', d[:8], explain_diff(d, feats) or 'unexplained'), info
        bad = ec.wf(n2)
        if bad:
            return _res('reparsed-netlist-not-well-formed', bad[:5], 'unexplained'), info
        # (4) identifiers / rename bookkeeping: what the writer assigned is what the reader shows
        d = ec.diff(ec.strip_order(mid), ec.strip_order(ec.canon(n2, identifiers=True)), limit=50)
        if d:
            return _res('identifiers-differ', d[:6], 'unexplained'), info
        # (5) once more: parse(compose(n2)) == n2
        if second_round:
            try:
                with ec.time_limit(limit):
                    path2, text2 = ec.compose_to_text(n2, tmp, 'again.edf')
                    n3 = sdn.parse(path2)
            except Exception as e:
                return _res('second-round-trip-fails', ['%s: %s' % (type(e).__name__, str(e)[:200])], 'unexplained'), info
            d = ec.diff(ec.strip_order(ec.canon(n2, identifiers=True)), ec.strip_order(ec.canon(n3, identifiers=True)), limit=50)
            if d:
                return _res('second-round-trip-differs', d[:6], 'unexplained'), info
            # (6) history after writing: elements of the netlist that was just written (so it now carries the
            #     identifiers and rename bookkeeping of that run) are renamed, and it is written and read again:
            #     the file must show the names the netlist has NOW
            renamed = []
            for lib in netlist.libraries:
                for dfn in lib.definitions:
                    for grp in (dfn.ports, dfn.children, [c for c in dfn.cables if len(c.wires) == 1 and not c.is_array], [dfn]):
                        for e in list(grp)[:1]:
                            if isinstance(e.name, str) and e.name and len(renamed) < 4 and len(e.name) < 200:
                                old_name = e.name
                                try:
                                    e.name = old_name + '_rn'
                                    renamed.append(e)
                                except Exception:  # noqa  (a sibling already has that name)
                                    pass
                    if len(renamed) >= 4:
                        break
            if renamed and not ec.expressible(netlist):
                before2 = ec.canon(netlist)
                try:
                    with ec.time_limit(limit):
                        path3, text3 = ec.compose_to_text(netlist, tmp, 'renamed.edf')
                        n4 = sdn.parse(path3)
                except Exception as e:
                    return _res('round-trip-after-rename-fails', ['%s: %s' % (type(e).__name__, str(e)[:200])], 'unexplained'), info
                d = ec.diff(ec.strip_order(before2), ec.strip_order(ec.canon(n4)), limit=100)
                if d:
                    return _res('round-trip-after-rename-differs', d[:6], explain_diff(d, feats) or 'unexplained'), info
    return None, info


def _expects_pass(path):
    try:
        return json.load(open(path)).get('expect') == 'pass'
    except Exception:
        return False


def _res(kind, detail, cause):
    return {'kind': kind, 'detail': detail, 'signature': '%s|%s' % (kind, cause)}


def explain_parse_exc(msg, netlist):
    """the reader refusing a file the writer wrote has no known cause any more (C03-K1 direction
    UNDEFINED, C03-K3 float property, C03-K6 quote in a string property: repaired)"""
    return 'unexplained'


def written_vs_netlist(summ, n):
    """the written text, read independently, against the netlist that was written (identifiers as
    assigned by the writer): libraries, cells, ports, instances, per-bit nets, design; every cell is
    declared before it is referenced."""
    bad = []
    libs = list(n.libraries)
    if [L['name'][0] for L in summ['libraries']] != [l['EDIF.identifier'] for l in libs]:
        bad.append('libraries written %r, netlist has %r' % ([L['name'][0] for L in summ['libraries']], [l['EDIF.identifier'] for l in libs]))
        return bad
    declared = set()
    for L, lib in zip(summ['libraries'], libs):
        if [c['name'][0] for c in L['cells']] != [d['EDIF.identifier'] for d in lib.definitions]:
            bad.append('cells of %s: written %r, netlist %r' % (lib.name, [c['name'][0] for c in L['cells']], [d['EDIF.identifier'] for d in lib.definitions]))
            continue
        for C, d in zip(L['cells'], lib.definitions):
            if _dn(C['name']) != d.name:
                bad.append('cell %r written under name %r' % (d.name, _dn(C['name'])))
            if [(_dn(p['name']), p['width']) for p in C['ports']] != [(p.name, len(p.pins)) for p in d.ports]:
                bad.append('ports of %s differ in the file' % d.name)
            if [_dn(x['name']) for x in C['instances']] != [c.name for c in d.children]:
                bad.append('instances of %s differ in the file' % d.name)
            for X, c in zip(C['instances'], d.children):
                tgt = (X['library'].lower() if X['library'] else None, X['cell'].lower() if X['cell'] else None)
                want = (c.reference.library['EDIF.identifier'].lower(), c.reference['EDIF.identifier'].lower())
                if tgt != want:
                    bad.append('instance %s.%s: written reference %r, netlist %r' % (d.name, c.name, tgt, want))
                if want not in declared:
                    bad.append('instance %s.%s references cell %r before its declaration' % (d.name, c.name, want))
            nbits = sum(len(c.wires) for c in d.cables)
            if len(C['nets']) != nbits:
                bad.append('cell %s: %d nets written for %d wires' % (d.name, len(C['nets']), nbits))
            else:
                k = 0
                for c in d.cables:
                    for w in c.wires:
                        if len(C['nets'][k]['refs']) != len(w.pins):
                            bad.append('net %s.%s: %d portRefs written for %d pins' % (d.name, c.name, len(C['nets'][k]['refs']), len(w.pins)))
                        k += 1
            declared.add((lib['EDIF.identifier'].lower(), d['EDIF.identifier'].lower()))
    top = n.top_instance
    des = summ['design']
    if des is None:
        bad.append('no design construct written')
    elif (des['cell'], des['library']) != (top.reference['EDIF.identifier'], top.reference.library['EDIF.identifier']):
        bad.append('design written as %r' % (des,))
    return bad


def _dn(nm):
    return nm[1] if nm[1] is not None else nm[0]


def run_c03_spec(spec):
    try:
        n = eg.build_netlist(spec)
    except Exception as e:
        return {'kind': 'build-refused', 'detail': ['%s: %s' % (type(e).__name__, str(e)[:150])], 'signature': 'build-refused'}, {}
    return c03_case(n)


# ================================================================================================
# C05: one case
# ================================================================================================
def c05_text_case(text, expected=None, limit=CALL_LIMIT, tmp=None):
    """The C05 oracle on one EDIF text. `expected` = structure the text declares according to the
    generator; it is always ALSO derived from the text by the independent elaborator."""
    info = {}
    try:
        doc = ec.read_sexp(text)
        exp_doc = ec.elab_doc(doc)
    except Exception as e:
        return {'kind': 'harness-cannot-read-text', 'detail': ['%s: %s' % (type(e).__name__, str(e)[:200])],
                'signature': 'harness-cannot-read-text'}, info
    if expected is not None:
        d0 = ec.diff(expected, exp_doc, limit=5)
        if d0:
            return {'kind': 'harness-writer-and-elaborator-disagree', 'detail': d0, 'signature': 'harness'}, info
    with ec.TempDir() as tmpdir:
        try:
            with ec.time_limit(limit):
                n = ec.parse_text(text, tmpdir)
        except ec.Timeout:
            info['impl'] = ('timeout', None, None)
            return _res('parse-timeout', ['parse did not return within %d s' % limit], 'unexplained'), info
        except Exception as e:
            info['impl'] = ('raise', type(e).__name__, None)
            return _res('reader-rejects-supported-text', ['%s: %s' % (type(e).__name__, str(e)[:200])], 'unexplained'), info
    got = ec.canon(n, identifiers=True)
    info['size'] = sum(len(L['cells']) for L in got['libraries'].values())
    bad = ec.wf(n)
    info['impl'] = ('ok', got, bad)
    d = ec.diff(exp_doc, got, limit=400)
    if d:
        return _res('parsed-structure-differs-from-text', d[:8], explain_c05(d, exp_doc, doc) or 'unexplained'), info
    if bad:
        return _res('parsed-netlist-not-well-formed', bad[:5], 'unexplained'), info
    return None, info


def explain_c05(lines, exp, doc):
    """Attribute every difference to a known reader limitation, using what the TEXT contains.
    Returns the causes joined by '+' (generated cases have one), or None if some difference is
    not explained by a feature present in the very cell / net it concerns."""
    summ = ec.doc_summary(doc)
    causes = set()
    feats = {}        # (library key, cell key) as in the expected structure -> cause -> [net names]
    lib_dups = {}     # library key -> names / identifiers involved in duplicate cell display names
    lkeys = {}
    for L in summ['libraries']:
        lk = _dupkey(lkeys, _dn(L['name']))
        ckeys = {}
        seen_names = collections.Counter(_dn(C['name']) for C in L['cells'])
        dupnames = set(n for n, k in seen_names.items() if k > 1)
        lib_dups[lk] = set()
        for C in L['cells']:
            if _dn(C['name']) in dupnames:
                lib_dups[lk].add(_dn(C['name']))
                lib_dups[lk].add(C['name'][0])
        for C in L['cells']:
            ck = _dupkey(ckeys, _dn(C['name']))
            f = collections.defaultdict(list)
            idents = set(n['name'][0].lower() for n in C['nets'])
            seen_bits = collections.Counter()
            display = collections.Counter()
            shorts = set()
            for nnet in C['nets']:
                ident, orig = nnet['name']
                mi = re.match(r'^(.*)_(\d+)_$', ident, re.S)
                mn = re.match(r'^(.*)\[(\d+)\]$', orig, re.S) if orig is not None else None
                if mi and mn:
                    short_i, short_n = mi.group(1), mn.group(1)
                    if short_n.startswith('\\') and orig.count(' ') != 1:
                        f['backslash-bits-not-merged'].append(short_n)
                    elif (short_i == '&' or short_i.startswith('&_')) and not short_i.endswith('_'):
                        f['amp-underscore-bits-not-merged'].append(short_n)     # K4 repaired: no open entry, a VIOLATION
                    if '*' in short_n or '?' in short_n:
                        f['glob-name-merge'].append(short_n)
                    if short_i.lower() in idents:
                        f['short-identifier-owned-by-another-net'].append(short_n)
                    seen_bits[(short_n, int(mn.group(2)))] += 1
                    shorts.add(short_n)
                else:
                    display[orig if orig is not None else ident] += 1
                    if orig is not None and ('*' in orig or '?' in orig):
                        f['glob-name-merge'].append(orig)
            for (short_n, bit), k in seen_bits.items():
                if k > 1:
                    f['duplicate-bit-net'].append(short_n)
            for nm, k in display.items():
                if nm in shorts:
                    f['scalar-net-named-like-a-bus-of-the-cell'].append(nm)
                elif k > 1:
                    f['nets-sharing-a-display-name'].append(nm)
            feats[(lk, ck)] = f
    for line in lines:
        # library level: cells sharing a display name (all but the first fall back to the identifier)
        lk = None
        for k in lib_dups:
            if line.startswith('/libraries/%s/order:' % k) and lib_dups[k]:
                lk = k
        if lk is not None:
            causes.add('cells-sharing-a-display-name-fall-back-to-identifier')
            continue
        for k in lib_dups:
            if line.startswith('/libraries/%s/cells/' % k) and (lk is None or len(k) > len(lk)):
                lk = k
        if lk is not None and lib_dups[lk]:
            rest = line[len('/libraries/%s/cells/' % lk):]
            hit = any(rest.startswith(n) for n in lib_dups[lk]) or \
                (re.search(r'/instances/.*/ref: ', rest) and any(repr(n) in rest.split('/ref: ', 1)[1] for n in lib_dups[lk]))
            if hit:
                causes.add('cells-sharing-a-display-name-fall-back-to-identifier')
                continue
        key = None
        for (l, c) in feats:
            if line.startswith('/libraries/%s/cells/%s/' % (l, c)):
                if key is None or len(l) + len(c) > len(key[0]) + len(key[1]):
                    key = (l, c)
        if key is None:
            return None
        tail = line[len('/libraries/%s/cells/%s/' % key):]
        present = [k for k, v in feats[key].items() if v]
        if not present:
            return None
        if tail.startswith('net_order'):
            continue                      # follows from the differing nets of the same cell, judged below
        if not tail.startswith('nets/'):
            return None
        netname = tail[len('nets/'):]
        hit = None
        for k in present:
            if k == 'glob-name-merge':
                continue
            for nm in feats[key][k]:
                if netname == nm or netname.startswith(nm + '[') or netname.startswith(nm + '/') or \
                        netname.startswith(nm + ':') or netname.startswith(nm + '<dup>'):
                    hit = k
        if hit is None and 'glob-name-merge' in present:
            hit = 'glob-name-merge'        # a pattern can capture any net of the cell
        if hit is None:
            return None
        causes.add(hit)
    if not causes:
        return None
    return '+'.join(sorted(causes))


def _dupkey(seen, k):
    """the key edif_canon._put gives to the n-th element named k"""
    if k is None:
        k = '<None>'
    while k in seen:
        k = k + '<dup>'
    seen[k] = True
    return k


def run_c05_design(design, render_seed):
    text = eg.render(design, random.Random(render_seed))
    if design.get('expect') == 'reject':
        res, info = c05_reject_case(text, why=design.get('risky'))
    else:
        res, info = c05_text_case(text, expected=eg.expected(design))
    info['text'] = text
    return res, info


REJECT_KIND = {None: 'reader-accepts-undeclared-design-reference', 'design_undeclared': 'reader-accepts-undeclared-design-reference'}


def c05_reject_case(text, limit=CALL_LIMIT, why=None):
    """a text that says nothing the reader may build: its design construct names an undeclared cell /
    library, an instance lacks its viewRef, an array port has size 0, there are two design constructs,
    the last parentheses are missing or tokens follow the last parenthesis. The reader must refuse it
    (and return control) instead of building something"""
    with ec.TempDir() as tmpdir:
        try:
            with ec.time_limit(limit):
                n = ec.parse_text(text, tmpdir)
        except ec.Timeout:
            return _res('parse-timeout', ['parse did not return within %d s' % limit], 'unexplained'), {}
        except Exception as e:
            return None, {'rejected_with': type(e).__name__, 'impl': ('raise', type(e).__name__, None)}
    top = n.top_instance
    return _res(REJECT_KIND.get(why, 'reader-accepts-text-that-must-be-rejected'),
                ['%s: accepted; top resolved to %r' % (why or 'text', ec._ref(top.reference) if top is not None and top.reference is not None else None)],
                'unexplained' if why in REJECT_KIND else why), {}


# ================================================================================================
# bundled example files
# ================================================================================================
def bundled_c03(path, limit):
    """parse(f) -> n; write/read n; parse(compose(parse(f))) == parse(f)"""
    with ec.time_limit(limit):
        n = sdn.parse(path)
        res, info = c03_case(n, second_round=False, limit=limit)
    return res, info


def bundled_c05(path, limit):
    text = ec.read_bundled(path)
    with ec.time_limit(limit):
        res, info = c05_text_case(text, limit=limit)
    return res, info


# ================================================================================================
# the run
# ================================================================================================
def run(prop, tier, seed, replay):
    if replay:
        return replay_file(prop, replay)
    t0 = time.time()
    rep = common.Reporter(prop)
    budget = BUDGET[(prop, tier)]
    ok, log = (True, 'skipped (VERIF_NO_BUILD)') if os.environ.get('VERIF_NO_BUILD') == '1' else common.build_if_needed()
    proof = common.check_props_file(prop)
    driver_ok = os.path.exists(em.DRIVER)
    if not ok or not proof['ok'] or not driver_ok:
        rep.violation('proof', {'kind': 'proof-obligation', 'theorem_file': 'coq/theories/Props/%s.v' % prop, 'build_ok': ok,
                                'driver_present': driver_ok, 'log': log[-1500:], 'coqc_output': proof['assumptions'][-1500:]},
                      found_input=False)
    known = load_findings(prop)
    # an open entry whose witness file says expect=pass has been repaired: the witness is an ordinary
    # regression case (part 2) and the entry's signature excuses nothing
    stale_known = [k for k in known if k.get('witness') and _expects_pass(os.path.join(common.ROOT, k['witness']))]
    known = [k for k in known if k not in stale_known]
    known_by_sig = {k['signature']: k for k in known}
    stats = collections.Counter()
    hist = collections.Counter()
    sizes = collections.Counter()
    samples = []
    distinct = set()
    known_hits = collections.Counter()
    announced = set()
    n_eval = 0
    n_disagree = 0
    mech_total = 0
    notes = []

    def known_hit(sig, what_extra=''):
        k = known_by_sig[sig]
        known_hits[k['id']] += 1
        if k['id'] not in announced:
            announced.add(k['id'])
            rep.known_finding('%s: %s' % (k['id'], k['what']))

    def handle_failure(source, res, replay_obj, shrink=None, search_note=None):
        """res: failing result of the oracle. Known (by signature) -> counted; otherwise shrink and report."""
        sig = res['signature']
        if sig in known_by_sig:
            known_hit(sig)
            return
        if shrink is not None:
            try:
                small, res2 = shrink()
                if res2 is not None:
                    replay_obj = small
                    res = res2
                    if res['signature'] in known_by_sig:
                        known_hit(res['signature'])
                        return
            except Exception as e:
                notes.append('shrinking failed: %s' % e)
        replay_obj = dict(replay_obj)
        replay_obj.update({'property': prop, 'source': source, 'oracle': res,
                           'replay': 'checks/run %s --replay <this file>' % prop})
        rep.violation('%s-%s' % (re.sub(r'[^A-Za-z0-9_.-]', '_', source), common.sha(json.dumps(replay_obj, default=str, sort_keys=True))), replay_obj)

    # ---- 1. known findings: replay their witnesses, they must still fail in the recorded way ----
    for k in stale_known:
        notes.append('known finding %s is recorded as repaired (its witness %s is a regression case that must pass): the open entry is to be moved to the fixed list' % (k['id'], k['witness']))
    for k in known:
        if k.get('tier') == 'thorough' and tier != 'thorough':
            continue                      # witness is a large bundled file: replayed in the thorough tier only
        wpath = os.path.join(common.ROOT, k.get('witness', ''))
        if not k.get('witness') or not os.path.exists(wpath):
            notes.append('known finding %s has no witness file' % k['id'])
            continue
        try:
            res, info = run_case_file(prop, wpath)
        except Exception as e:
            res = {'signature': 'replay-crashed: %s' % e, 'kind': 'replay-crashed', 'detail': []}
        n_eval += 1
        if res is None:
            notes.append('known finding %s no longer reproduces (witness %s passes): entry can be closed' % (k['id'], k['witness']))
            stats['known_witness_now_passing'] += 1
        elif res['signature'] == k['signature']:
            known_hit(k['signature'])
            stats['known_witness_still_failing'] += 1
        else:
            handle_failure('known-witness-' + k['id'], res, {'kind': 'case-file', 'file': k['witness'],
                                                              'note': 'witness of %s now fails differently' % k['id']})

    # ---- 2. corpus: regression cases that must pass ----
    if os.path.isdir(CORPUS_DIR):
        wit = set(os.path.basename(k.get('witness', '')) for k in known)
        for fn in sorted(os.listdir(CORPUS_DIR)):
            if not fn.endswith('.json') or fn == os.path.basename(LOCAL_FINDINGS) or fn in wit:
                continue
            obj = json.load(open(os.path.join(CORPUS_DIR, fn)))
            if obj.get('property') not in (None, prop) or obj.get('expect') != 'pass':
                continue
            if obj.get('tier') == 'thorough' and tier != 'thorough':
                continue                  # large bundled file of a repaired finding: part of the thorough tier's bundled pass
            res, info = run_case_file(prop, os.path.join(CORPUS_DIR, fn))
            n_eval += 1
            stats['corpus_cases'] += 1
            if res is not None:
                handle_failure('corpus-' + fn, res, {'kind': 'case-file', 'file': 'corpus/edif/' + fn})

    # ---- 3. correspondence: extracted models vs the real functions ----
    mech_stats = {}
    mech_bad = []
    if driver_ok:
        rng = random.Random('%d/mech/%s' % (seed, prop))
        m = budget['mech']
        with ec.TempDir() as tmp:
            # C03 = writer and reader mechanisms; C05 = reader mechanisms only (the nets fed to the
            # reader then come from the harness, not from spydrnet's writer)
            mechs = [('names', lambda: em.check_names(rng, 2 * m)), ('multibit', lambda: em.check_multibit(rng, m)),
                     ('bus', lambda: em.check_bus(rng, m, tmp, real_writer=(prop == 'C03'))),
                     ('nets', lambda: em.check_nets(rng, m, tmp)), ('lex', lambda: em.check_lex(rng, m))]
            if prop == 'C03':
                mechs = [('topo', lambda: em.check_topo(rng, m)), ('member', lambda: em.check_member(rng, m // 2))] + mechs
            for name, f in mechs:
                try:
                    n, bad, st = f()
                except Exception as e:
                    n, bad, st = 0, [{'mechanism': name, 'command': 'harness', 'model': '', 'implementation': 'crashed: %s' % traceback.format_exc()[-400:]}], {}
                mech_total += n
                mech_stats[name] = dict(st, cases=n, disagreements=len(bad))
                mech_bad += bad
    # ---- 3b. whole-file tie (C05): EdifFile.elab_text vs sdn.parse on valid and damaged files ----
    tie_stats = collections.Counter()
    tie_cases_total = [0]

    def run_tie(cases, limit=10):
        """cases through the model and the reader; disagreements join the mechanism disagreements,
        half-built results go to the oracle failure handling"""
        if not cases or not driver_ok:
            return
        with ec.TempDir() as tmp:
            try:
                bad, half, st = ef.tie_texts(cases, tmp, limit)
            except Exception as e:
                bad, half, st = [{'mechanism': 'file', 'command': 'harness', 'text': '', 'model': '', 'implementation': 'crashed: %s' % traceback.format_exc()[-400:],
                                  'what': 'whole-file tie crashed: %s' % e}], [], {}
        tie_stats.update(st)
        tie_cases_total[0] += len(cases)
        mech_bad.extend(bad)
        for res, text, source, kind in half:
            if res['signature'] in known_by_sig or len(rep.violations) < MAX_REPORTED:
                handle_failure('tie-%s-%s' % (source, kind), res, {'kind': 'c05-tie-text', 'text': text, 'from': source, 'corruption': kind})
            else:
                stats['unreported_half_built'] += 1

    if prop == 'C05' and driver_ok:
        rngc = random.Random('%d/tie/%s' % (seed, prop))
        sources = [('tiny', ef.TINY)]
        for g in range(4 if tier == 'quick' else 12):
            grng = random.Random('%d/tie/gen/%d' % (seed, g))
            sources.append(('gen%d' % g, eg.render(eg.gen_design(grng, None, size=0.6), grng)))
        files0, _ = ec.bundled_edif_files(common.REPO)
        for fn, path, size in sorted(files0, key=lambda x: x[2])[:3 if tier == 'quick' else 8]:
            sources.append((fn, ec.read_bundled(path)))
        cases = [(t, nm, 'valid') for nm, t in sources]
        cases += [(t, 'tiny', k) for t, k, _ in ef.exhaustive(ef.TINY)] if tier == 'thorough' else []
        per = max(1, budget['corrupt'] // len(sources))
        for nm, t in sources:
            for _ in range(per if nm != 'tiny' else 2 * per):
                ct, k, _i = ef.corrupt(rngc, t)
                cases.append((ct, nm, k))
        run_tie(cases)
    n_disagree += len(mech_bad)

    # ---- 4. the property's oracle on generated cases ----
    tie_gen = []
    ncases = budget['cases']
    risky_kinds = eg.RISKY_C03 if prop == 'C03' else eg.RISKY_C05
    failures_seen = 0
    deadline = t0 + (55 if tier == 'quick' else 780)
    gen_done = 0
    for c in range(ncases):
        if time.time() > deadline:
            notes.append('generated cases cut at %d of %d by the tier time budget' % (c, ncases))
            break
        rng = random.Random('%d/%s/gen/%d' % (seed, prop, c))
        risky = rng.choice(risky_kinds) if rng.random() < budget['risky'] else None
        gen_done += 1
        if prop == 'C03':
            spec = eg.gen_netlist_spec(rng, risky, size=rng.choice([0.6, 1.0, 1.0, 1.6]))
            if risky is None and eg.spec_features(spec):
                hist['clean case had an accidental risky feature: regenerated names'] += 1
                _neutralise(spec)
            res, info = run_c03_spec(spec)
            if info.get('text') is not None and c % 2 == 0:
                # what the real composer wrote, through the model reader and the real reader
                tie_gen.append((info['text'], 'written-%d-%d' % (seed, c), 'composed:%s' % risky))
            key = common.sha(json.dumps(spec, sort_keys=True))
            ncell = sum(len(L['cells']) for L in spec['libraries'])
            hist['risky:%s' % risky] += 1
            for sh in sorted(eg.spec_shapes(spec)):
                hist['shape:%s' % sh] += 1
            hist['libraries:%d' % len(spec['libraries'])] += 1
            sizes[ncell] += 1
            if ncell >= 2:
                distinct.add(key)
            if len(samples) < 2:
                samples.append({'case': c, 'risky': risky, 'spec_head': json.dumps(spec)[:600]})
            if res is not None and res['kind'] in ('inexpressible', 'build-refused'):
                stats[res['kind'] + '_skipped'] += 1
                continue
            n_eval += 1
            if res is not None:
                failures_seen += 1
                hist['outcome:' + res['signature']] += 1
                if res['signature'] in known_by_sig or len(rep.violations) < MAX_REPORTED:
                    handle_failure('gen-%d-%d' % (seed, c), res, {'kind': 'c03-spec', 'spec': spec},
                                   shrink=lambda spec=spec, res=res: shrink_c03(spec, res))
                else:
                    stats['unreported_generated_failures'] += 1
            else:
                hist['outcome:holds'] += 1
        else:
            design = eg.gen_design(rng, risky, size=rng.choice([0.6, 1.0, 1.0, 1.5]))
            rseed = '%d/%s/render/%d' % (seed, prop, c)
            res, info = run_c05_design(design, rseed)
            if info.get('text') is not None:
                tie_gen.append((info['text'], 'gen-%d-%d' % (seed, c), 'valid:%s' % risky, info.get('impl')))
            dj = eg.design_json(design)
            key = common.sha(json.dumps(dj, sort_keys=True, default=str))
            ncell = sum(len(L['cells']) for L in design['libraries'])
            nbus = len(set((id(cc), n['bus']['name']) for L in design['libraries'] for cc in L['cells'] for n in cc['nets'] if n['bus']))
            hist['risky:%s' % risky] += 1
            hist['case-variation:%s' % design['case']] += 1
            hist['design-followed-by-library:%s' % (design['design'].get('after_lib', len(design['libraries']) - 1) < len(design['libraries']) - 1)] += 1
            hist['design-own-constructs:%d' % len(design['design'].get('extras', []))] += 1
            hist['buses:%s' % ('0' if nbus == 0 else '1-3' if nbus <= 3 else '4+')] += 1
            sizes[ncell] += 1
            if ncell >= 2:
                distinct.add(key)
            if len(samples) < 2:
                samples.append({'case': c, 'risky': risky, 'text_head': info.get('text', '')[:600]})
            n_eval += 1
            if res is not None:
                failures_seen += 1
                hist['outcome:' + res['signature']] += 1
                if res['signature'] in known_by_sig or len(rep.violations) < MAX_REPORTED:
                    handle_failure('gen-%d-%d' % (seed, c), res, {'kind': 'c05-design', 'design': dj, 'render_seed': rseed, 'text': info.get('text')},
                                   shrink=lambda design=design, rseed=rseed, res=res: shrink_c05(design, rseed, res))
            else:
                hist['outcome:holds'] += 1

    if tie_gen:
        nb = len(mech_bad)
        run_tie(tie_gen)
        n_disagree += len(mech_bad) - nb

    # ---- 5. bundled example files ----
    files, empty = ec.bundled_edif_files(common.REPO)
    for fn in empty:
        notes.append('bundled file %s is an EMPTY file in this tree: skipped' % fn)
    bundled_done = []
    for fn, path, size in files:
        if budget['bundled'] is not None and size > budget['bundled']:
            continue
        if time.time() > t0 + (75 if tier == 'quick' else 1500):
            notes.append('bundled file %s (%d bytes) skipped: tier time budget exhausted' % (fn, size))
            continue
        tb = time.time()
        info = {}
        try:
            if prop == 'C03':
                res, info = bundled_c03(path, BUNDLED_LIMIT if tier == 'thorough' else 30)
            else:
                res, info = bundled_c05(path, BUNDLED_LIMIT if tier == 'thorough' else 30)
        except ec.Timeout:
            notes.append('bundled file %s (%d bytes) exceeded the per-file time limit: skipped' % (fn, size))
            continue
        except Exception as e:
            res = _res('reader-rejects-bundled-file', ['%s: %s' % (type(e).__name__, str(e)[:200])], 'unexplained')
        n_eval += 1
        if prop == 'C05' and driver_ok:
            # the file's own characters through the model tokenizer and the real one, token by token
            tb_bad = em.check_tokens_of_file(ec.read_bundled(path), limit=60000)
            mech_total += 1
            mech_bad += tb_bad
            n_disagree += len(tb_bad)
            # the whole file through the model reader and the real one
            if size <= budget['model_bundled'] and time.time() < t0 + (80 if tier == 'quick' else 2400):
                nb = len(mech_bad)
                run_tie([(ec.read_bundled(path), fn, 'bundled', info.get('impl') if isinstance(info, dict) else None)], limit=BUNDLED_LIMIT)
                n_disagree += len(mech_bad) - nb
        bundled_done.append({'file': fn, 'zip_bytes': size, 'seconds': round(time.time() - tb, 2),
                             'outcome': 'holds' if res is None else res['signature']})
        distinct.add('bundled:' + fn)
        if res is not None and res['kind'] != 'inexpressible':
            res = dict(res, signature=res['signature'] + '|' + fn)
            if res['signature'] in known_by_sig or len(rep.violations) < 2 * MAX_REPORTED:
                handle_failure('bundled-' + fn, res, {'kind': 'bundled', 'file': fn})
            else:
                stats['unreported_bundled_failures'] += 1

    # ---- 6. correspondence disagreements: search the implementation for a property failure ----
    if mech_bad:
        found = rep.violations  # an oracle failure already reported in this run is the concrete input
        for b in mech_bad[:3]:
            if found:
                notes.append('correspondence disagreement in %s; property failure already reported above' % b['mechanism'])
                continue
            hit = None
            if b.get('mechanism') == 'file' and b.get('text') and str(b.get('implementation', '')).startswith('ok') and prop == 'C05':
                # the disagreeing text itself: does the property's own oracle (independent elaborator of the
                # text vs what the reader built) fail on it?
                try:
                    r0, _i0 = c05_text_case(b['text'])
                except Exception:
                    r0 = None
                if r0 is not None and r0['signature'] not in known_by_sig:
                    if r0['kind'] == 'harness-cannot-read-text':
                        r0 = dict(r0, kind='reader-accepts-text-the-independent-elaborator-cannot-give-a-meaning',
                                  signature='reader-accepts-text-without-meaning')
                    hit = ('tie-text-%s' % common.sha(b['text']), r0, {'kind': 'c05-text', 'text': b['text']})
            if hit is None:
                hit = search_failure(prop, seed, b['mechanism'], known_by_sig)
            if hit:
                src, res, obj = hit
                handle_failure(src, res, dict(obj, correspondence=b))
                found = rep.violations
            else:
                rep.violation('correspondence-%s-%s' % (b['mechanism'], common.sha(json.dumps(b))),
                              {'kind': 'correspondence-broken', 'engine': 'edif', 'property': prop,
                               'what': 'extracted model (coq/theories/Fmt/Edif*.v; theorems of Props/%s.v) and implementation disagree on mechanism %s' % (prop, b['mechanism']),
                               'first_difference': b, 'total_disagreements': len(mech_bad),
                               'replay': 'checks/run %s --replay <this file>' % prop}, found_input=False)

    wall = time.time() - t0
    theorems = proof['theorems']
    coverage = {
        'obligations': len(theorems), 'discharged': len(theorems) if (ok and proof['ok']) else 0,
        'checker_cmd': 'cd /verif && tools/build.sh && ' + proof['cmd'],
        'trusted_base': trusted_base(proof),
        'theorems': theorems,
        'print_assumptions': proof['assumptions'][-3000:],
        'programs': gen_done + len(bundled_done),
        'disagreements_checked': mech_total + tie_stats.get('compared', 0),
        'evaluations': n_eval,
        'distinct_nontrivial': len(distinct),
        'rule': ('a generated case is non-trivial if it has at least 2 cells; distinct by hash of the spec/design; '
                 'each bundled file counts once'),
        'samples': samples or [{'note': 'no generated sample'}],
        'generator_histogram': dict(sorted(hist.items())),
        'cells_per_case_histogram': dict(sorted(sizes.items())),
        'mechanism_correspondence': mech_stats,
        'whole_file_tie': {'cases': tie_cases_total[0], 'compared': tie_stats.get('compared', 0), 'not_compared_unsupported': tie_stats.get('not-compared', 0),
                           'histogram': dict(sorted(tie_stats.items())),
                           'what': 'EdifFile.elab_text (extracted) and sdn.parse on the same text: raised <-> err, both returned -> canonical structures equal; '
                                   'everything returned by the reader is checked for well-formedness'
                                   + ('' if prop == 'C05' else ' (C03: the texts written by the real composer for every second generated netlist)')},
        'writer_model_tie': ee.summary(),
        'model_impl_disagreements': n_disagree,
        'bundled_files': bundled_done,
        'known_findings_hit': dict(known_hits),
        'counters': dict(stats),
        'notes': notes,
        'exhaustive': False,
        'explanation': EXPLANATION[prop],
    }
    common.write_evidence(prop, tier, seed, coverage, wall, len(rep.violations), ASSUMPTIONS[prop])
    print('%s %s: %d generated + %d bundled cases, %d oracle evaluations, %d mechanism + %d whole-file correspondence cases (%d not compared: unsupported; %d disagreements), '
          'known findings hit %s, proof %s (%d theorems), %.1fs' % (
              prop, tier, gen_done, len(bundled_done), n_eval, mech_total, tie_stats.get('compared', 0), tie_stats.get('not-compared', 0), n_disagree, dict(known_hits) or '{}',
              'ok' if (ok and proof['ok']) else 'BROKEN', len(theorems), wall))
    return rep.exit_code()


def _neutralise(spec):
    """make a clean spec really clean: rename nets that accidentally carry a risky feature"""
    k = 0
    for L in spec['libraries']:
        for c in L['cells']:
            for n in c['nets']:
                bus = n['width'] > 1 or n.get('array')
                nm = n['name']
                if (bus and nm and not nm[0].isalnum()) or (nm.endswith(']') and '[' in nm) or '*' in nm or '?' in nm:
                    n['name'] = 'w%d_%s' % (k, re.sub(r'[^A-Za-z0-9]', 'x', nm))
                    k += 1


# ---- shrinking ---------------------------------------------------------------------------------
def shrink_c03(spec, res):
    kind = res['kind']

    def still(s):
        r, _ = run_c03_spec(s)
        return r is not None and r['kind'] == kind
    small = eg.shrink_spec(spec, still, budget=120)
    r, _ = run_c03_spec(small)
    return {'kind': 'c03-spec', 'spec': small}, r


def shrink_c05(design, rseed, res):
    """drop nets / instances / cells of the design while the same kind of failure remains"""
    kind = res['kind']
    cur = design
    budget = [80]

    def fails(d):
        budget[0] -= 1
        try:
            r, _ = run_c05_design(d, rseed)
        except Exception:
            return False
        return r is not None and r['kind'] == kind
    changed = True
    while changed and budget[0] > 0:
        changed = False
        for li, L in enumerate(cur['libraries']):
            for ci, c in enumerate(L['cells']):
                for ni in range(len(c['nets'])):
                    cand = eg.design_relink(json.loads(json.dumps(eg.design_json(cur))))
                    del cand['libraries'][li]['cells'][ci]['nets'][ni]
                    if budget[0] > 0 and fails(cand):
                        cur = cand
                        changed = True
                        break
                if changed:
                    break
            if changed:
                break
    r, info = run_c05_design(cur, rseed)
    return {'kind': 'c05-design', 'design': eg.design_json(cur), 'render_seed': rseed, 'text': info.get('text')}, r


# ---- violation search after a correspondence disagreement ----------------------------------------
def search_failure(prop, seed, mechanism, known_by_sig):
    """The disagreement says where the code changed; run the property's oracle on extra generated
    cases that lean on that mechanism (multi-library hierarchies for topo, buses for the rest)."""
    for attempt in range(400):
        rng = random.Random('%d/%s/search/%s/%d' % (seed, prop, mechanism, attempt))
        if prop == 'C03':
            spec = eg.gen_netlist_spec(rng, None, depth=rng.randint(2, 4), size=1.6)
            _neutralise(spec)
            res, info = run_c03_spec(spec)
            if res is not None and res['kind'] != 'inexpressible' and res['signature'] not in known_by_sig:
                small, r2 = shrink_c03(spec, res)
                return 'search-%s-%d' % (mechanism, attempt), (r2 or res), (small if r2 else {'kind': 'c03-spec', 'spec': spec})
        else:
            design = eg.gen_design(rng, None, size=1.5)
            rseed = '%d/search/%d' % (seed, attempt)
            res, info = run_c05_design(design, rseed)
            if res is not None and res['signature'] not in known_by_sig:
                small, r2 = shrink_c05(design, rseed, res)
                return 'search-%s-%d' % (mechanism, attempt), (r2 or res), small
    return None


# ---- case files (corpus, replays) ------------------------------------------------------------------
def run_case_obj(prop, obj):
    kind = obj.get('kind')
    if kind == 'c03-spec':
        return run_c03_spec(obj['spec'])
    if kind == 'c05-design':
        d = eg.design_relink(json.loads(json.dumps(obj['design'])))
        return run_c05_design(d, obj['render_seed'])
    if kind == 'c05-text':
        return c05_text_case(obj['text'])
    if kind == 'c05-reject-text':
        return c05_reject_case(obj['text'], why=obj.get('why'))
    if kind == 'c05-tie-text':
        return ef.tie_one(obj['text']), {}
    if kind == 'c05-tie-texts':
        with ec.TempDir() as tmp:
            bad, half, _st = ef.tie_texts([(t, 'corpus', k) for k, t in sorted(obj['texts'].items())], tmp, 30)
        half = [h for h in half if h[0]['signature'] not in set(k['signature'] for k in load_findings(prop))]
        if bad:
            return {'kind': 'model-and-reader-disagree', 'detail': ['%s: %s' % (b['command'], b['what']) for b in bad[:4]], 'signature': 'correspondence|file'}, {}
        if half:
            return half[0][0], {}
        return None, {}
    if kind == 'c03-text':
        # a netlist given as EDIF text: read it, then the write/read oracle
        with ec.TempDir() as tmp:
            n = ec.parse_text(obj['text'], tmp)
        return c03_case(n)
    if kind == 'bundled':
        path = os.path.join(common.REPO, 'example_netlists', 'EDIF_netlists', obj['file'])
        res, info = (bundled_c03 if prop == 'C03' else bundled_c05)(path, BUNDLED_LIMIT)
        if res is not None:
            res = dict(res, signature=res['signature'] + '|' + obj['file'])
        return res, info
    if kind == 'case-file':
        return run_case_file(prop, os.path.join(common.ROOT, obj['file']))
    if kind == 'correspondence-broken':
        b = obj['first_difference']
        if b.get('mechanism') == 'file':
            return ef.tie_one(b.get('text', '')), {}
        m = em.run_model([b['command']])[0] if b.get('command') and not b['command'].startswith('tok <') else b.get('model')
        same = (m == b.get('implementation'))
        return (None if same else {'kind': 'correspondence-broken', 'detail': [b], 'signature': 'correspondence|' + b['mechanism']}), {}
    raise ValueError('unknown case kind %r' % kind)


def run_case_file(prop, path):
    return run_case_obj(prop, json.load(open(path)))


def replay_file(prop, path):
    obj = json.load(open(path))
    res, info = run_case_obj(prop, obj)
    print(json.dumps({'result': 'property holds on this input' if res is None else res}, indent=1, default=str))
    if res is not None:
        known = {k['signature']: k for k in load_findings(prop)}
        if res['signature'] in known:
            print('KNOWN-FINDING: property=%s %s: %s' % (prop, known[res['signature']]['id'], known[res['signature']]['what']))
            return 0
        print('VIOLATION property=%s replay=%s' % (prop, path))
        return 1
    return 0


# ---- evidence texts ----------------------------------------------------------------------------------
def trusted_base(proof):
    return [
        'Coq 8.16.1 kernel (coqc); vm_compute only inside Example/refutation witnesses; no native_compute',
        'Print Assumptions of every theorem in Props/: ' + ('Closed under the global context' if 'Axioms' not in proof['assumptions'] else 'see print_assumptions'),
        'extraction: ExtrOcamlBasic only; nat/N/positive extracted as inductives; no Extract Constant',
        'ocaml/driver_edif.ml (parsing of command lines, printing of answers)',
        'harness/edif_mech.py (calls the real _topological_sort, separate_name_and_index, multibit_add_cable, _output_cable_/_output_port_ref_/_output_inner_pin_, EdifTokenizer on generated inputs)',
        'harness/edif_canon.py (canonical structure, well-formedness check, independent s-expression reader and elaborator), harness/edif_gen.py (generators, independent EDIF writer)',
        'the models (coq/theories/Fmt/EdifTopo.v, EdifLex.v, EdifName.v, EdifCable.v, EdifBus.v, EdifNets.v, EdifFile.v) are hand-written: they are tied to /repo only by the correspondence run reported in this file',
        'harness/edif_file.py (whole-file tie: corruption generator, conversion of the model value into the canonical structure, classification of not-well-formed results)',
        'whole-file READER (C05): Props/C05.v proves well-formedness of every result (all documents), soundness against the declarative meaning on supported documents, soundness and completeness of the per-cell cable assembly; the file-level completeness half of C05_full and the whole-file WRITER statement C03_full are NOT proved: for them this file is test evidence (oracle on generated and bundled inputs)',
        'CPython 3.12 semantics of str/list/dict/set',
    ]


ASSUMPTIONS = {
    'C03': ['netlists are EDIF-expressible (all elements named, no double quote/newline in names, non-empty ports and cables, scalar bundles at index 0, acyclic library dependencies, top instance set)',
            'names and property strings are ASCII without newline; property values are str (any ASCII, double quote and percent included), int, bool or a finite float (-0.0 apart, which reads back as 0.0); port directions may be UNDEFINED, one-pin ports may be arrays', 'one netlist per process call; files are written to a fresh temporary directory',
            'compared: libraries, cells, ports (order, direction, width, array-ness), instances (referenced cell + library, EDIF.properties), nets (name, width, lower index, array flag, ordered pins per bit), top design, names; also the identifiers assigned by the writer against those shown by the reader. NOT compared: Port.lower_index/is_downto (EDIF has no construct for them), properties of cells/ports/nets (the writer only writes instance properties), declaration order of libraries and cells (the writer sorts them)'],
    'C05': ['texts are in the supported subset: EDIF 2 0 0, netlist views, one view per cell, cells declared before use, port/array ports, instances with viewRef/cellRef/libraryRef, nets with joined portRefs (optionally member / instanceRef), rename, string/integer/boolean properties (a string value may hold escapes %n n ..%, e.g. %34% for the double quote: the value is the decoded string), comments, status',
            'identifiers are legal EDIF identifiers, unique per scope case-insensitively; strings contain no double quote',
            'bus bits follow the writer convention (rename <id>_<i>_ "<name>[<i>]")',
            'compared: everything canon(identifiers=True) shows; instance properties with their types; NOT compared: properties of cells/ports/nets, comments, status metadata'],
}

EXPLANATION = {
    'C03': 'Mechanism theorems (Props/C03.v): topological sort, bit-name inverse, multibit assembly, member index inverse, '
           'print/tokenize/read inverse, one-cable write/read round trip; each tied to the code by edif_mech. The whole-file '
           'statement C03_full is evaluated by the oracle: canonical structure before compose == after parse(compose(n)), '
           'independent reading of the written file, well-formedness, identifiers, second round trip; on generated netlists '
           'and on bundled files.',
    'C05': 'Mechanism theorems (Props/C05.v): tokenizer/reader, bit-name splitting, multibit assembly for any order and any '
           'subset, member indexing, one-cable read. Whole-file theorems on the reader model Fmt/EdifFile.v (elab_file, tied to '
           'sdn.parse on valid, generated, bundled and corrupted files: whole_file_tie): every result well formed (all documents), '
           'result = declarative meaning of the document on the supported subset (C05_full_reader_sound), per-cell cable assembly '
           'sound and complete under nets_ok. The whole-file statement C05_full is ALSO evaluated by the oracle: abstract '
           'designs rendered by an independent writer, parsed by spydrnet, compared with the structure the text declares '
           '(derived twice: from the generator and by an independent elaborator of the text), plus well-formedness; and on '
           'bundled files against the independent elaborator.',
}


if __name__ == '__main__':
    # development entry (checks/run goes through harness/dispatch.py):
    #   python3 harness/edif_check.py C03 [--tier quick|thorough] [--replay file]
    a = sys.argv[1:]
    _prop = a[0]
    _tier = a[a.index('--tier') + 1] if '--tier' in a else 'quick'
    _replay = a[a.index('--replay') + 1] if '--replay' in a else None
    sys.exit(run(_prop, _tier, common.seed_default(), _replay))
