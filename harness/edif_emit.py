"""Tie of the whole-file EDIF WRITER model (coq/theories/Fmt/EdifEmit.v: emit_file, extracted,
ocaml/_build/driver_edif command `emitfile`) with the real composer (ComposeEdif) on every netlist
the C03 / C16 checks write:

  the file the real composer wrote, read by the harness's own s-expression reader (edif_canon.read_sexp),
  must be EQUAL, node by node, to emit_file applied to the canonical VALUE of the same netlist (the
  netlist as it is after compose: ordered, identifiers recorded); the six timestamp atoms are taken
  from the written file (emit_file has them as a parameter), nothing else is masked.

With every document the driver also returns EdifEmit.rt_status, the verified round-trip checker
(Props/C03.v C03_emit_roundtrip_checked: status 0 -> EdifFile.elab_file (emit_file n) = Ok (norm_file n)):
  status 0 while the code's write-then-read fails, or status 2/3/4 while the code's write-then-read
  holds, is a disagreement between model and code and reported like any other correspondence break.

A netlist whose state the value type cannot express (see the header of EdifEmit.v) is counted and
not compared. Nothing here edits or filters the oracle of edif_check.c03_case."""
import collections, functools, math, os, subprocess, sys
sys.path.insert(0, os.path.dirname(os.path.abspath(__file__)))
import common
import spydrnet as sdn
from spydrnet.ir import OuterPin

DRIVER = os.path.join(common.OCAML_BUILD, 'driver_edif')
STATS = collections.Counter()
DIR = {0: 0, 2: 1, 3: 2, 1: 3}      # Port.Direction.value -> model (0 undefined, 1 in, 2 out, 3 inout)


class Inexpressible(Exception):
    pass


def tok(s):
    if not isinstance(s, str):
        raise Inexpressible('non-string %s' % type(s).__name__)
    return '-' if s == '' else ','.join(str(ord(c)) for c in s)


def _ident(o):
    try:
        i = o['EDIF.identifier']
    except Exception:
        raise Inexpressible('element without EDIF.identifier')
    if not isinstance(i, str):
        raise Inexpressible('non-string identifier')
    return i


def _name_ident(o, refers=False):
    """name and identifier of an element the writer prints with _output_name_of_object_"""
    i = _ident(o)
    n = o.name
    if not isinstance(n, str):
        raise Inexpressible('non-string name')
    if n == i and o.data.get('EDIF.rename', False) is not False:
        raise Inexpressible('EDIF.rename set on an element whose name equals its identifier')
    if refers and 'oldName' in o.data:
        raise Inexpressible('oldName metadata')
    return [tok(n), tok(i)]


def _ref_ident(o):
    if 'oldName' in o.data:
        raise Inexpressible('oldName metadata')
    return tok(_ident(o))


def float_fields(v):
    """sign, digits, exponent of Decimal(repr(v)).normalize(), recomputed from repr(v) by string operations"""
    r = repr(float(v))
    neg = r.startswith('-')
    r = r.lstrip('+-')
    mant, _, e = r.partition('e')
    a, _, b = mant.partition('.')
    digits = (a + b).lstrip('0')
    exp = (int(e) if e else 0) - len(b)
    if digits == '':
        return neg, '0', 0
    while len(digits) > 1 and digits.endswith('0'):
        digits = digits[:-1]
        exp += 1
    return neg, digits, exp


def _prop(p, allow_float=False):
    out = [tok(p['identifier'])]
    out.append(tok(p['original_identifier']) if 'original_identifier' in p else '~')
    v = p['value']
    if allow_float and isinstance(v, float) and math.isfinite(v):
        neg, digits, exp = float_fields(v)
        return out + ['n', '1' if neg else '0', digits, str(exp)]
    if isinstance(v, str):
        out += ['s', tok(v)]
    elif isinstance(v, bool):
        out += ['b', '1' if v else '0']
    elif isinstance(v, int):
        out += ['i', str(v)]
    else:
        raise Inexpressible('property value of type %s' % type(v).__name__)
    return out


def _pin(pin):
    if isinstance(pin, OuterPin):
        ip = pin.inner_pin
        port = ip.port
        return ['i', tok(_ident(pin.instance)), _ref_ident(port), str(_index(port.pins, ip))]
    port = pin.port
    return ['t', _ref_ident(port), str(_index(port.pins, pin))]


def _index(pins, p):
    for k, q in enumerate(pins):
        if q is p:
            return k
    raise Inexpressible('pin not among the pins of its port')


def _is_float(p):
    return isinstance(p['value'], float) and math.isfinite(p['value'])


def value_tokens(netlist):
    """the float-property parameter and the nvfile value of a composed netlist in the wire format of `emitfile`"""
    floats = []
    out = _name_ident(netlist)
    libs = list(netlist.libraries)
    out.append(str(len(libs)))
    for lib in libs:
        out += _name_ident(lib, refers=True)
        defs = list(lib.definitions)
        out.append(str(len(defs)))
        for d in defs:
            out += _name_ident(d, refers=True)
            ports = list(d.ports)
            out.append(str(len(ports)))
            for p in ports:
                out += _name_ident(p, refers=True)
                out += [str(DIR[p.direction.value]), str(len(p.pins)), '1' if p.is_array else '0']
            kids = list(d.children)
            out.append(str(len(kids)))
            for c in kids:
                out += _name_ident(c)
                if c.reference is None:
                    out.append('~')
                else:
                    if c.reference.library is None:
                        raise Inexpressible('referenced definition outside a library')
                    out += [_ref_ident(c.reference.library), _ref_ident(c.reference)]
                props = c.data['EDIF.properties'] if 'EDIF.properties' in c.data else []
                if any(_is_float(p) for p in props):
                    fx = [tok(_ident(lib)), tok(_ident(d)), tok(_ident(c)), str(len(props))]
                    for p in props:
                        fx += _prop(p, allow_float=True)
                    floats.append(fx)
                    props = [p for p in props if not _is_float(p)]
                out.append(str(len(props)))
                for p in props:
                    out += _prop(p)
            cabs = list(d.cables)
            out.append(str(len(cabs)))
            for cb in cabs:
                out += _name_ident(cb)
                if not isinstance(cb.lower_index, int) or cb.lower_index < 0:
                    raise Inexpressible('negative lower_index')
                out += [str(cb.lower_index), '1' if cb.is_array else '0', str(len(cb.wires))]
                for w in cb.wires:
                    out.append(str(len(w.pins)))
                    for pin in w.pins:
                        out += _pin(pin)
    top = netlist.top_instance
    if top is None:
        out.append('~')
    else:
        out += _name_ident(top)
        if top.reference is None or top.reference.library is None:
            raise Inexpressible('top instance without reference')
        out += [tok(_ident(top.reference.library)), tok(_ident(top.reference))]
    fl = [str(len(floats))]
    for fx in floats:
        fl += fx
    STATS['values with float properties (parameter fl)'] += 1 if floats else 0
    return fl + out


def prog_tokens(netlist):
    if 'EDIF.status.written.program' not in netlist.data:
        return ['~']
    p = netlist.data['EDIF.status.written.program']
    out = [tok(p)]
    if 'EDIF.status.written.program.version' in netlist.data:
        out.append(tok(netlist.data['EDIF.status.written.program.version']))
    else:
        out.append('~')
    return out


# ---- documents ----------------------------------------------------------------------------------
def show_doc(x, out):
    """edif_canon.read_sexp document -> the driver's sexp wire format"""
    if isinstance(x, tuple):
        out.append('A' if x[0] == 'a' else 'S')
        out.append('-' if x[1] == '' else ','.join(str(ord(c)) for c in x[1]))
    else:
        out.append('L')
        out.append(str(len(x)))
        for y in x:
            show_doc(y, out)


def parse_wire(toks, i=0):
    t = toks[i]
    if t in ('A', 'S'):
        s = toks[i + 1]
        return (t.lower(), '' if s == '-' else ''.join(chr(int(c)) for c in s.split(','))), i + 2
    n = int(toks[i + 1])
    i += 2
    items = []
    for _ in range(n):
        y, i = parse_wire(toks, i)
        items.append(y)
    return items, i


def _short(x, depth=0):
    if isinstance(x, tuple):
        return x[1] if x[0] == 'a' else '"%s"' % x[1]
    if depth > 2:
        return '(..)'
    return '(' + ' '.join(_short(y, depth + 1) for y in x[:8]) + (' ..' if len(x) > 8 else '') + ')'


def first_difference(model, real, path='doc'):
    if isinstance(model, tuple) or isinstance(real, tuple):
        if model != real:
            return '%s: model writes %s, composer wrote %s' % (path, _short(model)[:120], _short(real)[:120])
        return None
    for k in range(min(len(model), len(real))):
        d = first_difference(model[k], real[k], '%s[%d]' % (path, k))
        if d:
            hd = _short(model[0]) if model and isinstance(model[0], tuple) else ''
            return d if not hd or ('(%s ' % hd) in d[:60] else d.replace(path + '[', '%s(%s)[' % (path, hd), 1)
    if len(model) != len(real):
        return '%s: model writes %d items %s, composer wrote %d items %s' % (path, len(model), _short(model)[:100], len(real), _short(real)[:100])
    return None


def timestamp_of(doc):
    """the atoms of (status (written (timeStamp ..))) of the written file"""
    try:
        for x in doc[1:]:
            if isinstance(x, list) and x and x[0] == ('a', 'status'):
                for y in x[1:]:
                    if isinstance(y, list) and y and y[0] == ('a', 'written'):
                        for z in y[1:]:
                            if isinstance(z, list) and z and z[0] == ('a', 'timeStamp'):
                                if all(isinstance(a, tuple) and a[0] == 'a' for a in z[1:]):
                                    return [a[1] for a in z[1:]]
    except Exception:
        pass
    return None


# ---- the driver, kept open ------------------------------------------------------------------------
_PROC = [None]


def _unlimit_stack():
    import resource
    try:
        soft, hard = resource.getrlimit(resource.RLIMIT_STACK)
        resource.setrlimit(resource.RLIMIT_STACK, (hard, hard))
    except Exception:
        pass


def ask(line):
    p = _PROC[0]
    if p is None or p.poll() is not None:
        p = subprocess.Popen([DRIVER], stdin=subprocess.PIPE, stdout=subprocess.PIPE, text=True, bufsize=1,
                             preexec_fn=_unlimit_stack)
        _PROC[0] = p
    p.stdin.write(line + '\n')
    p.stdin.flush()
    ans = p.stdout.readline()
    if not ans:
        _PROC[0] = None
        raise RuntimeError('driver_edif died on an emitfile command (exit %s)' % p.poll())
    return ans.rstrip('\n')


def model_document(netlist, ts):
    """('ok', rt, document) | ('raises',) | ('unsupported',) | ('inexpressible', why)"""
    try:
        line = ' '.join(['emitfile', str(len(ts))] + [tok(t) for t in ts] + prog_tokens(netlist) + value_tokens(netlist))
    except Inexpressible as e:
        return ('inexpressible', str(e))
    ans = ask(line)
    if ans in ('raises', 'unsupported'):
        return (ans,)
    if not ans.startswith('ok '):
        raise RuntimeError('driver_edif emitfile: %s' % ans[:200])
    toks = ans.split(' ')
    doc, _ = parse_wire(toks, 5)
    return ('ok', (int(toks[1]), toks[2] == '1', toks[3] == '1', toks[4] == '1'), doc)


def check_written(netlist, doc, info=None, who='C03'):
    """netlist: as it is after compose; doc: the written file read by edif_canon.read_sexp (or None).
    Returns a list of difference lines (empty: the composer wrote what the model writes)."""
    info = info if info is not None else {}
    if doc is None:
        STATS['not-compared: written file not readable by the independent reader'] += 1
        return []
    ts = timestamp_of(doc)
    if ts is None:
        STATS['differs'] += 1
        return ['no (status (written (timeStamp ..))) with atom fields in the written file']
    try:
        m = model_document(netlist, ts)
    except RecursionError:
        STATS['not-compared: harness recursion limit'] += 1
        return []
    if m[0] == 'inexpressible':
        STATS['not-compared: value type cannot express: %s' % m[1]] += 1
        info['emit'] = 'inexpressible'
        return []
    if m[0] == 'unsupported':
        STATS['not-compared: EmUnsupported'] += 1
        info['emit'] = 'unsupported'
        return []
    if m[0] == 'raises':
        STATS['differs'] += 1
        return ['the writer model says compose raises, the composer wrote a file']
    _, (rt, is_ordered, is_fix, writable), mdoc = m
    info['emit_rt'] = rt
    info['emit_writable'] = writable
    STATS['compared'] += 1
    STATS['rt_status:%d' % rt] += 1
    STATS['writable' if writable else 'not-writable'] += 1
    if writable and rt != 0:
        # C03_emit_roundtrip_full (not proved) refuted on this value
        STATS['differs'] += 1
        return ['EdifEmit.writable holds but rt_status = %d: the claimed class is too large (C03_emit_roundtrip_full fails on this value)' % rt]
    if not is_ordered or not is_fix:
        # the real pre-pass has just run: the value must be in dependency order (EdifEmit.ordered) and a
        # fixpoint of the modelled pre-pass (Props/C16.v C16_emit_second_write)
        STATS['differs'] += 1
        return ['after compose the netlist value is %s' % ('not in dependency order (EdifEmit.ordered = false)' if not is_ordered
                                                          else 'not a fixpoint of EdifEmit.prepass')]
    STATS['ordered-and-prepass-fixpoint'] += 1
    if mdoc == doc:
        return []
    STATS['differs'] += 1
    d = first_difference(mdoc, doc)
    return ['writer model (EdifEmit.emit_file) and composer differ: %s' % (d or 'documents differ')]


def check_text(netlist, text, info=None):
    """as check_written, from the written text"""
    import edif_canon as ec
    try:
        doc = ec.read_sexp(text)
    except Exception:
        doc = None
    return check_written(netlist, doc, info)


RT_TEXT = {2: 'the reader model refuses the document the writer model writes',
           3: 'the reader model returns another value than the one written',
           4: 'the document the writer model writes is not its own text (sexp_ok fails)'}
ROUND_TRIP_KINDS = ('reader-rejects-written-file', 'structure-differs', 'identifiers-differ')


def rt_consistency(case):
    """decorator of edif_check.c03_case: the verified checker's verdict against the code's round trip"""
    @functools.wraps(case)
    def wrapped(netlist, *a, **kw):
        res, info = case(netlist, *a, **kw)
        rt = info.get('emit_rt')
        if res is None and rt in RT_TEXT:
            STATS['rt-disagrees-with-code'] += 1
            return {'kind': 'model-round-trip-fails-where-code-holds',
                    'detail': ['EdifEmit.rt_status = %d: %s; the implementation reads its file back to the same netlist' % (rt, RT_TEXT[rt])],
                    'signature': 'model-round-trip-fails-where-code-holds|unexplained'}, info
        if res is not None and info.get('emit_writable') and res.get('kind') in ROUND_TRIP_KINDS + ('reparsed-netlist-not-well-formed',):
            STATS['writable-but-code-round-trip-fails'] += 1
            res = dict(res)
            res['detail'] = list(res.get('detail', [])) + ['EdifEmit.writable holds on this value: inside the class of C03_emit_roundtrip_full']
        if res is not None and rt == 0 and res.get('kind') in ROUND_TRIP_KINDS:
            STATS['rt-disagrees-with-code'] += 1
            res = dict(res)
            res['detail'] = list(res.get('detail', [])) + ['EdifEmit.rt_check holds on this value: the MODEL reads its document back unchanged, the code does not']
        return res, info
    return wrapped


def summary():
    return {'what': 'real composer output (read by edif_canon.read_sexp) == EdifEmit.emit_file (extracted) on the value of the composed netlist, '
                    'timestamp atoms taken from the file; rt_status = verified round-trip checker on the same value',
            'histogram': dict(sorted(STATS.items()))}
