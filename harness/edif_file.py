"""Whole-file tie of the EDIF reader model (coq/theories/Fmt/EdifFile.v: elab_text, extracted into
ocaml/_build/driver_edif, command `file`) with the real reader (sdn.parse):

  * the same text goes through both; the real reader raising <-> the model answering `err`;
    both returning -> the canonical structures (edif_canon.canon(identifiers=True)) must be equal;
    the model answering `unsupported` (construct outside the modelled subset) is counted, not compared;
  * everything the real reader RETURNS is also checked for well-formedness (edif_canon.wf: every
    instance referenced, every port with a pin, ..): a damaged file must make the reader raise,
    never hand back a half-built netlist (C15, EDIF part; the model-side statement is Props/C15.v
    C15_edif_wf_or_error); a truncated valid file and a valid file followed by further tokens must be
    refused (Props/C15.v C15_edif_truncated_rejected / C15_edif_trailing_rejected);
  * inputs: valid files (hand-written, generated, bundled) and single-token / single-construct
    corruptions of small files.

Nothing here decides what is right: a disagreement only says the model (about which the theorems
are proved) and the code differ; edif_check then searches for a failing input of the property."""
import json, os, re, subprocess, resource, collections
import common
import spydrnet as sdn
import edif_canon as ec
import edif_mech as em

DIRS = ['undefined', 'in', 'out', 'inout']

TINY = '''(edif (rename top "Top-Level") (edifVersion 2 0 0) (edifLevel 0) (keywordMap (keywordLevel 0))
 (status (written (timeStamp 2024 1 2 3 4 5) (author "me") (program "indep" (version "1.0")) (comment "c1" "c2")))
 (external prims (edifLevel 0) (technology (numberDefinition (scale 1 (e 1 -6) (unit distance))))
  (cell BUF (cellType GENERIC) (view netlist (viewType NETLIST) (interface (port I (direction INPUT)) (port O (direction OUTPUT)))))
  (cell (rename GND_1 "GND") (cellType GENERIC) (view netlist (viewType NETLIST) (interface (port G (direction OUTPUT)) (designator "g")))))
 (comment "between libraries")
 (library work (edifLevel 0) (technology (numberDefinition))
  (cell mid (cellType GENERIC) (status (written (timeStamp 0 0 0 0 0 0))) (view netlist (viewType NETLIST) (interface (port m (direction INPUT)) (port (array (rename q "q[2:0]") 3) (direction INOUT)))
   (contents (instance x9 (viewRef netlist (cellRef BUF (libraryRef prims))))
    (net m (joined (portRef m) (portRef I (instanceRef x9))))
    (net (rename q_2_ "q[2]") (joined (portRef (member q 0)) (portRef O (instanceRef x9)))))) (property area (integer 12)))
  (cell top (cellType generic) (view netlist (viewType NETLIST)
   (interface (port a (direction INPUT)) (port (array (rename b "b[1:0]") 2) (direction OUTPUT)) (port (rename c_in "c.in")))
   (contents (instance u1 (viewRef netlist (cellRef BUF (libraryRef prims))) (property INIT (string "00FF")) (property (rename w_1 "w[1]") (integer -7) (owner "X")) (property keep (boolean (true))))
    (instance u3 (viewRef netlist (cellRef mid (libraryRef work))))
    (instance u4 (viewRef NETLIST (cellRef MID)))
    (instance u5 (viewRef netlist (cellRef mid)) (property spare (boolean (false))))
    (comment "in contents")
    (instance (rename u2 "u[2]") (viewRef netlist (cellRef buf (libraryRef PRIMS))))
    (net a (joined (portRef a) (portRef I (instanceRef u1)) (portRef I (instanceRef U2))) (property w (integer 3)))
    (net (rename b_0_ "b[0]") (joined (portRef (member b 1)) (portRef O (instanceRef u1))))
    (net (rename b_1_ "b[1]") (joined (portRef (member b 0)) (portRef O (instanceRef u2)) (portRef (member q 2) (instanceRef u3))))
    (net gnd (joined (portRef m (instanceRef u3)) (portRef m (instanceRef u4)) (portRef c_in)))))))
 (design (rename top "Top") (cellRef top (libraryRef work)) (property part (string "xc7a35t")) (comment "kept nowhere"))
 (comment "after the design")
 (external pads (edifLevel 0) (technology (numberDefinition))
  (cell PAD (cellType GENERIC) (view netlist (viewType NETLIST) (interface (port (array (rename P "P[1:0]") 2) (direction INOUT)))))))
'''

TOKEN_RE = re.compile(r'\s+|"[^"]*"|[()]|[^\s()"]+')
GARBAGE = ['zz_nosuch', '(', ')', '"', '"x"', '123', '-1', '0', '&', 'a*', 'rename', 'member', 'x_9_', '1_0', '()',
           'userData', 'portRef', 'NETLIST', 'q', 'BUF', 'work', '5x', '(comment "c")', '(property p (integer 1))',
           '(instance bare)', '(port (array z 0))', '(design d2 (cellRef top (libraryRef work)))', 'cellRef', 'libraryRef']
KINDS = ['delete', 'duplicate', 'truncate', 'replace', 'garbage', 'swap', 'case', 'delete-construct',
         'duplicate-construct', 'move-construct', 'index', 'reref']


def tokens(text):
    return TOKEN_RE.findall(text)


def _construct_end(toks, k):
    depth, j = 0, k
    while j < len(toks):
        if toks[j] == '(':
            depth += 1
        elif toks[j] == ')':
            depth -= 1
            if depth == 0:
                return j
        j += 1
    return None


def corrupt(rng, text, kind=None):
    """one corruption of a text: (text', kind, token index)"""
    toks = tokens(text)
    idx = [i for i, t in enumerate(toks) if not t.isspace()]
    kind = kind or rng.choice(KINDS)
    k = rng.choice(idx)
    if kind == 'delete':
        return ''.join(toks[:k] + toks[k + 1:]), kind, k
    if kind == 'duplicate':
        return ''.join(toks[:k + 1] + [' ', toks[k]] + toks[k + 1:]), kind, k
    if kind == 'truncate':
        return ''.join(toks[:k]), kind, k
    if kind == 'replace':
        return ''.join(toks[:k] + [toks[rng.choice(idx)]] + toks[k + 1:]), kind, k
    if kind == 'garbage':
        return ''.join(toks[:k] + [rng.choice(GARBAGE)] + toks[k + 1:]), kind, k
    if kind == 'swap':
        j = idx[min(idx.index(k) + 1, len(idx) - 1)]
        t2 = list(toks)
        t2[k], t2[j] = t2[j], t2[k]
        return ''.join(t2), kind, k
    if kind == 'case':
        words = [i for i in idx if re.search('[A-Za-z]', toks[i]) and toks[i][0] != '"']
        k = rng.choice(words)
        return ''.join(toks[:k] + [toks[k].swapcase() if rng.random() < 0.5 else toks[k].upper()] + toks[k + 1:]), kind, k
    if kind in ('delete-construct', 'duplicate-construct', 'move-construct'):
        opens = [i for i in idx if toks[i] == '(']
        k = rng.choice(opens)
        j = _construct_end(toks, k)
        if j is None:
            return ''.join(toks[:k]), 'truncate', k
        if kind == 'delete-construct':
            return ''.join(toks[:k] + toks[j + 1:]), kind, k
        if kind == 'duplicate-construct':
            return ''.join(toks[:j + 1] + [' '] + toks[k:j + 1] + toks[j + 1:]), kind, k
        rest = toks[:k] + toks[j + 1:]
        spots = [i for i, t in enumerate(rest) if t in '()']
        if not spots:
            return ''.join(toks[:j]), 'truncate', j
        at = rng.choice(spots)
        return ''.join(rest[:at] + [' '] + toks[k:j + 1] + [' '] + rest[at:]), kind, k
    if kind == 'index':
        ints = [i for i in idx if re.fullmatch(r'[-+]?\d+', toks[i])]
        if ints:
            k = rng.choice(ints)
            v = int(toks[k])
            return ''.join(toks[:k] + [str(rng.choice([v + 1, v - 1, -v - 1, -1, -2, 0, 7, v * 2 + 1, 100000, 70000]))] + toks[k + 1:]), kind, k
        kind = 'reref'
    # reref: the name after a reference keyword re-spelled as another word of the file / an undeclared one
    refs = [i for i in idx if toks[i].lower() in ('cellref', 'libraryref', 'portref', 'instanceref', 'viewref', 'member', 'design')]
    words = [toks[i] for i in idx if re.fullmatch(r'[A-Za-z&][A-Za-z0-9_]*', toks[i])]
    if refs and words:
        r = rng.choice(refs)
        j = next((x for x in idx if x > r and toks[x] not in '()'), None)
        if j is not None:
            return ''.join(toks[:j] + [rng.choice(words + ['zz_undeclared'])] + toks[j + 1:]), 'reref', j
    return ''.join(toks[:k]), 'truncate', k


def exhaustive(text):
    """every single-token deletion, duplication and truncation, every construct deletion"""
    toks = tokens(text)
    idx = [i for i, t in enumerate(toks) if not t.isspace()]
    out = []
    for k in idx:
        out.append((''.join(toks[:k] + toks[k + 1:]), 'delete', k))
        out.append((''.join(toks[:k + 1] + [' ', toks[k]] + toks[k + 1:]), 'duplicate', k))
        out.append((''.join(toks[:k]), 'truncate', k))
        if toks[k] == '(':
            j = _construct_end(toks, k)
            if j is not None and k > 0:
                out.append((''.join(toks[:k] + toks[j + 1:]), 'delete-construct', k))
    return out


# ---- model side -----------------------------------------------------------------------------------
def _s(a):
    return ''.join(map(chr, a))


def _unlimit_stack():
    try:
        soft, hard = resource.getrlimit(resource.RLIMIT_STACK)
        resource.setrlimit(resource.RLIMIT_STACK, (hard, hard))
    except Exception:
        pass


def run_model(texts, timeout=600):
    """list of ('err', reason) | ('ok', model json)"""
    if not texts:
        return []
    lines = ['file ' + em.tok_of_s(t) for t in texts]
    r = subprocess.run([em.DRIVER], input='\n'.join(lines) + '\n', capture_output=True, text=True,
                       preexec_fn=_unlimit_stack, timeout=timeout)
    out = r.stdout.split('\n')
    if out and out[-1] == '':
        out.pop()
    if len(out) != len(lines):
        raise RuntimeError('driver_edif answered %d lines for %d file commands (exit %s): %s' % (len(out), len(lines), r.returncode, r.stderr[-300:]))
    res = []
    for o in out:
        if o.startswith('ok '):
            res.append(('ok', json.loads(o[3:])))
        elif o.startswith('err '):
            res.append(('err', o[4:]))
        else:
            res.append(('err', 'driver:' + o[:80]))
    return res


def model_canon(m):
    """the model's netlist value in the shape of edif_canon.canon(identifiers=True)"""
    out = {'name': _s(m['name']), 'ident': _s(m['ident']), 'libraries': {},
           'order': {'libraries': [_s(L['name']) for L in m['libs']]}}
    libname = {}
    cellof = {}
    for L in m['libs']:
        libname[_s(L['ident'])] = _s(L['name'])
        for C in L['cells']:
            cellof[(_s(L['ident']), _s(C['ident']))] = C

    def ref(r):
        if r is None:
            return None
        li, ci = _s(r[0]), _s(r[1])
        C = cellof.get((li, ci))
        return [libname.get(li, '<undeclared library %s>' % li), _s(C['name']) if C else '<undeclared cell %s>' % ci]
    for L in m['libs']:
        EL = {'cells': {}, 'order': [_s(C['name']) for C in L['cells']], 'ident': _s(L['ident'])}
        ec._put(out['libraries'], _s(L['name']), EL)
        for C in L['cells']:
            EC = {'ports': [], 'instances': {}, 'nets': {}, 'inst_order': [_s(I['name']) for I in C['insts']],
                  'net_order': [_s(c['name']) for c in C['cabs']], 'ident': _s(C['ident'])}
            ec._put(EL['cells'], _s(C['name']), EC)
            pname = {}
            for P in C['ports']:
                pname[_s(P['ident'])] = _s(P['name'])
                EC['ports'].append({'name': _s(P['name']), 'ident': _s(P['ident']), 'direction': DIRS[P['dir']],
                                    'width': P['width'], 'array': bool(P['array']) or P['width'] > 1})
            inst = {}
            for I in C['insts']:
                inst[_s(I['ident'])] = I
                props = []
                for p in I['props']:
                    kind, v = p['val']
                    v = int(v) if kind == 'int' else (_s(v) if kind == 'str' else bool(v))
                    props.append({'identifier': _s(p['ident']), 'original': None if p['orig'] is None else _s(p['orig']), 'value': [kind, v]})
                ec._put(EC['instances'], _s(I['name']), {'ident': _s(I['ident']), 'ref': ref(I['ref']), 'properties': props})

            def pin(p):
                if p[0] == 't':
                    return ['port', pname.get(_s(p[1]), '<undeclared port>'), p[2]]
                I = inst.get(_s(p[1]))
                tc = cellof.get((_s(I['ref'][0]), _s(I['ref'][1]))) if I is not None and I['ref'] is not None else None
                tp = next((_s(P['name']) for P in tc['ports'] if _s(P['ident']) == _s(p[2])), '<undeclared port>') if tc else '<no cell>'
                return ['inst', _s(I['name']) if I else '<undeclared instance>', tp, p[3]]
            for c in C['cabs']:
                ec._put(EC['nets'], _s(c['name']), {'ident': _s(c['ident']), 'width': len(c['wires']), 'lower': c['lower'],
                                                    'array': bool(c['array']) or len(c['wires']) > 1,
                                                    'bits': [[pin(p) for p in w] for w in c['wires']]})
    t = m['top']
    out['top'] = None if t is None else {'name': _s(t['name']), 'ident': _s(t['ident']), 'ref': ref([t['lib'], t['cell']])}
    return out


# ---- implementation side ----------------------------------------------------------------------------
def run_impl(text, tmpdir, limit):
    """('ok', canon, wf complaints) | ('raise', exception class) | ('timeout', None)"""
    try:
        with ec.time_limit(limit):
            n = ec.parse_text(text, tmpdir)
    except ec.Timeout:
        return ('timeout', None, None)
    except RecursionError:
        return ('raise', 'RecursionError', None)
    except BaseException as e:  # noqa: StopIteration, SystemExit .. are all "raised"
        if isinstance(e, KeyboardInterrupt):
            raise
        return ('raise', type(e).__name__, None)
    try:
        with ec.time_limit(max(limit, 30)):
            return ('ok', ec.canon(n, identifiers=True), ec.wf(n))
    except ec.Timeout:
        return ('timeout', None, None)


# what exception the reader raises for each reason of the model (statistics only: the comparison is
# raised <-> err; a class outside this table is counted in the evidence as 'class-other')
EXC_OF = {
    'lex': ('RuntimeError', 'StopIteration'), 'eof': ('StopIteration', 'RuntimeError'),
    'shape': ('RuntimeError', 'TypeError', 'StopIteration', 'ValueError'), 'multiple': ('RuntimeError',),
    'notimpl': ('NotImplementedError', 'RuntimeError'), 'illegal-identifier': ('ValueError',),
    'duplicate-sibling': ('ValueError',), 'undeclared': ('AssertionError', 'RuntimeError', 'KeyError', 'TypeError'),
    'index': ('IndexError',), 'joined-twice': ('AssertionError',), 'no-reference': ('AttributeError',),
    'net-name': ('IndexError', 'StopIteration', 'ValueError'),
}


def judge(model, impl):
    """None = the two sides agree (or the model declines); otherwise a short description"""
    mk = model[0]
    ik = impl[0]
    if mk == 'err' and model[1] == 'unsupported':
        return None
    if ik == 'timeout':
        return 'the reader did not return within the time limit; model: %s' % (model[1] if mk == 'err' else 'ok')
    if mk == 'err' and ik == 'raise':
        return None
    if mk == 'err':
        return 'model rejects (%s), the reader returns a netlist' % model[1]
    if ik == 'raise':
        return 'model accepts, the reader raises %s' % impl[1]
    d = ec.diff(model_canon(model[1]), impl[1], limit=6)
    if d:
        return 'both accept, structures differ: ' + '; '.join(d[:4])
    return None


def tie_texts(cases, tmpdir, limit=10):
    """cases: list of (text, source, kind[, implementation result already computed]). Returns (disagreements, half_built, stats):
    disagreements = dicts in the format of edif_mech; half_built = oracle failures (the reader
    returned a netlist that is not well formed) as result dicts {kind, detail, signature} + text"""
    stats = collections.Counter()
    models = run_model([c[0] for c in cases])
    bad, half = [], []
    for case, m in zip(cases, models):
        text, source, kind = case[:3]
        impl = case[3] if len(case) > 3 and case[3] is not None else run_impl(text, tmpdir, limit)
        mtag = 'ok' if m[0] == 'ok' else m[1]
        stats['model:' + mtag] += 1
        stats['impl:' + impl[0]] += 1
        stats['kind:%s:%s' % (kind, 'unsupported' if mtag == 'unsupported' else impl[0])] += 1
        if m[0] == 'err' and m[1] != 'unsupported' and impl[0] == 'raise':
            stats['class-%s' % ('expected' if impl[1] in EXC_OF.get(m[1], ()) else 'other:%s/%s' % (m[1], impl[1]))] += 1
        if mtag == 'unsupported':
            stats['not-compared'] += 1
        else:
            stats['compared'] += 1
        why = judge(m, impl)
        if why is not None:
            bad.append({'mechanism': 'file', 'command': 'file <%s of %s, sha %s>' % (kind, source, common.sha(text)),
                        'text': text, 'model': 'ok' if m[0] == 'ok' else 'err ' + m[1],
                        'implementation': impl[0] + ('' if impl[1] is None or impl[0] == 'ok' else ' ' + str(impl[1])), 'what': why})
        if impl[0] == 'ok' and impl[2]:
            half.append(({'kind': 'reader-returns-half-built-netlist', 'detail': impl[2][:4],
                          'signature': 'reader-returns-half-built-netlist|unexplained'}, text, source, kind))
            stats['returned-not-well-formed'] += 1
    return bad, half, stats


def tie_one(text, limit=30):
    """one text: result dict (kind, detail, signature) or None; used for corpus / replay files"""
    with ec.TempDir() as tmp:
        bad, half, _ = tie_texts([(text, 'case-file', 'given')], tmp, limit)
    if bad:
        return {'kind': 'model-and-reader-disagree', 'detail': [bad[0]['what']], 'signature': 'correspondence|file'}
    if half:
        return half[0][0]
    return None
