"""Random well-formed hierarchical netlists, expressed as `ir` protocol op histories (so the same
design can be built on the real spydrnet through ir_world.World.apply and on the Coq model through
ocaml/driver_ir). The builder mirrors the allocation order of the ops, so the ids it hands out
are the creation indices both sides use.

    ops, info = build(rng, depth=3, ...)
    info: dict with ids of netlist, libraries, definitions (by layer), top definition/instance

Shapes produced: shared definitions at several depths and across libraries, pass-through cells,
wire-only cells, unconnected pins on both sides, bus ports with non-zero lower_index, leaf cells
(no cables/children), top instance created from a definition (standalone) or also a child."""
from ir_world import tok_of_s


class Builder:
    def __init__(self):
        self.ops = []
        self.next = 0
        self.kind = {}

    def _alloc(self, kind, n=1):
        first = self.next
        for i in range(n):
            self.kind[self.next] = kind
            self.next += 1
        return first

    def netlist(self, name):
        i = self._alloc('netlist')
        self.ops.append(['new', 'netlist', tok_of_s(name) if name is not None else '~', '0'])
        return i

    def library(self, n, name):
        i = self._alloc('library')
        self.ops.append(['create', 'libs', str(n), tok_of_s(name) if name is not None else '~', '0', '0', '~'])
        return i

    def definition(self, l, name):
        i = self._alloc('definition')
        self.ops.append(['create', 'defs', str(l), tok_of_s(name) if name is not None else '~', '0', '0', '~'])
        return i

    def port(self, d, name, npins, direction=None, lower=None, downto=None):
        p = self._alloc('port')
        pins = self._alloc('pin', npins)
        self.ops.append(['create', 'ports', str(d), tok_of_s(name) if name is not None else '~', '0', str(npins), '~'])
        if direction is not None:
            self.ops.append(['direction', str(p), str(direction)])
        if lower is not None:
            self.ops.append(['lower', str(p), str(lower)])
        if downto is not None:
            self.ops.append(['downto', str(p), '1' if downto else '0'])
        return p, list(range(pins, pins + npins))

    def cable(self, d, name, nwires, lower=None, downto=None):
        c = self._alloc('cable')
        wires = self._alloc('wire', nwires)
        self.ops.append(['create', 'cables', str(d), tok_of_s(name) if name is not None else '~', '0', str(nwires), '~'])
        if lower is not None:
            self.ops.append(['lower', str(c), str(lower)])
        if downto is not None:
            self.ops.append(['downto', str(c), '1' if downto else '0'])
        return c, list(range(wires, wires + nwires))

    def child(self, d, name, ref):
        i = self._alloc('instance')
        self.ops.append(['create', 'children', str(d), tok_of_s(name) if name is not None else '~', '0', '0', str(ref) if ref is not None else '~'])
        return i

    def connect_inner(self, w, pin):
        self.ops.append(['connect', str(w), 'I%d' % pin, '~'])

    def connect_outer(self, w, inst, pin, stored=True):
        self.ops.append(['connect', str(w), '%s%d.%d' % ('S' if stored else 'O', inst, pin), '~'])

    def top_from_definition(self, n, d):
        t = self._alloc('instance')
        self.ops.append(['settop', str(n), 'D%d' % d])
        return t

    def top_instance(self, n, x):
        self.ops.append(['settop', str(n), 'I%d' % x])

    def name(self, e, nm):
        self.ops.append(['setname', str(e), tok_of_s(nm)])

    def prop(self, e, k, vtok):
        self.ops.append(['dset', str(e), tok_of_s(k), vtok])


def build(rng, depth=3, max_leaf=3, max_mid_per_layer=2, max_children=4, named=True, two_libs=True,
          unnamed_rate=0.0, top_as_child=False, bus=True, unnamed_cables=False):
    b = Builder()
    info = {'defs': {}, 'layers': [], 'ports': {}, 'cables': {}, 'children': {}}

    def nm(prefix, k):
        if not named or rng.random() < unnamed_rate:
            return None
        return '%s%d' % (prefix, k)

    n = b.netlist('net' if named else None)
    libs = [b.library(n, 'work')]
    if two_libs and rng.random() < 0.6:
        libs.insert(0, b.library(n, 'prims'))
    info['netlist'] = n
    info['libs'] = libs

    # layer 0: leaf cells
    layer0 = []
    for k in range(rng.randint(1, max_leaf)):
        d = b.definition(libs[0], 'LEAF%d' % k)
        ports = []
        for j in range(rng.randint(1, 3)):
            width = rng.choice([1, 1, 1, 2, 3]) if bus else 1
            lower = rng.choice([None, None, 0, 1, 4]) if width > 1 else None
            # ascending buses ([2:5] rather than [5:2]) now and then
            p, pins = b.port(d, nm('p', j), width, direction=rng.choice([1, 2, 2, 3]), lower=lower,
                             downto=(False if (width > 1 and rng.random() < 0.25) else None))
            ports.append((p, pins))
        info['ports'][d] = ports
        info['children'][d] = []
        info['cables'][d] = []
        layer0.append(d)
    info['layers'].append(layer0)

    lower_defs = list(layer0)
    k_def = 0
    for layer in range(1, depth + 1):
        this = []
        count = 1 if layer == depth else rng.randint(1, max_mid_per_layer)
        for _ in range(count):
            d = b.definition(rng.choice(libs), 'M%d_%d' % (layer, k_def))
            k_def += 1
            ports = []
            for j in range(rng.randint(0 if layer == depth else 1, 3)):
                width = rng.choice([1, 1, 2]) if bus else 1
                p, pins = b.port(d, nm('q', j), width, direction=rng.choice([2, 3, 1]))
                ports.append((p, pins))
            kids = []
            for j in range(rng.randint(0 if rng.random() < 0.15 else 1, max_children)):
                # prefer the layer just below so that the hierarchy gets deep; sometimes any lower one
                pool = info['layers'][layer - 1] if rng.random() < 0.6 else lower_defs
                ref = rng.choice(pool)
                x = b.child(d, nm('u', j) or ('u%d' % j), ref)
                kids.append((x, ref))
            cables = []
            # endpoints available for wiring inside d
            inner = [pin for _, pins in ports for pin in pins]
            outer = [(x, pin) for x, ref in kids for _, pins in info['ports'][ref] for pin in pins]
            rng.shuffle(inner)
            rng.shuffle(outer)
            ncab = rng.randint(0 if rng.random() < 0.1 else 1, 4)
            for j in range(ncab):
                width = rng.choice([1, 1, 2]) if bus else 1
                c, wires = b.cable(d, (nm('c', j) if unnamed_cables else (nm('c', j) or ('c%d' % j))), width, lower=rng.choice([None, None, 2]) if width > 1 else None,
                                    downto=(False if (width > 1 and rng.random() < 0.25) else None))
                cables.append((c, wires))
                for w in wires:
                    r = rng.random()
                    # pass-through wires tie two port pins; some wires stay empty
                    npins_in = 2 if (r < 0.15 and len(inner) >= 2) else (1 if (r < 0.6 and inner) else 0)
                    for _ in range(npins_in):
                        b.connect_inner(w, inner.pop())
                    for _ in range(rng.randint(0, 3)):
                        if outer and rng.random() < 0.8:
                            x, pin = outer.pop()
                            b.connect_outer(w, x, pin, stored=rng.random() < 0.5)
            info['ports'][d] = ports
            info['children'][d] = kids
            info['cables'][d] = cables
            this.append(d)
        info['layers'].append(this)
        lower_defs += this
    top_def = info['layers'][-1][0]
    info['top_def'] = top_def
    if top_as_child and len(info['layers']) > 1:
        # the top instance is an explicit instance that is also... kept simple: a standalone named instance
        pass
    t = b.top_from_definition(n, top_def)
    if named:
        b.name(t, 'top')
    info['top'] = t
    info['all_defs'] = lower_defs
    return b.ops, info


def build_world(rng, **kw):
    """Build on the real implementation; returns (World, ops, info). Caller must close the world."""
    from ir_world import World
    ops, info = build(rng, **kw)
    w = World()
    for op in ops:
        out = w.apply(op)
        if out != 'ok':
            w.close()
            raise RuntimeError('netgen produced a refused op %r -> %s' % (op, out))
    return w, ops, info
