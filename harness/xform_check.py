"""Checks of C07 (clone), C08 (uniquify), C09 (flatten) on the `xform` engine: proof re-check,
correspondence of the extracted model (IR ops + clone/uniquify/flatten) with the real code on
hierarchical netlists, and independent oracles (identity sets, canonical structure, union-find
elaboration, well-formedness)."""
import json, os, random, subprocess, sys, time, collections
sys.path.insert(0, os.path.dirname(os.path.abspath(__file__)))
import common
common.ensure_impl_python()
import spydrnet as sdn
import netgen, ir_run, ir_oracles, elab, coq_eval
from ir_world import World, REL, REL_PARENT, REL_CHILD, _OuterPin
from ir_gen import Gen

DRIVER = os.path.join(common.OCAML_BUILD, 'driver_xform')
FUEL = '4000'


def run_model(histories):
    lines = []
    for h in histories:
        lines.append('reset')
        lines += [' '.join(op) for op in h]
    r = subprocess.run([DRIVER], input='\n'.join(lines) + '\n', capture_output=True, text=True)
    if r.returncode != 0:
        raise RuntimeError('xform driver failed: ' + r.stderr[-2000:])
    res, cur = [], None
    for l in r.stdout.split('\n'):
        if l == 'reset':
            cur = []
            res.append(cur)
        elif l and cur is not None:
            cur.append(l)
    return res


# ---------- canonical (id-free) structure of a netlist / element ----------
def canon_data(o):
    return tuple(sorted((k, repr(v)) for k, v in o._data.items() if k != '.NS'))


def canon_pin(p, defn):
    if isinstance(p, _OuterPin):
        inst = p.instance
        ip = p.inner_pin
        if inst is None or ip is None:
            return ('detached',)
        port = ip.port
        return ('outer', list(defn.children).index(inst) if inst in list(defn.children) else ('foreign', inst.name),
                list(inst.reference.ports).index(port) if (inst.reference is not None and port in list(inst.reference.ports)) else ('foreignport',),
                list(port.pins).index(ip) if port is not None else None)
    port = p.port
    return ('inner', list(defn.ports).index(port) if (port is not None and port in list(defn.ports)) else ('foreign',),
            list(port.pins).index(p) if port is not None else None)


def canon_port(p):
    return ('port', canon_data(p), p.direction.value, p.is_downto, p.is_scalar, p.lower_index, len(p.pins))


def canon_cable(c, defn=None):
    return ('cable', canon_data(c), c.is_downto, c.is_scalar, c.lower_index,
            tuple(tuple(canon_pin(q, defn) for q in w.pins) if defn is not None else len(w.pins) for w in c.wires))


def canon_def(d, lib_index):
    def ref_key(r):
        if r is None:
            return None
        return lib_index.get(id(r), ('external', r.name))
    return ('definition', canon_data(d), tuple(canon_port(p) for p in d.ports),
            tuple(canon_cable(c, d) for c in d.cables),
            tuple(('instance', canon_data(x), ref_key(x.reference)) for x in d.children))


def canon_netlist(n):
    lib_index = {}
    for li, lib in enumerate(n.libraries):
        for di, d in enumerate(lib.definitions):
            lib_index[id(d)] = (li, di)
    top = n.top_instance
    topk = None
    if top is not None:
        where = None
        for li, lib in enumerate(n.libraries):
            for di, d in enumerate(lib.definitions):
                if top in list(d.children):
                    where = (li, di, list(d.children).index(top))
        topk = ('top', canon_data(top), lib_index.get(id(top.reference), ('external',)), where)
    return ('netlist', canon_data(n),
            tuple(('library', canon_data(lib), tuple(canon_def(d, lib_index) for d in lib.definitions)) for lib in n.libraries),
            topk)


def reachable(n):
    """every object reachable from a netlist through any link"""
    seen, out = set(), []

    def add(o):
        if o is None or id(o) in seen:
            return False
        seen.add(id(o))
        out.append(o)
        return True
    add(n)
    stack = [n]
    while stack:
        o = stack.pop()
        nxt = []
        if isinstance(o, sdn.ir.Netlist):
            nxt += list(o.libraries) + [o.top_instance]
        elif isinstance(o, sdn.ir.Library):
            nxt += list(o.definitions) + [o.netlist]
        elif isinstance(o, sdn.ir.Definition):
            nxt += list(o.ports) + list(o.cables) + list(o.children) + list(o.references) + [o.library]
        elif isinstance(o, sdn.ir.Port):
            nxt += list(o.pins) + [o.definition]
        elif isinstance(o, sdn.ir.Cable):
            nxt += list(o.wires) + [o.definition]
        elif isinstance(o, sdn.ir.Wire):
            nxt += list(o.pins) + [o.cable]
        elif isinstance(o, sdn.ir.InnerPin):
            nxt += [o.port, o.wire]
        elif isinstance(o, sdn.ir.Instance):
            nxt += [o.parent, o.reference] + list(o._pins.keys()) + list(o._pins.values())
        elif isinstance(o, _OuterPin):
            nxt += [o.instance, o.inner_pin, o.wire]
        for x in nxt:
            if add(x):
                stack.append(x)
    return out


def exact_data_pairs(root, c, lib_pairs):
    """C07_*_clone_data evaluated on the implementation: every first-class element below the copied
    root carries the dictionary of its source entry by entry in order, '.NS' removed and appended with
    the root's policy (when the root has one); ports and cables carry the raw bundle attributes"""
    bad = []
    pairs = [(root, c)]
    bundles = []
    for l0, l1 in lib_pairs:
        if l0 is not root:
            pairs.append((l0, l1))
        for d0, d1 in zip(l0.definitions, l1.definitions):
            pairs.append((d0, d1))
            for grp in ('ports', 'cables', 'children'):
                z = list(zip(getattr(d0, grp), getattr(d1, grp)))
                pairs += z
                if grp != 'children':
                    bundles += z
    for a, b in pairs:
        if '.NS' in root._data:
            exp = [(k, v) for k, v in a._data.items() if k != '.NS'] + [('.NS', root._data['.NS'])]
        else:
            exp = list(a._data.items())
        if list(b._data.items()) != exp:
            bad.append('data of cloned %s: %r, expected %r' % (type(a).__name__, list(b._data.items()), exp))
    for a, b in bundles:
        fa = (a._is_downto, a._is_scalar, a._lower_index, getattr(a, '_direction', None))
        fb = (b._is_downto, b._is_scalar, b._lower_index, getattr(b, '_direction', None))
        if fa != fb:
            bad.append('bundle attributes of cloned %s: %r, source %r' % (type(a).__name__, fb, fa))
    return bad[:3]




# ---------- C07 independence, the statement of C07_locality / C07_independent_of_closed_region ----------
def op_arg_ids(op):
    """the object identifiers an editing op names (mirror of Proofs/LocalityStep.v op_in: an outer pin
    (n, i) counts through its instance n); None for ops outside the editing alphabet"""
    def pin(tok):
        if tok[:1] == 'O':
            return [tok[1:].split('.')[0]]
        if tok[:1] == 'I':
            return [tok[1:]]
        return []
    o = op[0]
    try:
        if o in ('new', 'policy'):
            ids = []
        elif o == 'create':
            ids = [op[2], op[-1]]
        elif o == 'items':
            ids = [op[2]]
        elif o in ('add', 'remove'):
            ids = [op[2], op[3]]
        elif o in ('removefrom', 'reorder'):
            ids = [op[2]] + list(op[4:4 + int(op[3])])
        elif o == 'reorderwire':
            ids = [op[1]] + [x for tk in op[3:3 + int(op[2])] for x in pin(tk)]
        elif o in ('connect', 'disconnect'):
            ids = [op[1]] + pin(op[2])
        elif o == 'disconnectfrom':
            ids = [op[1]] + [x for tk in op[3:3 + int(op[2])] for x in pin(tk)]
        elif o == 'setref':
            ids = [op[1], op[2]]
        elif o == 'settop':
            ids = [op[1]] + ([] if op[2] == 'N' else [op[2][1:]])
        elif o in ('setname', 'delname', 'dset', 'ddel', 'dpop', 'downto', 'scalar', 'lower', 'direction'):
            ids = [op[1]]
        else:
            return None
    except (IndexError, ValueError):
        return None
    out = []
    for x in ids:
        if x in ('~', '?', ''):
            continue
        if not x.isdigit():
            return None
        out.append(int(x))
    return out


INDEP_STATS = collections.Counter()


def region_independence(w, rng, n0, n1, side, with_refs, steps=25):
    """After a completed clone (objects [n0, n1) are the copy): a random history of editing calls whose
    argument objects all lie in one region - the copy together with everything created afterwards, or the
    original together with everything created afterwards - accepted or refused; every field of every
    object of the other region (full dump; reference sets only when with_refs) must be unchanged."""
    in_region = (lambda i: i >= n0) if side == 'copy' else (lambda i: i < n0 or i >= n1)
    others = [i for i in range(n1) if not in_region(i)]

    def dump(i):
        d = w.dump_obj(i)
        return d if with_refs else '; '.join(x for x in d.split('; ') if not x.startswith('refs='))
    snap = [dump(i) for i in others]

    class RGen(Gen):
        def ids(self, kind, pred=None):
            return [i for i in Gen.ids(self, kind, pred) if in_region(i)]
    g = RGen(rng, w, 'structure')
    done = []
    for _ in range(steps * 4):
        if len(done) >= steps:
            break
        op = g.next_op()
        ids = op_arg_ids(op)
        if ids is None or op[0] == 'policy' or not all(in_region(i) and i < len(w.objs) for i in ids):
            INDEP_STATS['skipped'] += 1
            continue
        out = w.apply(op)
        done.append(op)
        INDEP_STATS['ops'] += 1
        INDEP_STATS['op:' + op[0]] += 1
        INDEP_STATS['accepted' if out == 'ok' else 'refused'] += 1
        now = [dump(i) for i in others]
        if now != snap:
            k = next(j for j in range(len(snap)) if now[j] != snap[j])
            return ['independence: %s on the %s (%s) changed object #%d of the other side: %s -> %s; history %s'
                    % (' '.join(op), side, out, others[k], snap[k], now[k], ' / '.join(' '.join(x) for x in done))]
    INDEP_STATS['histories:' + side] += 1
    return []

# ---------- C07 oracle ----------
def c07_oracle(w, rng, root_idx, n0, snap0):
    """w: world after `clone root_idx`; n0 = number of objects before; snap0 = dump lines before"""
    bad = []
    root = w.objs[root_idx]
    kind = w.kind(root)
    if len(w.objs) <= n0:
        return ['clone created no object']
    c = w.objs[n0]
    if w.kind(c) != kind:
        bad.append('clone of a %s is a %s' % (kind, w.kind(c)))
    # the source is never modified, except the documented reference-set registrations
    for i in range(n0):
        a, b = snap0[i], w.dump_obj(i)
        if a != b:
            fa = [x for x in a.split('; ') if not x.startswith('refs=')]
            fb = [x for x in b.split('; ') if not x.startswith('refs=')]
            if fa != fb or kind not in ('library', 'definition', 'instance'):
                bad.append('clone modified the source object: %s -> %s' % (a, b))
            else:
                old = set(a.split('refs={')[1].split('}')[0].split())
                new = set(b.split('refs={')[1].split('}')[0].split())
                if not (old <= new) or any(int(x) < n0 for x in new - old):
                    bad.append('clone changed a reference set beyond registering new instances: %s -> %s' % (a, b))
    if kind == 'netlist':
        new_ids = set(id(o) for o in w.objs[n0:])
        for o in reachable(c):
            if not isinstance(o, _OuterPin) and id(o) not in new_ids:
                bad.append('the copy reaches an element of the original: #%s (%s)' % (w.tok_id(o), w.kind(o)))
            if isinstance(o, _OuterPin) and (id(o.instance) not in new_ids or id(o.inner_pin) not in new_ids):
                bad.append('the copy holds an outer pin naming an element of the original')
        if canon_netlist(root) != canon_netlist(c):
            bad.append('copy is not structurally identical to the original')
        else:
            bad += exact_data_pairs(root, c, list(zip(root.libraries, c.libraries)))
            t0x, t1x = root.top_instance, c.top_instance
            if t0x is not None and t1x is not None and not any(t0x in list(d.children) for lib in root.libraries for d in lib.definitions):
                # a stand-alone top instance is not below the netlist: its copy keeps the dictionary as it is
                if list(t1x._data.items()) != list(t0x._data.items()):
                    bad.append('data of the cloned stand-alone top instance: %r, source %r' % (list(t1x._data.items()), list(t0x._data.items())))
        if not elab.wf_netlist(root):
            for f in elab.wf_netlist(c)[:3]:
                bad.append('copy not well-formed: ' + f)
        t0, t1 = root.top_instance, c.top_instance
        if t0 is not None and t1 is not None and t0.is_top_instance != t1.is_top_instance:
            bad.append('is_top_instance of the top instance: original %s, copy %s' % (t0.is_top_instance, t1.is_top_instance))
        # queries answer like the original
        for lib0, lib1 in zip(root.libraries, c.libraries):
            if lib0.name is not None:
                g0 = [x.name for x in sdn.get_libraries(root, lib0.name)]
                g1 = [x.name for x in sdn.get_libraries(c, lib0.name)]
                if g0 != g1:
                    bad.append('get_libraries(copy, %r) = %s but on the original %s' % (lib0.name, g1, g0))
            for d0, d1 in zip(lib0.definitions, lib1.definitions):
                if d0.name is not None:
                    g0 = [x.name for x in sdn.get_definitions(lib0, d0.name)]
                    g1 = [x.name for x in sdn.get_definitions(lib1, d0.name)]
                    if g0 != g1:
                        bad.append('get_definitions(copy library, %r) = %s but on the original %s' % (d0.name, g1, g0))
                for x0 in d0.children:
                    if x0.name is not None:
                        g0 = [x.name for x in sdn.get_instances(d0, x0.name)]
                        g1 = [x.name for x in sdn.get_instances(d1, x0.name)]
                        if g0 != g1:
                            bad.append('get_instances(copy definition, %r) = %s but on the original %s' % (x0.name, g1, g0))
                        break
        if bad:
            return bad
        bad += nested_data_independence(root, rng)
        if bad:
            return bad
        n1 = len(w.objs)
        # independence: transform / edit one side, the other must not move
        side = rng.choice(['copy', 'orig'])
        victim, other = (c, root) if side == 'copy' else (root, c)
        before = canon_netlist(other)
        ids_other = [i for i, o in enumerate(w.objs) if (i >= n0) == (other is c)]
        snap_other = [w.dump_obj(i) for i in ids_other]
        try:
            for lib in victim.libraries:
                for d in lib.definitions:
                    if d.name is not None:
                        d.name = d.name + '_edited'
                    for cab in list(d.cables)[:1]:
                        for wr in cab.wires:
                            for p in list(wr.pins)[:1]:
                                wr.disconnect_pin(p)
            from spydrnet.uniquify import uniquify
            from spydrnet.flatten import flatten
            # (uniquify / flatten work from the top instance: a netlist without one is outside their domain - the
            # renames and disconnections above are then the whole edit; the PRNG draw is made either way)
            has_top = victim.top_instance is not None
            if has_top:
                uniquify(victim)
            if rng.random() < 0.5 and has_top:
                flatten(victim)
        except Exception as e:  # noqa
            bad.append('edits/transformations on the %s raised %s: %s' % (side, type(e).__name__, e))
        if canon_netlist(other) != before or [w.dump_obj(i) for i in ids_other] != snap_other:
            bad.append('editing the %s changed the other netlist' % side)
        if not bad:
            # independence as stated by C07_locality / C07_independent_of_closed_region: a random history of
            # editing calls on one region (objects created by uniquify / flatten above belong to the side they
            # were made on), full dumps of the other region compared after every call. Run last: random edits
            # may make the hierarchy recursive, which the transformations above do not terminate on.
            n2 = len(w.objs)
            if side == 'copy':
                bad += region_independence(w, rng, n0, n1, 'copy', True)
            else:
                bad += region_independence(w, rng, n0, n1, 'orig', True)
    else:
        new = w.objs[n0:]
        new_ids = set(id(o) for o in new)
        # detached: no parent, side connections cut
        parent_attr = {'library': 'netlist', 'definition': 'library', 'port': 'definition', 'cable': 'definition',
                       'wire': 'cable', 'pin': 'port', 'instance': 'parent'}[kind]
        if getattr(c, parent_attr) is not None:
            bad.append('cloned %s is not detached (parent #%s)' % (kind, w.tok_id(getattr(c, parent_attr))))
        if kind == 'pin' and c.wire is not None:
            bad.append('cloned pin still connected')
        if kind == 'wire' and len(c.pins) != 0:
            bad.append('cloned wire still lists pins')
        if kind == 'port':
            if canon_port(root) != canon_port(c) or any(p.wire is not None for p in c.pins):
                bad.append('cloned port differs or keeps connections')
        if kind == 'cable':
            if canon_cable(root)[:5] != canon_cable(c)[:5] or len(root.wires) != len(c.wires) or any(len(x.pins) for x in c.wires):
                bad.append('cloned cable differs or keeps connections')
        if kind == 'instance':
            if c.reference is not root.reference or canon_data(c) != canon_data(root):
                bad.append('cloned instance has another reference or data')
            if c.reference is not None and not any(x is c for x in c.reference.references):
                bad.append('cloned instance not registered with its reference')
            if any(op.wire is not None for op in c._pins.values()):
                bad.append('cloned instance keeps connections')
            bad += [f for f in ir_oracles.inv2(w) if ('#%d' % n0) in f][:2]
        if kind == 'definition':
            li = {}
            if canon_def(root, li) != canon_def(c, li):
                # references of children are compared as external names in both
                bad.append('cloned definition is not structurally identical')
            # C07_definition_clone_data evaluated on the implementation: every first-class element of the
            # copy carries the dictionary of its source entry by entry IN ORDER, except that - when the
            # definition has a naming policy - '.NS' is removed and appended with the definition's policy;
            # ports and cables carry the raw bundle attributes
            pairs = [(root, c)] + list(zip(root.ports, c.ports)) + list(zip(root.cables, c.cables)) + \
                list(zip(root.children, c.children))
            for a, b in pairs:
                if '.NS' in root._data:
                    exp = [(k, v) for k, v in a._data.items() if k != '.NS'] + [('.NS', root._data['.NS'])]
                else:
                    exp = list(a._data.items())
                if list(b._data.items()) != exp:
                    bad.append('data of cloned %s: %r, expected %r' % (w.kind(a), list(b._data.items()), exp))
            for a, b in list(zip(root.ports, c.ports)) + list(zip(root.cables, c.cables)):
                fa = (a._is_downto, a._is_scalar, a._lower_index, getattr(a, '_direction', None))
                fb = (b._is_downto, b._is_scalar, b._lower_index, getattr(b, '_direction', None))
                if fa != fb:
                    bad.append('bundle attributes of cloned %s: %r, source %r' % (w.kind(a), fb, fa))
            if len(c.references) != 0:
                bad.append('cloned definition has references')
            for x in c.children:
                if x.reference is not None and not any(y is x for y in x.reference.references):
                    bad.append('child of the cloned definition not registered with its reference')
        if kind == 'library':
            if len(root.definitions) == len(c.definitions) and all(
                    len(getattr(d0, g)) == len(getattr(d1, g)) for d0, d1 in zip(root.definitions, c.definitions) for g in ('ports', 'cables', 'children')):
                bad += exact_data_pairs(root, c, [(root, c)])
            for d0, d1 in zip(root.definitions, c.definitions):
                if canon_data(d0) != canon_data(d1) or len(d0.children) != len(d1.children) or len(d0.ports) != len(d1.ports):
                    bad.append('cloned library differs')
                for x0, x1 in zip(d0.children, d1.children):
                    r0, r1 = x0.reference, x1.reference
                    if r0 is not None and r0.library is root:
                        if r1 is None or r1.library is not c:
                            bad.append('reference inside the library not redirected to the copy')
                    elif r1 is not r0:
                        bad.append('external reference changed by library clone')
                    if r1 is not None and not any(y is x1 for y in r1.references):
                        bad.append('child in cloned library not registered with its reference')
        # pointers from the clone stay inside the clone, except documented outward ones
        for o in new:
            k = w.kind(o)
            for rel, (lattr, battr, *_r) in REL.items():
                if REL_CHILD[rel] == k:
                    p = getattr(o, battr)
                    if p is not None and id(p) not in new_ids:
                        bad.append('cloned %s #%s has a parent in the original' % (k, w.tok_id(o)))
            if k == 'wire':
                for p in o.pins:
                    owner = p.instance if isinstance(p, _OuterPin) else p
                    if id(owner) not in new_ids:
                        bad.append('cloned wire lists a pin of the original')
            if k == 'pin' and o.wire is not None and id(o.wire) not in new_ids:
                bad.append('cloned pin attached to a wire of the original')
    return bad


def nested_data_independence(netlist, rng):
    """arbitrary user data (nested containers, as the EDIF reader stores EDIF.properties) must be
    copied, not shared: edit it in a second clone / in the original and look at the other side"""
    import copy
    bad = []
    targets = [netlist]
    for lib in netlist.libraries:
        targets.append(lib)
        for d in lib.definitions:
            targets.append(d)
            targets += list(d.ports)[:1] + list(d.cables)[:1] + list(d.children)[:2]
    if netlist.top_instance is not None and not any(t is netlist.top_instance for t in targets):
        targets.append(netlist.top_instance)   # (a top instance that is one of the children above is listed once)
    for t in targets:
        t['EDIF.properties'] = [{'identifier': 'INIT', 'value': "4'h8", 'nest': {'deep': [1, 2]}}]
    c2 = netlist.clone()

    def collect(n):
        out = [n] + ([n.top_instance] if n.top_instance is not None else [])
        for lib in n.libraries:
            out.append(lib)
            for d in lib.definitions:
                out.append(d)
                out += list(d.ports) + list(d.cables) + list(d.children)
        return [o for o in out if 'EDIF.properties' in o]
    a, b = collect(netlist), collect(c2)
    if len(a) != len(b):
        bad.append('nested user data not carried to the copy')
    for o in b:
        o['EDIF.properties'][0]['value'] = 'changed-in-copy'
        o['EDIF.properties'][0]['nest']['deep'].append(99)
    for o in a:
        v = o['EDIF.properties'][0]
        if v['value'] != "4'h8" or v['nest']['deep'] != [1, 2]:
            bad.append('editing nested user data of the copy changed the original %s %r' % (type(o).__name__, o.name))
            break
    for o in a:
        o['EDIF.properties'][0]['identifier'] = 'changed-in-original'
    for o in b:
        if o['EDIF.properties'][0]['identifier'] != 'INIT':
            bad.append('editing nested user data of the original changed the copy %s %r' % (type(o).__name__, o.name))
            break
    for t in targets:
        del t['EDIF.properties']
    return bad


def names_known_finding(failures):
    return all(f.startswith('get_libraries(copy') or f.startswith('get_definitions(copy') or f.startswith('get_instances(copy') for f in failures)


# ---------- C08 / C09 oracles ----------
def c08_oracle(w, netlist_idx, before, libs_before):
    bad = []
    n = w.objs[netlist_idx]
    after = elab.elaborate(n)
    if after['nonleaf_shared']:
        bad.append('non-leaf instances still share a definition: %s' % after['nonleaf_shared'][:3])
    if after['tree'] != before['tree']:
        bad.append('hierarchical instance tree changed')
    if after['leaves'] != before['leaves']:
        bad.append('leaf cell types/data changed')
    if after['nets'] != before['nets']:
        bad.append('connectivity partition changed')
    for f in elab.wf_netlist(n)[:3]:
        bad.append('not well-formed after uniquify: ' + f)
    # new definitions: fresh unique names in the original's library
    for lib in n.libraries:
        names = [d.name for d in lib.definitions if d.name is not None]
        if len(names) != len(set(names)):
            bad.append('duplicate definition names in library %r' % lib.name)
        old = libs_before.get(id(lib), (set(), set(), set()))
        for d in lib.definitions:
            if id(d) not in old[0] and d.name is not None and d.name in old[1]:
                bad.append('new definition %r reuses an existing name' % d.name)
            if id(d) not in old[0] and 'EDIF.identifier' in d and str(d['EDIF.identifier']).lower() in old[2]:
                bad.append('new definition %r reuses an existing EDIF identifier (without case): %r' % (d.name, d['EDIF.identifier']))
    return bad


def snapshot_libs(n):
    """per library: the definitions, their names and their case-folded EDIF identifiers before a transformation"""
    return dict((id(lib), (set(id(d) for d in lib.definitions), set(d.name for d in lib.definitions),
                           set(str(d['EDIF.identifier']).lower() for d in lib.definitions if 'EDIF.identifier' in d)))
                for lib in n.libraries)


def case_variant(rng, s):
    return rng.choice([s, s.lower(), s.upper(), s.swapcase(), s.capitalize()])


def c09_oracle(w, netlist_idx, before):
    bad = []
    n = w.objs[netlist_idx]
    flat = elab.elaborate_flat(n)
    if flat['nonleaf']:
        bad.append('hierarchical instances remain after flatten: %s' % flat['nonleaf'][:3])
    # the property names a leaf by its slash-joined path: compare the joined strings (a name may itself contain '/',
    # and may be the empty string). A child of the top cell keeps its name or stays unnamed; further down a missing
    # name has to count as something: the empty string.
    def joined(p):
        if len(p) == 1:
            return p[0]
        return '/'.join('' if x is None else x for x in p)
    want = dict((joined(p), v) for p, v in before['leaves'].items())
    got = dict((joined(p), v) for p, v in flat['leaves'].items())
    if len(want) != len(before['leaves']):
        bad.append('two leaf paths of the design have the same slash-joined name (generator)')
    if want != got:
        bad.append('leaf instances after flatten differ from the leaf occurrences before: missing %s extra %s' % (
            sorted(set(want) - set(got), key=repr)[:3], sorted(set(got) - set(want), key=repr)[:3]))

    def norm(nets):
        out = set()
        for g in nets:
            out.add(frozenset((e[0], joined(e[1])) + tuple(e[2:]) if e[0] == 'leaf' else e for e in g))
        return out
    if norm(before['nets']) != norm(flat['nets']):
        bad.append('endpoint partition after flatten differs from the elaboration before')
    for f in elab.wf_netlist(n)[:3]:
        bad.append('not well-formed after flatten: ' + f)
    return bad


# ---------- case generation ----------
def gen_case(prop, seed, case):
    rng = random.Random('%d/%s/%d' % (seed, prop, case))
    depth = rng.choice([1, 2, 2, 3, 3, 4]) if prop != 'C07' else rng.choice([1, 2, 2, 3])
    ops, info = netgen.build(rng, depth=depth, unnamed_rate={'C07': 0.15, 'C08': 0.3}.get(prop, 0.0), unnamed_cables=(prop == 'C08'))
    return rng, ops, info


class Uncopyable:
    def __deepcopy__(self, memo):
        raise RuntimeError('this value cannot be copied')

    def __repr__(self):
        return 'Uncopyable'


def clone_fault(w, rng, root):
    """plant an uncopyable user value on an element of the subtree of `root`, call clone(), expect it to raise,
    and compare every object with its dump from before the call"""
    import spydrnet as sdn
    ro = w.objs[root]
    sub = [ro]
    if isinstance(ro, sdn.ir.Netlist):
        sub += [l for l in ro.libraries] + [d for l in ro.libraries for d in l.definitions] + \
               [x for l in ro.libraries for d in l.definitions for x in list(d.ports) + list(d.cables) + list(d.children)]
    elif isinstance(ro, sdn.ir.Library):
        sub += [d for d in ro.definitions] + [x for d in ro.definitions for x in list(d.ports) + list(d.cables) + list(d.children)]
    elif isinstance(ro, sdn.ir.Definition):
        sub += list(ro.ports) + list(ro.cables) + list(ro.children)
    sub = [e for e in sub if hasattr(e, '_data') and id(e) in w.index]
    if not sub:
        return []
    # the later the element is visited, the more of the copy exists when the fault strikes
    e = sub[-1] if rng.random() < 0.5 else rng.choice(sub)
    key = 'verif.uncopyable'
    e._data[key] = Uncopyable()
    try:
        before = [w.dump_obj(i) for i in range(len(w.objs))]
        n_before = len(w.objs)
        raised = False
        try:
            ro.clone()
        except Exception:  # noqa
            raised = True
        after = [w.dump_obj(i) for i in range(n_before)]
        bad = []
        for i, (a, b) in enumerate(zip(before, after)):
            if a != b:
                bad.append('a clone() that %s changed the source: object %d was [%s], is [%s]' % ('raised half-way' if raised else 'returned', i, a[:160], b[:160]))
        return bad
    finally:
        e._data.pop(key, None)
        # objects the failed clone created are not part of any history: forget them
        del w.objs[n_before:]
        w.index = {k: v for k, v in w.index.items() if v < n_before}


def run_case(prop, seed, case):
    """returns dict(ops, impl_dumps, fails)"""
    rng, ops, info = gen_case(prop, seed, case)
    # C08, names already present (a second stream of random choices, so the designs themselves are unchanged):
    # a quarter of the cases are built under the EDIF naming policy with EDIF identifiers on the cells
    rng_names = random.Random('%d/%s/%d/names' % (seed, prop, case))
    edif = prop == 'C08' and rng_names.random() < 0.25
    if edif:
        ops = [['policy', '1']] + ops
    w = World()
    dumps, fails = [], []
    hist = []
    try:
        def do(op):
            out = w.apply(op)
            hist.append(op)
            dumps.append(w.dump(out))
            return out
        for op in ops:
            if do(op) != 'ok':
                fails.append({'step': len(hist) - 1, 'oracle': 'builder', 'failures': ['netgen op refused']})
                return dict(ops=hist, dumps=dumps, fails=fails, kind='builder')
        nl = info['netlist']
        if prop == 'C07':
            if rng.random() < 0.4:
                # history before the clone: a block that instantiates cells of the netlist is created and then
                # taken out of its library again - its children stay in the reference sets of those cells
                # although they are no longer part of the netlist
                lib = info['libs'][0]
                d_idx = len(w.objs)
                do(['create', 'defs', str(lib), netgen.tok_of_s('old_block'), '0', '0', '~'])
                for j in range(rng.choice([1, 2])):
                    do(['create', 'children', str(d_idx), netgen.tok_of_s('x%d' % j), '0', '0', str(rng.choice(info['all_defs']))])
                do(['remove', 'defs', str(lib), str(d_idx)])
            if rng.random() < 0.4:
                # history before the clone: the ports of a cell that is already instanced are listed in another
                # order (public reorder setter), or a pin is added to an earlier port - the instances then hold
                # their outer pins in an order that differs from the port order of the cell
                cands = [d for layer in info['layers'][:-1] for d in layer if len(info['ports'].get(d) or []) >= 2]
                if cands:
                    d = rng.choice(cands)
                    ports = [p for p, _ in info['ports'][d]]
                    perm = ports[:]
                    rng.shuffle(perm)
                    if perm == ports:
                        perm = ports[1:] + ports[:1]
                    do(['reorder', 'ports', str(d), str(len(perm))] + [str(x) for x in perm])
                    if rng.random() < 0.5:
                        do(['items', 'pins', str(ports[0]), '1'])
            # history before the clone: the netlist has no top instance, or its top instance is one of the instances
            # inside its own cells (both are states the public setter accepts). Own PRNG so that the other choices of
            # the case stay what they were.
            rng_t = random.Random('%d/%s/%d/top' % (seed, prop, case))
            rt = rng_t.random()
            if rt < 0.12:
                do(['settop', str(nl), 'N'])
            elif rt < 0.3:
                inner = [i for i, o in enumerate(w.objs) if w.kind(o) == 'instance' and o.parent is not None and o.parent.library is not None
                         and o.parent.library.netlist is w.objs[nl]]
                if inner:
                    do(['settop', str(nl), 'I%d' % rng_t.choice(inner)])
            r = rng.random()
            if r < 0.45:
                root = nl
            else:
                root = rng.randrange(0, len(w.objs))
            # fault half-way (implementation only, a third of the cases): some element inside what is about to be
            # copied carries a user value that cannot be copied, so the clone raises in the middle of its work;
            # "never modifies the source": afterwards every object is as it was. The value is taken out again
            # behind the API's back, so the history both sides see is unchanged.
            if rng.random() < 0.33:
                bad_src = clone_fault(w, rng, root)
                if bad_src:
                    fails.append({'step': len(hist) - 1, 'oracle': 'Clone', 'failures': bad_src[:4]})
                    return dict(ops=hist, dumps=dumps, fails=fails, kind=w.kind(w.objs[root]))
            n0 = len(w.objs)
            snap0 = [w.dump_obj(i) for i in range(n0)]
            out = do(['clone', str(root)])
            kind = w.kind(w.objs[root])
            if out != 'ok':
                fails.append({'step': len(hist) - 1, 'oracle': 'Clone', 'failures': ['clone of a %s raised (%s)' % (kind, out)]})
            else:
                bad = c07_oracle(w, rng, root, n0, snap0)
                if bad:
                    fails.append({'step': len(hist) - 1, 'oracle': 'Clone', 'failures': bad[:6]})
            return dict(ops=hist, dumps=dumps, fails=fails, kind=kind)
        n = w.objs[nl]
        shape = None
        mids = [d for layer in info['layers'][1:-1] for d in layer]
        if prop == 'C08' and mids and rng.random() < 0.4:
            # history before: a port of a cell that is already instanced is widened, so the order in which the
            # instances hold their outer pins differs from the port order of the definition
            d = rng.choice(mids)
            if info['ports'].get(d):
                do(['items', 'pins', str(rng.choice(info['ports'][d])[0]), '1'])
        if prop == 'C08' and mids and rng.random() < 0.3:
            # history before: a detached instance (kept by the user, e.g. as an alternative top) references a cell of the design
            x_idx = len(w.objs)
            do(['new', 'instance', netgen.tok_of_s('spare'), '0'])
            do(['setref', str(x_idx), str(rng.choice(mids))])
        preseeded = False
        if prop == 'C08':
            T = netgen.tok_of_s
            idents = {}
            if edif or rng_names.random() < 0.15:
                # cells carry EDIF identifiers (also met as plain data under the default policy): a case variant of the name
                for d in info['all_defs']:
                    if w.objs[d].name is not None and rng_names.random() < 0.7:
                        idents[d] = case_variant(rng_names, w.objs[d].name)
                        do(['dset', str(d), T('EDIF.identifier'), 's:' + T(idents[d])])
            if mids and rng_names.random() < (0.7 if edif else 0.35):
                # history before: the library already holds definitions named like the copies uniquify makes, or carrying
                # such an identifier in another case (a netlist uniquified in an earlier process, written out and read
                # back: the module counter is at 0 again) - "new definitions get fresh, non-colliding names"
                preseeded = True
                extra = 0
                shared = [d for d in mids if len(w.objs[d].references) >= 2]   # the cells uniquify will copy
                pool = shared if (shared and rng_names.random() < 0.8) else mids
                for d in rng_names.sample(pool, min(len(pool), rng_names.choice([1, 1, 2]))):
                    dn = w.objs[d].name
                    lib_idx = w.index[id(w.objs[d].library)]
                    others = [l for l in info['libs'] if l != lib_idx]
                    if others and rng_names.random() < 0.3:
                        lib_idx = rng_names.choice(others)      # the same names in another library block nothing
                    for k in sorted(rng_names.sample(range(4), rng_names.choice([1, 2, 3, 4]))):
                        by_ident = d in idents and rng_names.random() < 0.5
                        name = ('seeded%d' % extra) if by_ident else '%s_sdn_unique_%d' % (dn, k)
                        extra += 1
                        op = ['create', 'defs', str(lib_idx), T(name)]
                        if by_ident:
                            op += ['1', T('EDIF.identifier'), 's:' + T(case_variant(rng_names, '%s_sdn_unique_%d' % (idents[d], k)))]
                        elif d in idents and rng_names.random() < 0.5:
                            op += ['1', T('EDIF.identifier'), 's:' + T('seeded_id%d' % extra)]
                        else:
                            op += ['0']
                        if do(op + ['0', '~']) != 'ok':
                            fails.append({'step': len(hist) - 1, 'oracle': 'builder', 'failures': ['pre-seeded definition refused']})
                            return dict(ops=hist, dumps=dumps, fails=fails, kind='builder')
        stripped = 0
        if prop == 'C08' and edif and idents:
            # cells that carry an EDIF identifier but NO name (the shape of the repaired finding
            # C08-uniquify-unnamed-identifier): the copies must get fresh identifiers although there is no name to
            # suffix. Own PRNG so that the other choices of the case stay what they were.
            rng_s = random.Random('%d/%s/%d/stripname' % (seed, prop, case))
            if rng_s.random() < 0.4:
                shared = [d for d in mids if d in idents and len(w.objs[d].references) >= 2]   # the cells uniquify will copy
                pool = shared if (shared and rng_s.random() < 0.85) else [d for d in mids if d in idents]
                for d in rng_s.sample(pool, min(len(pool), rng_s.choice([1, 1, 2]))):
                    if do(['setname', str(d), '~']) != 'ok':
                        fails.append({'step': len(hist) - 1, 'oracle': 'builder', 'failures': ['removing the name of a cell refused']})
                        return dict(ops=hist, dumps=dumps, fails=fails, kind='builder')
                    stripped += 1
        before = elab.elaborate(n)
        libs_before = snapshot_libs(n)
        ndefs_before = sum(len(lib.definitions) for lib in n.libraries)
        out = do(['uniquify', str(nl), FUEL])
        if out != 'ok':
            fails.append({'step': len(hist) - 1, 'oracle': 'Uniquify', 'failures': ['uniquify raised (%s)' % out]})
            return dict(ops=hist, dumps=dumps, fails=fails, kind='uniq')
        # measured: how many candidate suffixes the run had to skip because the library already used them
        import spydrnet.uniquify as _U
        skipped = _U.MOD_NAME_UID - (sum(len(lib.definitions) for lib in n.libraries) - ndefs_before)
        if prop == 'C08':
            bad = c08_oracle(w, nl, before, libs_before)
            if not bad and mids and rng.random() < 0.5:
                # history after: one more instance of a cell that was cloned from, then uniquify again; the new
                # instance is placed in the top cell or inside an (already unique) cell further down, where it
                # instantiates a cell found below that cell
                placed = False
                if rng.random() < 0.5:
                    def below(d, acc):
                        for c in d.children:
                            r = c.reference
                            if r is not None and id(r) not in acc:
                                acc[id(r)] = r
                                below(r, acc)
                        return acc
                    topd = w.objs[info['top_def']]
                    cands = []
                    for dd in below(topd, {}).values():
                        subs = [r for r in below(dd, {}).values() if len(r.children) > 0 and id(r) in w.index]
                        if subs and id(dd) in w.index:
                            cands.append((dd, subs))
                    if cands:
                        dd, subs = rng.choice(cands)
                        do(['create', 'children', str(w.index[id(dd)]), netgen.tok_of_s('again'), '0', '0', str(w.index[id(rng.choice(subs))])])
                        placed = True
                if not placed:
                    do(['create', 'children', str(info['top_def']), netgen.tok_of_s('again'), '0', '0', str(rng.choice(mids))])
                before = elab.elaborate(n)
                libs_before = snapshot_libs(n)
                out = do(['uniquify', str(nl), FUEL])
                if out != 'ok':
                    bad.append('uniquify after adding an instance raised (%s)' % out)
                else:
                    bad = c08_oracle(w, nl, before, libs_before)
            if not bad:
                snap = [w.dump_obj(i) for i in range(len(w.objs))]
                nobj = len(w.objs)
                out = do(['uniquify', str(nl), FUEL])
                if out != 'ok' or len(w.objs) != nobj or [w.dump_obj(i) for i in range(nobj)] != snap:
                    bad.append('second uniquify changed the netlist (%s)' % out)
            if bad:
                fails.append({'step': len(hist) - 1, 'oracle': 'Uniquify', 'failures': bad[:6]})
            return dict(ops=hist, dumps=dumps, fails=fails, skipped=skipped, stripped=stripped, kind='depth%d%s%s%s' % (len(info['layers']), '-edif' if edif else '', '-preseeded' if preseeded else '', '-unnamedcell' if stripped else ''))
        if prop == 'C09' and mids and rng.random() < 0.3:
            # a child whose own name already looks like a path below its parent instance ("u1/q" inside u1)
            d = rng.choice(mids)
            users = [x for kids in info['children'].values() for (x, ref) in kids if ref == d and w.objs[x].name]
            if users and info['children'].get(d):
                c = rng.choice(info['children'][d])[0]
                do(['setname', str(c), netgen.tok_of_s(w.objs[rng.choice(users)].name + '/q')])
        if prop == 'C09' and len(info['layers']) >= 2:
            # a child of the top cell that instantiates a leaf cell has no name: flatten's `e.name = e.name` must
            # leave it unnamed and go on.
            # Own PRNG so that the other choices of the case stay what they were.
            rng_u = random.Random('%d/%s/%d/unnamed' % (seed, prop, case))
            if rng_u.random() < 0.3:
                leafs = set(info['layers'][0])
                cands = [x for (x, ref) in info['children'].get(info['top_def'], []) if ref in leafs and w.objs[x].name is not None]
                if cands:
                    do(['setname', str(rng_u.choice(cands)), '~'])
        if prop == 'C09':
            # names that are the empty string or missing, below the top level: a hierarchical instance called "" is a
            # path component like any other ("/w" below it, "a//w" further down); a hierarchical instance, a leaf
            # instance or a cable WITHOUT a name counts as "" in the joined name. One such element per case (own PRNG),
            # and never next to a sibling whose name is "" or missing, so the joined names stay distinct.
            rng_e = random.Random('%d/%s/%d/emptyname' % (seed, prop, case))
            r = rng_e.random()
            if r < 0.5:
                hier, inner = [], []   # hierarchical instances below the top instance; (element, siblings) inside their cells

                def walk(d, seen):
                    for c in d.children:
                        ref = c.reference
                        if ref is not None and id(ref) not in seen and (len(ref.children) or len(ref.cables)):
                            seen.add(id(ref))
                            hier.append(c)
                            inner.extend((e, list(ref.children)) for e in ref.children
                                         if e.reference is not None and not (len(e.reference.children) or len(e.reference.cables)))
                            inner.extend((e, list(ref.cables)) for e in ref.cables)
                            walk(ref, seen)
                walk(w.objs[info['top_def']], set())
                free = lambda e, sibs: id(e) in w.index and not any(x is not e and x.name in ('', None) for x in sibs)  # noqa
                hier = [c for c in hier if free(c, list(c.parent.children))]
                inner = [(e, sibs) for (e, sibs) in inner if free(e, sibs)]
                if r < 0.2 and hier:
                    c = rng_e.choice(hier)
                    shape = 'hierarchical instance named "" (%s)' % ('child of the top' if c.parent is w.objs[info['top_def']] else 'further down')
                    do(['setname', str(w.index[id(c)]), netgen.tok_of_s('')])
                elif r < 0.4 and hier:
                    c = rng_e.choice(hier)
                    shape = 'hierarchical instance without a name (%s)' % ('child of the top' if c.parent is w.objs[info['top_def']] else 'further down')
                    do(['setname', str(w.index[id(c)]), '~'])
                elif inner:
                    c = rng_e.choice(inner)[0]
                    shape = '%s without a name inside a hierarchical cell' % ('cable' if isinstance(c, sdn.ir.Cable) else 'leaf instance')
                    do(['setname', str(w.index[id(c)]), '~'])
        if prop == 'C09':
            # cables and instances that carry an EDIF identifier (a design read from EDIF, met as plain data under the
            # default policy): flatten gives every element it brings to the top a fresh identifier from its own counter
            # ("cable_sdn_flat_<n>" / "instance_sdn_flat_<n>") - the model's flat_ctr. Own PRNG so that the other
            # choices of the case stay what they were.
            rng_i = random.Random('%d/%s/%d/edifid' % (seed, prop, case))
            if rng_i.random() < 0.3:
                elems = [i for i, o in enumerate(w.objs) if (w.kind(o) == 'cable' and o.definition is not None)
                         or (w.kind(o) == 'instance' and o.parent is not None)]
                for k, i in enumerate(rng_i.sample(elems, min(len(elems), rng_i.choice([1, 2, 4, 8])))):
                    do(['dset', str(i), netgen.tok_of_s('EDIF.identifier'), 's:' + netgen.tok_of_s('id_%d' % k)])
        before = elab.elaborate(n)
        out = do(['flatten', str(nl), FUEL])
        if out != 'ok':
            fails.append({'step': len(hist) - 1, 'oracle': 'Flatten', 'failures': ['flatten raised (%s)' % out]})
        else:
            bad = c09_oracle(w, nl, before)
            leaves = list(info['layers'][0]) if len(info['layers']) >= 2 else []
            if not bad and len(leaves) >= 2 and rng.random() < 0.4:
                # history after: a cell that was a leaf (a black box) is filled in with an instance of another
                # leaf cell, so it is no longer a leaf, and the same netlist is flattened again - anything the
                # transformation remembers about definitions between calls shows here
                # (a cell instantiated by an unnamed instance included: that instance is then a hierarchical instance
                #  without a name)
                used = [d for d in leaves if any(ref == d for kids in info['children'].values() for (_x, ref) in kids)]
                if used:
                    d = rng.choice(used)
                    other = rng.choice([x for x in leaves if x != d])
                    do(['create', 'children', str(d), netgen.tok_of_s('fill'), '0', '0', str(other)])
                    before = elab.elaborate(n)
                    out = do(['uniquify', str(nl), FUEL])   # flatten requires a uniquified netlist
                    if out == 'ok':
                        out = do(['flatten', str(nl), FUEL])
                    if out != 'ok':
                        bad.append('second flatten (after filling in a leaf cell) raised (%s)' % out)
                    else:
                        bad = c09_oracle(w, nl, before)
            if bad:
                fails.append({'step': len(hist) - 1, 'oracle': 'Flatten', 'failures': bad[:6]})
        return dict(ops=hist, dumps=dumps, fails=fails, kind='depth%d' % len(info['layers']), shape=shape)
    finally:
        w.close()


def clash_witness():
    """Props/C08.v, C08_name_clash_repaired_sample (the repaired finding C08-uniquify-name-clash): library 'work'
    already holds 'mid_sdn_unique_0' when uniquify (counter 0, a fresh process) has to clone 'mid'. Proved of the
    model: the run completes, the copy takes the next free name mid_sdn_unique_1 and is added right after mid, m1
    is re-pointed to it, no copy is left outside the library. Run on the implementation and on the model, step by step."""
    T = netgen.tok_of_s
    ops = [['new', 'netlist', '~', '0'],
           ['create', 'libs', '0', T('work'), '0', '0', '~'],
           ['create', 'defs', '1', T('INV'), '0', '0', '~'],
           ['create', 'ports', '2', T('A'), '0', '1', '~'],
           ['create', 'defs', '1', T('mid'), '0', '0', '~'],
           ['create', 'children', '5', T('u'), '0', '0', '2'],
           ['create', 'cables', '5', T('n'), '0', '1', '~'],
           ['connect', '8', 'S6.4', '~'],
           ['create', 'ports', '5', T('P'), '0', '1', '~'],
           ['connect', '8', 'I10', '~'],
           ['create', 'defs', '1', T('top'), '0', '0', '~'],
           ['create', 'children', '11', T('m1'), '0', '0', '5'],
           ['create', 'children', '11', T('m2'), '0', '0', '5'],
           ['create', 'cables', '11', T('t'), '0', '1', '~'],
           ['connect', '15', 'S12.10', '~'],
           ['connect', '15', 'S13.10', '~'],
           ['settop', '0', 'D11'],
           ['create', 'defs', '1', T('mid_sdn_unique_0'), '0', '0', '~'],
           ['uniquify', '0', FUEL]]
    w = World()
    dumps, outs = [], []
    try:
        for op in ops:
            out = w.apply(op)
            outs.append(out)
            dumps.append(w.dump(out))
        lib = w.objs[1]
        facts = {'outcome': outs[-1], 'objects': len(w.objs),
                 'library': [d.name for d in lib.definitions],
                 'copy': (w.objs[18].name, w.objs[18].library is lib) if len(w.objs) > 18 else None,
                 'leaf_references': len(w.objs[2].references),
                 'leaf_references_outside_library': len([x for x in w.objs[2].references if x.parent is None or x.parent.library is not lib]),
                 'm1_reference': w.objs[12].reference.name, 'm2_reference': w.objs[13].reference.name,
                 'counter_after': __import__('spydrnet.uniquify', fromlist=['x']).MOD_NAME_UID}
    finally:
        w.close()
    model = run_model([ops])[0]
    dis = [j for j, (a, b) in enumerate(zip(dumps, model)) if a != b]
    expected = {'outcome': 'ok', 'objects': 24, 'library': ['INV', 'mid', 'mid_sdn_unique_1', 'top', 'mid_sdn_unique_0'],
                'copy': ('mid_sdn_unique_1', True), 'leaf_references': 2, 'leaf_references_outside_library': 0,
                'm1_reference': 'mid_sdn_unique_1', 'm2_reference': 'mid', 'counter_after': 2}
    return {'ops': ops, 'facts': facts, 'expected': expected, 'as_proved': facts == expected, 'first_disagreement_step': dis[:1],
            'model_steps': len(model), 'impl_steps': len(dumps)}



def unnamed_identifier_witness():
    """Props/C08.v, C08_unnamed_cell_with_identifier_sample (the repaired finding C08-uniquify-unnamed-identifier): a
    cell with an EDIF identifier but no name, under the EDIF policy, instantiated twice. _make_instance_unique used to
    rename the copy only when the cell has a name, so the copy kept the identifier and add_definition refused it with
    ValueError half-way. Proved of the model: the run completes, the copy carries the identifier mid_sdn_unique_0 and
    no name, sits right after the cell in its library, instance a is re-pointed to it, the counter ends at 1, nothing
    is left outside the library. Run on the implementation and on the model, step by step."""
    T = netgen.tok_of_s
    ops = [['policy', '1'],
           ['new', 'netlist', T('n'), '0'],
           ['create', 'libs', '0', T('work'), '0', '0', '~'],
           ['create', 'defs', '1', T('LEAF'), '0', '0', '~'],
           ['create', 'defs', '1', '~', '1', T('EDIF.identifier'), 's:' + T('mid'), '0', '~'],
           ['create', 'children', '3', T('u'), '0', '0', '2'],
           ['create', 'defs', '1', T('top'), '0', '0', '~'],
           ['create', 'children', '5', T('a'), '0', '0', '3'],
           ['create', 'children', '5', T('b'), '0', '0', '3'],
           ['settop', '0', 'D5'],
           ['uniquify', '0', FUEL]]
    w = World()
    dumps, outs = [], []
    try:
        for op in ops:
            out = w.apply(op)
            outs.append(out)
            dumps.append(w.dump(out))
        lib = w.objs[1]
        copy = w.objs[9] if len(w.objs) > 9 else None
        facts = {'outcome': outs[-1], 'objects': len(w.objs), 'library': [d.name for d in lib.definitions],
                 'library_identifiers': [d['EDIF.identifier'] if 'EDIF.identifier' in d else None for d in lib.definitions],
                 'copy': (copy.name, copy['EDIF.identifier'] if 'EDIF.identifier' in copy else None, copy.library is lib) if copy is not None else None,
                 'leaf_references': len(w.objs[2].references),
                 'leaf_references_outside_library': len([x for x in w.objs[2].references if x.parent is None or x.parent.library is not lib]),
                 'a_references_copy': copy is not None and w.objs[6].reference is copy, 'b_references_original': w.objs[7].reference is w.objs[3],
                 'counter_after': __import__('spydrnet.uniquify', fromlist=['x']).MOD_NAME_UID}
    finally:
        w.close()
    model = run_model([ops])[0]
    dis = [j for j, (a, b) in enumerate(zip(dumps, model)) if a != b]
    expected = {'outcome': 'ok', 'objects': 11, 'library': ['LEAF', None, None, 'top'],
                'library_identifiers': [None, 'mid', 'mid_sdn_unique_0', None], 'copy': (None, 'mid_sdn_unique_0', True),
                'leaf_references': 2, 'leaf_references_outside_library': 0, 'a_references_copy': True, 'b_references_original': True,
                'counter_after': 1}
    return {'ops': ops, 'facts': facts, 'expected': expected, 'as_proved': facts == expected, 'first_disagreement_step': dis[:1],
            'model_steps': len(model), 'impl_steps': len(dumps)}


QUICK = {'C07': 120, 'C08': 120, 'C09': 120}
# extraction/driver cross-check against `Eval vm_compute` (harness/coq_eval.py): number of cases per run
XCHECK = {'quick': 40, 'thorough': 500}
THOROUGH = {'C07': 2500, 'C08': 2500, 'C09': 2500}


def run(prop, tier, seed, replay):
    t0 = time.time()
    rep = common.Reporter(prop)
    if replay:
        obj = json.load(open(replay))
        rc = coq_eval.replay(prop, obj, replay)
        if rc is not None:
            return rc
        if 'case' in obj:
            res = run_case(prop, obj['seed'], obj['case'])
            model = run_model([res['ops']])[0]
            dis = [j for j, (a, b) in enumerate(zip(res['dumps'], model)) if a != b]
            print(json.dumps({'oracle_failures': res['fails'], 'first_disagreement_step': dis[:1]}, indent=1))
            if res['fails'] or dis:
                print('VIOLATION property=%s replay=%s' % (prop, replay))
                return 1
        return 0
    ok, log = common.build_if_needed()
    proof = common.check_props_file(prop)
    if not ok or not proof['ok']:
        rep.violation('proof', {'kind': 'proof-obligation', 'theorem_file': 'coq/theories/Props/%s.v' % prop,
                                'build_ok': ok, 'log': log[-1500:], 'coqc_output': proof['assumptions'][-1500:]}, found_input=False)
    ncases = (QUICK if tier == 'quick' else THOROUGH)[prop]
    known = common.load_known_findings(prop)
    kinds = collections.Counter()
    sizes = collections.Counter()
    shapes = collections.Counter()
    results = []
    for c in range(ncases):
        res = run_case(prop, seed, c)
        res['case'] = c
        results.append(res)
        kinds[res['kind']] += 1
        if prop == 'C09':
            shapes[res.get('shape') or 'all names below the top level present and non-empty'] += 1
        sizes[len(res['dumps'][-1].split(' | ')) - 3 if res['dumps'] else 0] += 1
    model = run_model([r['ops'] for r in results])
    n_dis = n_or = n_known = 0
    steps = 0
    reported = 0
    distinct = set()
    for res, md in zip(results, model):
        steps += len(res['ops'])
        distinct.add(common.sha(json.dumps(res['ops'])))
        dis = None
        for j, (a, b) in enumerate(zip(res['dumps'], md)):
            if a != b:
                dis = (j, ir_run.first_diff(a, b))
                break
        if dis is None and len(md) != len(res['dumps']):
            dis = (min(len(md), len(res['dumps'])), {'impl': len(res['dumps']), 'model': len(md)})
        if res['fails']:
            n_or += 1
            f = res['fails'][0]['failures']
            matched = False
            for k in known:
                if k.get('status') == 'open' and k.get('signature') == 'clone-names-not-registered' and prop == 'C07' and names_known_finding(f):
                    matched = True
                    if n_known == 0:
                        rep.known_finding('%s: %s' % (k.get('id'), k.get('what')))
                    n_known += 1
            if not matched and reported < 5:
                reported += 1
                rep.violation('case-%d-%d' % (seed, res['case']),
                              {'kind': 'property-violation-on-implementation', 'engine': 'xform', 'seed': seed, 'case': res['case'],
                               'last_op': ' '.join(res['ops'][-1]), 'oracle': res['fails'][:3],
                               'ops': [' '.join(o) for o in res['ops']]})
        elif dis is not None:
            n_dis += 1
            if reported < 5:
                reported += 1
                rep.violation('case-%d-%d' % (seed, res['case']),
                              {'kind': 'correspondence-broken', 'engine': 'xform', 'seed': seed, 'case': res['case'],
                               'what': 'model (coq/theories/Xform/*.v, IR/*.v; theorems of Props/%s.v) and implementation disagree; the property oracle found no failing input on this case' % prop,
                               'step': dis[0], 'op': ' '.join(res['ops'][dis[0]]) if dis[0] < len(res['ops']) else None,
                               'first_difference': dis[1], 'ops': [' '.join(o) for o in res['ops']]}, found_input=False)
    # extraction + driver glue cross-checked against the kernel's evaluator on an evenly spread sample of the same cases
    want = XCHECK[tier] if not (prop == 'C09' and tier == 'quick') else 16   # flatten histories are the slowest to evaluate inside coqc
    xc_sample = [r for r in results if r['ops']][::max(1, len(results) // want)][:want]
    xc_res = coq_eval.check_digests('xform', [r['ops'] for r in xc_sample],
                                    weights=[len(r['dumps'][-1].split(' | ')) ** 2 if r['dumps'] else 1 for r in xc_sample])
    for m in xc_res['mismatches']:
        if m.get('case') is not None:
            m['source'] = 'generated case %d of seed %d' % (xc_sample[m['case']]['case'], seed)
    xc_ev = coq_eval.report(rep, prop, 'xform', xc_res)

    witness = None
    if prop == 'C08':
        witness = clash_witness()
        if not witness['as_proved'] and witness['facts'].get('outcome') != 'ok':
            # the implementation stops half-way: "new definitions get fresh, non-colliding names" fails on this input
            rep.violation('clash-witness', {'kind': 'property-violation-on-implementation', 'engine': 'xform',
                                            'what': 'uniquify does not complete on a netlist whose library already holds the name it '
                                                    'generates first (mid_sdn_unique_0): ' + str(witness['facts'].get('outcome')),
                                            'ops': [' '.join(o) for o in witness['ops']], 'facts': witness['facts'],
                                            'expected': witness['expected'], 'witness_script': 'corpus/py/c08-uniquify-name-clash.py'})
        elif not witness['as_proved']:
            rep.violation('clash-witness', {'kind': 'property-violation-on-implementation', 'engine': 'xform',
                                            'what': 'uniquify completes on the name-clash witness but not with the result proved of the model '
                                                    '(Props/C08.v, C08_name_clash_repaired_sample): next free name, copy inside the library, '
                                                    'instance re-pointed, no stray reference',
                                            'ops': [' '.join(o) for o in witness['ops']], 'facts': witness['facts'], 'expected': witness['expected']})
        elif witness['first_disagreement_step'] or witness['model_steps'] != witness['impl_steps']:
            rep.violation('clash-witness', {'kind': 'correspondence-broken', 'engine': 'xform',
                                            'what': 'the name-clash witness of Props/C08.v (C08_name_clash_repaired_sample) behaves differently on the implementation and on the model',
                                            'witness': witness}, found_input=False)
    unnamed = None
    if prop == 'C08':
        unnamed = unnamed_identifier_witness()
        if not unnamed['as_proved'] and unnamed['facts'].get('outcome') != 'ok':
            # the implementation stops half-way: "new definitions get fresh, non-colliding names" fails on this input
            rep.violation('unnamed-identifier-witness', {'kind': 'property-violation-on-implementation', 'engine': 'xform',
                                                         'what': 'uniquify does not complete on a netlist (EDIF naming policy) in which a cell that carries an '
                                                                 'EDIF.identifier but no name is instantiated twice: ' + str(unnamed['facts'].get('outcome')),
                                                         'ops': [' '.join(o) for o in unnamed['ops']], 'facts': unnamed['facts'],
                                                         'expected': unnamed['expected'], 'witness_script': 'corpus/py/c08-uniquify-unnamed-cell.py'})
        elif not unnamed['as_proved']:
            rep.violation('unnamed-identifier-witness', {'kind': 'property-violation-on-implementation', 'engine': 'xform',
                                                         'what': 'uniquify completes on the unnamed-cell witness but not with the result proved of the model '
                                                                 '(Props/C08.v, C08_unnamed_cell_with_identifier_sample): identifier mid_sdn_unique_0 on the copy, '
                                                                 'copy inside the library, instance re-pointed, no stray reference',
                                                         'ops': [' '.join(o) for o in unnamed['ops']], 'facts': unnamed['facts'], 'expected': unnamed['expected']})
        elif unnamed['first_disagreement_step'] or unnamed['model_steps'] != unnamed['impl_steps']:
            rep.violation('unnamed-identifier-witness', {'kind': 'correspondence-broken', 'engine': 'xform',
                                                         'what': 'the unnamed-cell witness of Props/C08.v (C08_unnamed_cell_with_identifier_sample) behaves differently on the implementation and on the model',
                                                         'witness': unnamed}, found_input=False)
    wall = time.time() - t0
    theorems = proof['theorems']
    coverage = {
        'obligations': len(theorems), 'discharged': len(theorems) if (ok and proof['ok']) else 0,
        'checker_cmd': 'cd /verif && tools/build.sh && ' + proof['cmd'],
        'extraction_crosscheck': xc_ev,
        'trusted_base': [
            'Coq 8.16.1 kernel; Print Assumptions of the theorems in Props/%s.v: %s' % (prop, 'Closed under the global context' if 'Axioms' not in proof['assumptions'] else 'see print_assumptions'),
            'extraction (ExtrOcamlBasic only), ocaml/driver_xform.ml, harness/xform_check.py, harness/elab.py, harness/netgen.py, harness/ir_world.py',
            coq_eval.trusted_base_line('xform', xc_ev),
            'hand-written model coq/theories/Xform/{Clone,Xform}.v + IR/*.v, tied to /repo only by this correspondence run',
        ],
        'theorems': theorems, 'print_assumptions': proof['assumptions'][-2500:],
        'programs': len(results), 'disagreements_checked': steps,
        'evaluations': len(results), 'distinct_nontrivial': len(distinct),
        'rule': 'random hierarchical netlists from harness/netgen.py (depth 1-4, shared definitions, pass-through cells, bus ports, unconnected pins), then the transformation; every case has >= 20 ops so all are non-trivial; distinct by hash of the op history',
        'samples': [{'case': r['case'], 'kind': r['kind'], 'last_ops': [' '.join(o) for o in r['ops'][-3:]], 'objects': len(r['dumps'][-1].split(' | ')) - 3} for r in results[:3]],
        'independence_region_histories': (dict(sorted(INDEP_STATS.items()), what='after a completed Netlist.clone (and the fixed rename/disconnect/uniquify/flatten '
            'pattern on one side): a random history of up to 25 editing calls (generator of the ir engine, profile structure) whose argument objects all lie in ONE region - '
            'the copy plus everything created on it afterwards, or the original plus everything created on it afterwards; an outer pin counts through its instance - '
            'accepted or refused; after EVERY call the full dump (all fields incl. reference sets, data, namespace tables) of every object of the OTHER region is compared '
            'with the dump before the history: the statement of Props/C07.v C07_locality / C07_independent_of_closed_region evaluated on the implementation') if prop == 'C07' else None),
        'case_kind_histogram': dict(kinds), 'objects_histogram': dict(sorted(sizes.items())),
        'empty_or_missing_name_histogram': dict(shapes),
        'model_impl_disagreements': n_dis, 'oracle_failures': n_or, 'known_finding_hits': n_known,
        'name_clash_witness': witness,
        'unnamed_identifier_witness': unnamed,
        'cases_with_preseeded_names': sum(1 for r in results if 'preseeded' in r['kind']),
        'cases_with_unnamed_cells_carrying_identifiers': sum(1 for r in results if r.get('stripped', 0) > 0),
        'cases_where_uniquify_skipped_a_used_suffix': sum(1 for r in results if r.get('skipped', 0) > 0),
        'suffixes_skipped_total': sum(max(0, r.get('skipped', 0)) for r in results),
        'exhaustive': False,
    }
    common.write_evidence(prop, tier, seed, coverage, wall, len(rep.violations),
                          ['netlists are well-formed (built by netgen); names ASCII',
                           'module-level counters of uniquify.py/flatten.py are reset to 0 at the start of each case on both sides'])
    print('%s %s: %d cases, %d steps, %d disagreements, %d oracle failures (%d known), proof %s (%d theorems), '
          'extraction cross-check %d cases / %d mismatches (%.1fs), %.1fs' % (
              prop, tier, len(results), steps, n_dis, n_or, n_known, 'ok' if (ok and proof['ok']) else 'BROKEN', len(theorems),
              xc_ev['cases'], xc_ev['mismatches'], xc_ev['wall_s'], wall))
    return rep.exit_code()
