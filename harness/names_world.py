"""Engine `names` (C17): runs the real spydrnet naming code on sibling lists and prints the same
canonical answer lines as ocaml/driver_names.ml; also runs the extracted model in batch."""
import os, subprocess, sys
sys.path.insert(0, os.path.dirname(os.path.abspath(__file__)))
import common

DRIVER = os.path.join(common.OCAML_BUILD, 'driver_names')
KINDS = ('instance', 'cable', 'port', 'definition', 'library')


def tok(s):
    if s is None:
        return '~'
    return '-' if s == '' else ','.join(str(ord(c)) for c in s)


def untok(t):
    if t == '~':
        return None
    return '' if t == '-' else ''.join(chr(int(x)) for x in t.split(','))


def make_objects(kind, sibs):
    """sibs = [(name, pre_identifier or None, rename_flag)] -> real spydrnet elements (standalone,
    DEFAULT naming policy, so any string is accepted as name / identifier)."""
    import spydrnet as sdn
    cls = {'instance': sdn.Instance, 'cable': sdn.Cable, 'port': sdn.Port,
           'definition': sdn.Definition, 'library': sdn.Library}[kind]
    objs = []
    for name, ident, ren in sibs:
        o = cls()
        o.name = name
        if ident is not None:
            o['EDIF.identifier'] = ident
        if ren:
            o['EDIF.rename'] = True
        objs.append(o)
    return objs


def exn_name(e):
    if isinstance(e, IndexError):
        return 'index'
    if isinstance(e, RecursionError):
        return 'fuel'
    return 'other:' + type(e).__name__


def impl_make_valid(kind, sibs, i, name):
    """EdififyNames().make_valid(obj, objects) with obj = objects[i] renamed to `name` when i is in
    range, else a fresh non-member object."""
    from spydrnet.composers.edif.edifify_names import EdififyNames
    objs = make_objects(kind, sibs)
    if 0 <= i < len(objs):
        obj = objs[i]
        assert obj.name == name
    else:
        obj = make_objects(kind, [(name, None, False)])[0]
    try:
        return 'ok ' + tok(EdififyNames().make_valid(obj, objs))
    except Exception as e:  # noqa
        return exn_name(e)


def impl_assign(kind, sibs):
    """the per-scope loop of ComposeEdif._edifify_netlist: for o in scope: _add_rename_property(o, scope, names)"""
    from spydrnet.composers.edif.edifify_names import EdififyNames
    from spydrnet.composers.edif.composer import ComposeEdif
    objs = make_objects(kind, sibs)
    comp = ComposeEdif()
    names = EdififyNames()
    try:
        for o in objs:
            comp._add_rename_property(o, objs, names)
    except Exception as e:  # noqa
        return exn_name(e), objs
    return 'ok ' + ' '.join('%s %d' % (tok(o.data.get('EDIF.identifier')), 1 if o.data.get('EDIF.rename') is True else 0)
                            for o in objs), objs


def sib_toks(sibs):
    return ' '.join('%s %s %d' % (tok(n), tok(i), 1 if r else 0) for n, i, r in sibs)


def req_make_valid(sibs, i, name, fuel='d'):
    return 'mv %s %d %d %s%s%s' % (fuel, i, len(sibs), sib_toks(sibs), ' ' if sibs else '', tok(name))


def req_assign(sibs):
    return 'assign %d %s' % (len(sibs), sib_toks(sibs))


def _run_chunk(requests):
    r = subprocess.run([DRIVER], input='\n'.join(requests) + '\n', capture_output=True, text=True)
    out = r.stdout.split('\n')
    if out and out[-1] == '':
        out.pop()
    if r.returncode != 0 or len(out) != len(requests):
        raise RuntimeError('driver_names failed: rc=%s, %d answers for %d requests: %s' % (r.returncode, len(out), len(requests), r.stderr[-500:]))
    return out


def run_model(requests, jobs=8):
    """one answer line per request line; large batches are sharded over several driver processes"""
    if not requests:
        return []
    if len(requests) < 2000 or jobs <= 1:
        return _run_chunk(requests)
    from concurrent.futures import ThreadPoolExecutor
    size = (len(requests) + jobs * 4 - 1) // (jobs * 4)
    chunks = [requests[i:i + size] for i in range(0, len(requests), size)]
    with ThreadPoolExecutor(max_workers=jobs) as ex:
        parts = list(ex.map(_run_chunk, chunks))
    return [x for part in parts for x in part]


def split_assign_answer(line):
    """'ok id r id r ... | legal=1 distinct=0 c17=0' -> ('ok id r ...', {'legal':..})"""
    if ' | ' in line:
        a, b = line.split(' | ', 1)
        return a, dict(x.split('=') for x in b.split(' '))
    return line, {}
