"""Correspondence of the Coq query models (coq/theories/Query/*.v, extracted to
ocaml/_build/driver_query) with the implementation in /repo:

* matcher level: spydrnet.util.patterns._value_matches_pattern / _is_pattern_absolute against
  value_matches / is_pattern_absolute, exhaustively over short strings of an adversarial alphabet
  and on random longer strings; the regex model is only compared on patterns inside its fragment
  (it answers U otherwise) - how often that happens is counted;
* stage level: the real get_X(root, patterns, ...) for root shapes whose candidate lists the harness
  can read off the netlist (a parent with its children, a collection of elements, both), against
  Filter.run_query / run_netlists / run_hier on the same candidates, results compared as multisets
  (so duplicates are compared too)."""
import itertools, os, re, subprocess, warnings
import common
import spydrnet as sdn
from spydrnet.util.patterns import _value_matches_pattern, _is_pattern_absolute
from ir_world import tok_of_s
import query_oracle as qo

DRIVER = os.path.join(common.OCAML_BUILD, 'driver_query')
warnings.filterwarnings('ignore', category=FutureWarning)   # re: "Possible nested set"

GLOB_ALPHABET = ['a', 'A', 'b', '*', '?', '[', ']', '!', '-', '\\', '.']
RE_ALPHABET = ['a', 'A', 'b', '*', '?', '[', ']', '-', '\\', '.', '(', ')', '|', '+', '^']
VALUE_ALPHABET = ['a', 'A', 'b', '[', ']', '*', '-', '.', '\\', '\n']


def run_model(lines):
    """one request per line -> list of answer lines"""
    if not lines:
        return []
    r = subprocess.run([DRIVER], input='\n'.join(lines) + '\n', capture_output=True, text=True)
    out = r.stdout.split('\n')
    if out and out[-1] == '':
        out.pop()
    if len(out) != len(lines):
        raise RuntimeError('driver_query answered %d lines for %d requests: %s' % (len(out), len(lines), r.stderr[-300:]))
    return out


def b(x):
    return '1' if x else '0'


def otok(v):
    return '~' if v is None else tok_of_s(v)


def impl_match(value, pattern, is_case, is_re):
    try:
        return 'T' if _value_matches_pattern(value, pattern, is_case, is_re) else 'F'
    except Exception as e:  # noqa
        return 'X:' + type(e).__name__


def strings_upto(alphabet, n):
    for k in range(n + 1):
        for t in itertools.product(alphabet, repeat=k):
            yield ''.join(t)


def matcher_cases(rng, tier):
    """-> list of (pattern, is_case, is_re, [values])"""
    values = list(strings_upto(VALUE_ALPHABET, 2)) + [None]
    vals3 = [''.join(rng.choice(VALUE_ALPHABET) for _ in range(rng.randint(3, 5))) for _ in range(40)]
    cases = []
    globs = list(strings_upto(GLOB_ALPHABET, 3))
    res = list(strings_upto(RE_ALPHABET, 3))
    if tier == 'quick':
        # all patterns up to length 2, a sample of length 3
        g = [p for p in globs if len(p) <= 2] + rng.sample([p for p in globs if len(p) == 3], 260)
        r = [p for p in res if len(p) <= 2] + rng.sample([p for p in res if len(p) == 3], 420)
        vsel = lambda: values if rng.random() < 0.25 else rng.sample(values, 30) + rng.sample(vals3, 6)
    else:
        g, r = globs, res + rng.sample(list(itertools.product(RE_ALPHABET, repeat=4)), 6000)
        r = [''.join(x) if isinstance(x, tuple) else x for x in r]
        vsel = lambda: values + vals3
    for p in g:
        for ic in (True, False):
            cases.append((p, ic, False, vsel()))
    for p in r:
        for ic in (True, False):
            cases.append((p, ic, True, vsel()))
    # random longer strings: a value, and patterns derived from it
    nlong = 150 if tier == 'quick' else 3000
    for _ in range(nlong):
        n = rng.choice([4, 6, 9, 17, 40, 120, 300]) if rng.random() < 0.3 else rng.randint(3, 12)
        v = ''.join(rng.choice(VALUE_ALPHABET + ['c', 'Z', '0', '_', '/', ' ']) for _ in range(n))
        others = [v, v.swapcase(), v[:-1], v + 'a', v[1:], v.lower()]
        k = rng.randint(0, len(v))
        j = rng.randrange(len(v))
        for ic in (True, False):
            cases.append((v, ic, False, others))
            cases.append((v[:k] + '*', ic, False, others))
            cases.append(('*' + v[k:], ic, False, others))
            cases.append((v[:j] + '?' + v[j + 1:], ic, False, others))
            cases.append((v[:k] + '*' + v[min(len(v), k + 2):], ic, False, others))
            cases.append((re.escape(v), ic, True, others))
            cases.append((re.escape(v[:k]) + '.*', ic, True, others))
            cases.append((re.escape(v[:k]) + '[' + re.escape(v[k:k + 1] or 'a') + 'x-z]' + re.escape(v[k + 1:]), ic, True, others))
            cases.append(('(' + re.escape(v[:k]) + '|' + re.escape(v.swapcase()[:k]) + ')' + re.escape(v[k:]), ic, True, others))
    return cases


def check_matcher(rng, tier, stats):
    """-> list of disagreements {pattern, value, is_case, is_re, impl, model}"""
    cases = matcher_cases(rng, tier)
    lines = []
    for p, ic, ir, vals in cases:
        lines.append('MB %s %s %s %s' % (b(ic), b(ir), tok_of_s(p), ' '.join(otok(v) for v in vals)))
        lines.append('A %s %s %s' % (b(ic), b(ir), tok_of_s(p)))
    out = run_model(lines)
    bad = []
    for k, (p, ic, ir, vals) in enumerate(cases):
        ans, absm = out[2 * k], out[2 * k + 1]
        absi = 'T' if _is_pattern_absolute(p, ic, ir) else 'F'
        stats['absolute_evals'] += 1
        if absi != absm:
            bad.append(dict(level='absolute', pattern=p, is_case=ic, is_re=ir, impl=absi, model=absm))
        if len(ans) != len(vals):
            bad.append(dict(level='protocol', pattern=p, answer=ans))
            continue
        for v, m in zip(vals, ans):
            if m == 'U':
                stats['regex_outside_fragment'] += 1
                continue
            i = impl_match(v, p, ic, ir)
            stats['match_evals'] += 1
            stats['match_%s_%s' % ('re' if ir else 'glob', i)] += 1
            if i != m:
                bad.append(dict(level='match', pattern=p, value=v, is_case=ic, is_re=ir, impl=i, model=m))
        stats['patterns_%s' % ('re' if ir else 'glob')] += 1
        if ir and ans and ans[0] != 'U':
            stats['regex_patterns_in_fragment'] += 1
    # re.escape itself
    esc_in = [''.join(rng.choice(VALUE_ALPHABET + ['(', ')', '{', '}', '?', '+', '|', '^', '$', '&', '~', '#', ' ', '\t', '\r', '\x0b', '\x0c', 'z', '_', '/', '"', "'", '%', '<', '=', '@', '`'])
                      for _ in range(rng.randint(0, 10))) for _ in range(200 if tier == 'quick' else 3000)]
    out = run_model(['X %s' % tok_of_s(s) for s in esc_in])
    for s, o in zip(esc_in, out):
        stats['escape_evals'] += 1
        if o != tok_of_s(re.escape(s)):
            bad.append(dict(level='re.escape', value=s, impl=re.escape(s), model=o))
    return bad


# ------------------------------------------------------------------------------------------------
# stage level

STAGE_SHAPES = [
    # (function, parent kind, children attr, others-from, nk, bk)
    ('get_libraries', 'netlist', 'libraries', 'f'),
    ('get_definitions', 'library', 'definitions', 'd'),
    ('get_instances', 'definition', 'children', 'f'),
    ('get_ports', 'definition', 'ports', 'd'),
    ('get_cables', 'definition', 'cables', 'd'),
]


def folds_case(o, key):
    """the model's fold_of: the key is EDIF.identifier and the element is under the EDIF policy"""
    return key == 'EDIF.identifier' and '.NS' in o and o['.NS'] == 'EDIF'


def lookup_mode(key, policy, registered):
    if not registered:
        return 's'
    if key == '.NAME':
        return 's'
    if key == 'EDIF.identifier':
        # DEFAULT policy: the namespace keeps no identifier index (NotImplemented) and global_service.lookup scans
        return 'l' if policy == 'EDIF' else 's'
    return 's'


def others_of(fname, w, o):
    """the elements a non-parent root leads to (stage B), for the root shapes used here"""
    k = w.kind(o)
    if fname == 'get_libraries':        # a library (INSIDE): the libraries of the definitions it instantiates
        out = []
        for d in o.definitions:
            for c in d.children:
                if c.reference is not None and c.reference.library is not None and c.reference.library not in out:
                    out.append(c.reference.library)
        return out
    if fname == 'get_definitions':      # a definition (INSIDE): the definitions it instantiates
        out = []
        for c in o.children:
            if c.reference is not None and c.reference not in out:
                out.append(c.reference)
        return out
    if fname == 'get_instances':        # an instance (INSIDE): the children of its reference
        return list(o.reference.children) if o.reference is not None else []
    if fname in ('get_ports', 'get_cables'):   # the element itself
        return [o]
    raise ValueError(fname)


B_ROOT_KIND = {'get_libraries': 'library', 'get_definitions': 'definition', 'get_instances': 'instance',
               'get_ports': 'port', 'get_cables': 'cable'}


PARENT_KIND = dict((f, (pk, attr, bk)) for f, pk, attr, bk in STAGE_SHAPES)


def stage_request(w, fname, roots, key, pats, is_case, is_re, registered, policy):
    """One two-stage query whose candidates can be read off the netlist: roots are parents of the
    queried kind and/or stage-B roots (see others_of). -> (request line, implementation answer)"""
    pkind, attr, bk = PARENT_KIND[fname]
    nk = fname == 'get_instances'
    # candidates, in the order the implementation visits them (object_collection.pop())
    plist = [o for o in reversed(roots) if w.kind(o) == pkind]
    others = []
    for o in reversed(roots):
        if w.kind(o) != pkind:
            others += others_of(fname, w, o)
    cands = []
    for p in plist:
        cands += list(getattr(p, attr))
    cands += others
    ids = sorted(set(w.index[id(c)] for c in cands))
    keys = ' '.join('%d %s' % (i, otok(w.objs[i][key] if key in w.objs[i] else None)) for i in ids)
    par = ' '.join('%s %d %s' % (lookup_mode(key, policy, registered), len(getattr(p, attr)),
                                 ' '.join(str(w.index[id(c)]) for c in getattr(p, attr))) for p in plist)
    folded = [i for i in ids if folds_case(w.objs[i], key)]
    line = 'Q %s %s %s %s %d %s %d %s %d %s %d %s %d %s' % (
        b(is_case), b(is_re), b(nk), bk, len(pats), ' '.join(tok_of_s(p) for p in pats),
        len(ids), keys, len(folded), ' '.join(str(i) for i in folded), len(plist), par, len(others), ' '.join(str(w.index[id(c)]) for c in others))
    line = ' '.join(line.split())
    rootarg = list(roots) if len(roots) != 1 else roots[0]
    if registered:
        st, R = qo.call(fname, rootarg, pats, key, is_case, is_re)
    else:
        with qo.LookupOff():
            st, R = qo.call(fname, rootarg, pats, key, is_case, is_re)
    impl = 'ERR ' + st if st != 'ok' else (','.join(str(x) for x in sorted(w.index[id(e)] for e in R)) or '-')
    return line, impl, bool(plist), bool(others)


def stage_candidates(w, fname, roots, key):
    pkind, attr, bk = PARENT_KIND[fname]
    cands = []
    for o in roots:
        if w.kind(o) == pkind:
            cands += list(getattr(o, attr))
        else:
            cands += others_of(fname, w, o)
    return cands


def stage_requests(w, rng, policy, n_cases, stats):
    """-> list of (description, request line, implementation answer as sorted id list)"""
    by_kind = {}
    for o in w.objs:
        by_kind.setdefault(w.kind(o), []).append(o)
    reqs = []
    for _ in range(n_cases):
        fname, pkind, attr, bk = rng.choice(STAGE_SHAPES)
        key = rng.choice(qo.KEYS)
        registered = rng.random() < 0.7
        # roots: 0-2 parents and 0-3 stage-B roots
        parents = rng.sample(by_kind.get(pkind, []), min(len(by_kind.get(pkind, [])), rng.choice([0, 1, 1, 1, 2])))
        bpool = by_kind.get(B_ROOT_KIND[fname], [])
        broots = rng.sample(bpool, min(len(bpool), rng.choice([0, 0, 1, 2, 3]))) if (not parents or rng.random() < 0.5) else []
        if not parents and not broots:
            continue
        roots = list(parents) + list(broots)
        rng.shuffle(roots)
        cands = stage_candidates(w, fname, roots, key)
        vals = [c[key] if key in c else '' for c in cands]
        patsets = in_fragment(qo.derive_patterns(rng, vals, 2))
        pats, is_case, is_re, shape = rng.choice(patsets)
        if rng.random() < 0.3 and len(patsets) > 3:
            p2 = rng.choice(patsets)
            if p2[1] == is_case and p2[2] == is_re:
                pats = pats + p2[0]
                shape = shape + '+' + p2[3]
        line, impl, hasA, hasB = stage_request(w, fname, roots, key, pats, is_case, is_re, registered, policy)
        desc = dict(level='stage', function=fname, roots=['E%d' % w.index[id(o)] for o in roots], key=key,
                    pats=pats, is_case=is_case, is_re=is_re, shape=shape, registered=registered, policy=policy,
                    request=line)
        stats['stage:%s:%s%s' % (fname, 'A' if hasA else '', 'B' if hasB else '')] += 1
        reqs.append((desc, line, impl))
    # get_netlists: any elements as roots
    for _ in range(max(1, n_cases // 8)):
        pool = [o for o in w.objs if w.kind(o) in ('netlist', 'library', 'definition', 'instance', 'port', 'cable')]
        roots = rng.sample(pool, min(len(pool), rng.randint(1, 3)))
        key = rng.choice(qo.KEYS)
        st, U = qo.call('get_netlists', list(roots), key=key)
        objs = []
        for e in U:
            if e not in objs:
                objs.append(e)
        vals = [e[key] if key in e else '' for e in objs]
        pats, is_case, is_re, shape = rng.choice(in_fragment(qo.derive_patterns(rng, vals, 2)))
        ids = [w.index[id(e)] for e in objs]
        folded = [i for i in ids if folds_case(w.objs[i], key)]
        line = 'N %s %s %d %s %d %s %d %s %d %s' % (b(is_case), b(is_re), len(pats), ' '.join(tok_of_s(p) for p in pats),
                                                    len(ids), ' '.join('%d %s' % (i, otok(w.objs[i][key] if key in w.objs[i] else None)) for i in ids),
                                                    len(folded), ' '.join(str(i) for i in folded),
                                                    len(ids), ' '.join(str(i) for i in ids))
        line = ' '.join(line.split())
        st, R = qo.call('get_netlists', list(roots), pats, key, is_case, is_re)
        impl = 'ERR ' + st if st != 'ok' else (','.join(str(x) for x in sorted(w.index[id(e)] for e in R)) or '-')
        stats['stage:get_netlists'] += 1
        reqs.append((dict(level='stage', function='get_netlists', roots=['E%d' % w.index[id(o)] for o in roots], key=key,
                          pats=pats, is_case=is_case, is_re=is_re, shape=shape, policy=policy, request=line), line, impl))
    # hierarchical: netlist / hierarchical-instance roots, INSIDE
    nets = [o for o in w.objs if w.kind(o) == 'netlist' and o.top_instance is not None]
    for _ in range(max(1, n_cases // 4)):
        if not nets:
            break
        fname = rng.choice(qo.HIER)
        rec = rng.random() < 0.7
        n = rng.choice(nets)
        root = n
        if rng.random() < 0.4:
            hs = list(sdn.get_hinstances(n, recursive=True))
            if hs:
                root = rng.choice(hs)
        sel = None
        if rng.random() < 0.5:
            # any kind of root, any selection (finding C13-K6, repaired: the patterns apply to every reference found)
            toks = [t for t in qo.all_roots(w, rng, per_kind=1, hrefs=3, lists=0) if t[0] != 'L']
            if toks:
                root = qo.resolve_root(w, rng.choice(toks))
            if qo.FUNCS[fname][0]:
                sel = rng.choice(qo.FUNCS[fname][0])
        st, U = qo.call(fname, root, sel=sel, rec=rec)
        if st != 'ok' or len(U) != len(set(U)):
            continue
        names = {}
        for k, e in enumerate(U):
            names[k] = qo.value_of(fname, e, None, root)
        pats, is_case, is_re, shape = rng.choice(in_fragment(qo.derive_patterns(rng, list(names.values()), 2)))
        line = 'H %s %s %d %s %d %s %d %s 0' % (b(is_case), b(is_re), len(pats), ' '.join(tok_of_s(p) for p in pats),
                                               len(U), ' '.join('%d %s' % (k, tok_of_s(names[k])) for k in range(len(U))),
                                               len(U), ' '.join(str(k) for k in range(len(U))))
        line = ' '.join(line.split())
        st, R = qo.call(fname, root, pats, None, is_case, is_re, sel, rec)
        idx = dict((e, k) for k, e in enumerate(U))
        impl = 'ERR ' + st if st != 'ok' else (','.join(str(x) for x in sorted(idx.get(e, -1) for e in R)) or '-')
        stats['stage:%s' % fname] += 1
        stats['stage_hier_root:%s' % ('href' if isinstance(root, qo.HRef) else type(root).__name__)] += 1
        reqs.append((dict(level='stage', function=fname, roots=[qo.elem_tok(w, root)],
                          recursive=rec, selection=sel, pats=pats, is_case=is_case, is_re=is_re, shape=shape, policy=policy, request=line), line, impl))
    return reqs


def in_fragment(patsets):
    """the stage-level comparison with the model uses only pattern shapes inside the modelled regex fragment (the
    class escapes \\S \\D \\W \\w \\d are outside it: those shapes are judged by the oracle on the implementation only)"""
    return [ps for ps in patsets if 'class' not in ps[3]]


def norm_ids(ans):
    if ans.startswith('ERR'):
        return ans
    if ans == '-':
        return '-'
    return ','.join(str(x) for x in sorted(int(t) for t in ans.split(',')))


def check_stage(w, rng, policy, n_cases, stats):
    reqs = stage_requests(w, rng, policy, n_cases, stats)
    out = run_model([r[1] for r in reqs])
    bad = []
    for (desc, line, impl), m in zip(reqs, out):
        stats['stage_evals'] += 1
        mm = norm_ids(m)
        if impl != '-':
            stats['stage_nonempty'] += 1
        if mm != impl:
            bad.append(dict(desc, impl=impl, model=mm))
    return bad
