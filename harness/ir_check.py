"""Checks of the properties decided on the `ir` engine (C01 C02 C10 C14 C19):
proof re-check + correspondence (implementation vs extracted model) + property oracle on the
implementation + replay of corpus / known findings + evidence."""
import json, os, sys, time, collections, random
sys.path.insert(0, os.path.dirname(os.path.abspath(__file__)))
import common
common.ensure_impl_python()
import ir_run, ir_oracles, coq_eval
from ir_world import World

# extraction/driver cross-check against `Eval vm_compute` (harness/coq_eval.py): number of histories per run
XCHECK = {'quick': 40, 'thorough': 1500}

STRUCT = {'par', 'libs', 'defs', 'ports', 'cables', 'children', 'pins', 'wires', 'wire', 'ref', 'refs'}
NAMING = {'par', 'libs', 'defs', 'ports', 'cables', 'children', 'data', 'ns'}
ALL = None

# the read-only queries of the anchored classes answer from the state the dump shows (ir_oracles.observers)
OBS = ('Observers', ir_oracles.observers)

CONFIG = {
    'C01': dict(profile=['structure', 'mirror'], keys=STRUCT, events=False,
                oracles=[('Inv1', ir_oracles.inv1), OBS], quick=(700, 45), thorough=(6000, 60)),
    'C02': dict(profile=['mirror', 'structure'], keys=STRUCT, events=False,
                oracles=[('Inv2', ir_oracles.inv2), OBS], quick=(700, 45), thorough=(6000, 60)),
    'C10': dict(profile=['naming'], keys=NAMING, events=False,
                oracles=[('NsInv', ir_oracles.ns_inv), OBS], quick=(500, 45), thorough=(5000, 60)),
    'C14': dict(profile=['structure', 'naming', 'mirror'], keys=ALL, events=False,
                oracles=[OBS], quick=(600, 45), thorough=(6000, 60)),
    'C19': dict(profile=['structure', 'mirror', 'naming'], keys=ALL, events=True,
                oracles=[OBS], quick=(600, 45), thorough=(6000, 60)),
}


def project(line, keys, events):
    parts = line.split(' | ')
    out = [parts[0]]
    if events:
        out.append(parts[1])
    out.append(parts[2])
    for obj in parts[3:]:
        if keys is None:
            out.append(obj)
        else:
            f = obj.split('; ')
            out.append('; '.join([f[0]] + [x for x in f[1:] if x.split('=', 1)[0] in keys]))
    return ' | '.join(out)


def compare_history(ops, impl_dumps, model_dumps, keys, events):
    for j, (a, b) in enumerate(zip(impl_dumps, model_dumps)):
        pa, pb = project(a, keys, events), project(b, keys, events)
        if pa != pb:
            return j, ir_run.first_diff(pa, pb)
    if len(impl_dumps) != len(model_dumps):
        return min(len(impl_dumps), len(model_dumps)), {'field': -1, 'impl': len(impl_dumps), 'model': len(model_dumps)}
    return None


def replay_compare(ops, cfg, on_step_factory):
    """Run a fixed history on both sides. Returns (disagreement or None, oracle failures)."""
    on_step = on_step_factory() if on_step_factory else None
    try:
        dumps, fails = ir_run.run_history_impl(ops, cfg['oracles'], on_step)
    except Exception as e:  # replay of a shrunk candidate may reference objects that no longer exist
        return ('crash', str(e)), []
    model = ir_run.run_model([ops])[0]
    if any(m.startswith('type ') for m in model):
        # an argument of the wrong class (possible after shrinking shifted the creation indices):
        # outside the model and outside the properties' quantifiers
        return ('crash', 'ill-kinded argument'), []
    return compare_history(ops, dumps, model, cfg['keys'], cfg['events']), fails


def run_check(prop, tier, seed, on_step_factory=None, extra_cases=None, describe=None):
    t0 = time.time()
    cfg = CONFIG[prop]
    rep = common.Reporter(prop)
    ok, log = common.build_if_needed()
    proof = common.check_props_file(prop)
    if not ok or not proof['ok']:
        rep.violation('proof', {'kind': 'proof-obligation', 'theorem_file': 'coq/theories/Props/%s.v' % prop,
                                'build_ok': ok, 'log': log[-1500:], 'coqc_output': proof['assumptions'][-1500:]},
                      found_input=False)
    ncases, nops = cfg[tier]
    stats = collections.Counter()
    sizes = collections.Counter()
    total_hist = 0
    total_steps = 0
    distinct = set()
    samples = []
    n_disagree = 0
    n_oracle = 0
    known = common.load_known_findings(prop)

    def handle(source, ops, disagreement, fails):
        nonlocal n_disagree, n_oracle
        if fails:
            n_oracle += 1
            step = fails[0]['step']
            short = ir_run.shrink(ops[:step + 1], lambda c: (lambda r: r[0] is None or r[0][0] != 'crash')(replay_compare(c, cfg, on_step_factory)) and bool(replay_compare(c, cfg, on_step_factory)[1]))
            _, f2 = replay_compare(short, cfg, on_step_factory)
            f2 = f2 or fails
            sig = signature(short, f2)
            for k in known:
                if k.get('status') == 'open' and k.get('signature') == sig:
                    rep.known_finding('%s: %s' % (k.get('id'), k.get('what')))
                    return
            rep.violation('%s-%s' % (source, common.sha(json.dumps(short))),
                          {'kind': 'property-violation-on-implementation', 'engine': 'ir', 'source': source,
                           'ops': [' '.join(o) for o in short], 'oracle': f2[:3], 'signature': sig,
                           'replay': 'checks/run %s --replay <this file>' % prop})
        elif disagreement is not None:
            n_disagree += 1
            step = disagreement[0] if isinstance(disagreement[0], int) else len(ops) - 1
            short = ir_run.shrink(ops[:step + 1], lambda c: isinstance(replay_compare(c, cfg, on_step_factory)[0], tuple)
                                  and replay_compare(c, cfg, on_step_factory)[0][0] != 'crash')
            d2, f2 = replay_compare(short, cfg, on_step_factory)
            # search the neighbourhood of the shrunk case for a property failure on the implementation
            found = search_failure(short, cfg, on_step_factory, seed)
            if found:
                rep.violation('%s-%s' % (source, common.sha(json.dumps(found['ops']))),
                              {'kind': 'property-violation-on-implementation', 'engine': 'ir', 'source': source,
                               'ops': found['ops'], 'oracle': found['fails'][:3],
                               'correspondence': {'ops': [' '.join(o) for o in short], 'first_difference': d2}})
            else:
                rep.violation('%s-%s' % (source, common.sha(json.dumps(short))),
                              {'kind': 'correspondence-broken', 'engine': 'ir', 'source': source,
                               'what': 'model (coq/theories/IR/Ops.v, NS.v; theorems of Props/%s.v) and implementation disagree' % prop,
                               'ops': [' '.join(o) for o in short], 'first_difference': d2},
                              found_input=False)

    # 1. corpus (minimised regressions) first
    corpus_dir = os.path.join(common.CORPUS, 'ir')
    corpus = []
    if os.path.isdir(corpus_dir):
        for fn in sorted(os.listdir(corpus_dir)):
            if fn.endswith('.ops'):
                ops = [l.split(' ') for l in open(os.path.join(corpus_dir, fn)).read().split('\n') if l.strip() and not l.startswith('#')]
                corpus.append((fn, ops))
    xc_pool = []     # histories the extraction cross-check samples from
    for fn, ops in corpus + (extra_cases or []):
        xc_pool.append(('corpus-' + fn, ops))
        d, fails = replay_compare(ops, cfg, on_step_factory)
        total_hist += 1
        total_steps += len(ops)
        distinct.add(common.sha(json.dumps(ops)))
        if fails or d is not None:
            handle('corpus-' + fn, ops, d, fails)

    # 2. generated histories
    reported = 0
    for pi, profile in enumerate(cfg['profile']):
        n = ncases // len(cfg['profile'])
        on_step = on_step_factory() if on_step_factory else None
        hists = []
        for c in range(n):
            ops, dumps, fails = ir_run.gen_history(seed + pi, c, nops, profile, cfg['oracles'], on_step)
            hists.append((c, ops, dumps, fails))
            for op, d in zip(ops, dumps):
                stats['%s/%s' % (op[0] + (':' + op[1] if op[0] in ('add', 'remove', 'removefrom', 'reorder', 'create', 'new', 'items') else ''), d.split(' ', 1)[0])] += 1
        model = ir_run.run_model([h[1] for h in hists])
        for (c, ops, dumps, fails), mdumps in zip(hists, model):
            xc_pool.append(('%s-%d-%d' % (profile, seed + pi, c), ops))
            total_hist += 1
            total_steps += len(ops)
            sizes[len(World_size(dumps))] += 1
            h = common.sha(json.dumps(ops))
            if len(ops) > 3:
                distinct.add(h)
            if len(samples) < 2 and c == 0:
                samples.append({'profile': profile, 'case': c, 'ops': [' '.join(o) for o in ops[:12]], 'note': 'first 12 ops of the history'})
            d = compare_history(ops, dumps, mdumps, cfg['keys'], cfg['events'])
            if (fails or d is not None) and reported < 5:
                reported += 1
                handle('%s-%d-%d' % (profile, seed + pi, c), ops, d, fails)
            elif fails or d is not None:
                n_disagree += 1

    # 3. extraction + driver glue cross-checked against the kernel's evaluator on a sample of the same histories
    #    (the corpus, then generated histories spread evenly over the profiles)
    want = XCHECK[tier]
    gen_pool = [x for x in xc_pool if not x[0].startswith('corpus-')]
    stride = max(1, len(gen_pool) // max(1, want - min(len(corpus), want // 2)))
    xc_sample = [x for x in xc_pool if x[0].startswith('corpus-')][:want // 2] + gen_pool[::stride]
    xc_sample = [x for x in xc_sample if x[1]][:want]
    xc_res = coq_eval.check_digests('ir', [ops for _n, ops in xc_sample])
    for m in xc_res['mismatches']:
        if m.get('case') is not None:
            m['source'] = xc_sample[m['case']][0]
    xc_ev = coq_eval.report(rep, prop, 'ir', xc_res)

    wall = time.time() - t0
    theorems = proof['theorems']
    coverage = {
        'obligations': len(theorems), 'discharged': len(theorems) if (ok and proof['ok']) else 0,
        'checker_cmd': 'cd /verif && tools/build.sh && ' + proof['cmd'],
        'trusted_base': trusted_base(proof, xc_ev),
        'extraction_crosscheck': xc_ev,
        'theorems': theorems,
        'print_assumptions': proof['assumptions'][-3000:],
        'programs': total_hist, 'disagreements_checked': total_steps,
        'evaluations': total_steps, 'distinct_nontrivial': len(distinct),
        'rule': 'random op histories (profiles %s) executed on the implementation and on the extracted model; '
                'a history is non-trivial if it has more than 3 ops; distinct by hash of the op list' % cfg['profile'],
        'samples': samples or [{'note': 'no generated sample'}],
        'op_outcome_histogram': dict(sorted(stats.items())),
        'objects_per_history_histogram': dict(sorted(sizes.items())),
        'model_impl_disagreements': n_disagree, 'oracle_failures': n_oracle,
        'compared_fields': 'all' if cfg['keys'] is None else sorted(cfg['keys']),
        'events_compared': cfg['events'],
        'exhaustive': False,
        'explanation': describe or '',
    }
    common.write_evidence(prop, tier, seed, coverage, wall, len(rep.violations), assumptions(prop))
    print('%s %s: %d histories, %d steps, %d disagreements, %d oracle failures, proof %s (%d theorems), '
          'extraction cross-check %d cases / %d mismatches (%.1fs), %.1fs' % (
              prop, tier, total_hist, total_steps, n_disagree, n_oracle, 'ok' if (ok and proof['ok']) else 'BROKEN', len(theorems),
              xc_ev['cases'], xc_ev['mismatches'], xc_ev['wall_s'], wall))
    return rep.exit_code()


def World_size(dumps):
    return dumps[-1].split(' | ')[3:] if dumps else []


def signature(ops, fails):
    """per-step signature of a failure: oracle name + kind of the last op + first failure text with ids removed"""
    import re
    last = ops[-1] if ops else ['?']
    txt = fails[0]['failures'][0] if fails and fails[0].get('failures') else ''
    return '%s|%s|%s' % (fails[0]['oracle'] if fails else '?', ' '.join(last[:2]), re.sub(r'#?\d+', 'N', txt))


def search_failure(short, cfg, on_step_factory, seed):
    """Run the property oracle on the implementation along the shrunk disagreeing history and on
    random continuations of it (the disagreement shows where the code changed; the property may
    fail a few calls later)."""
    from ir_gen import Gen
    oracles = cfg['oracles']
    for attempt in range(40):
        rng = random.Random('%d/search/%d' % (seed, attempt))
        w = World()
        on_step = on_step_factory() if on_step_factory else None
        ops_done = []
        try:
            def stepper(op):
                pre = on_step.pre(w, op) if on_step else None
                out = w.apply(op)
                ops_done.append(op)
                fails = []
                for name, f in oracles:
                    bad = f(w)
                    if bad:
                        fails.append({'step': len(ops_done) - 1, 'oracle': name, 'failures': bad[:5]})
                if on_step:
                    bad = on_step.post(w, op, out, pre)
                    if bad:
                        fails.append({'step': len(ops_done) - 1, 'oracle': on_step.name, 'failures': bad[:5]})
                return fails
            bad = None
            for op in short:
                bad = stepper(op)
                if bad:
                    break
            if not bad:
                g = Gen(rng, w, cfg['profile'][attempt % len(cfg['profile'])])
                for _ in range(25):
                    bad = stepper(g.next_op())
                    if bad:
                        break
            if bad:
                return {'ops': [' '.join(o) for o in ops_done], 'fails': bad}
        except Exception:
            pass
        finally:
            w.close()
    return None


def trusted_base(proof, xc_ev=None):
    return [
        'Coq 8.16.1 kernel (coqc); vm_compute only inside Example/refutation witnesses and in the extraction cross-check; no native_compute',
        'Print Assumptions of every theorem in Props/: ' + ('Closed under the global context' if 'Axioms' not in proof['assumptions'] else 'see print_assumptions'),
        'extraction: ExtrOcamlBasic only (bool, option, unit, list, prod, sumbool -> OCaml natives); nat/N/Z/positive extracted as inductives; no Extract Constant / Extract Inductive of our own',
        'ocaml/driver_ir.ml (parsing of op lines, printing of dumps)',
        coq_eval.trusted_base_line('ir', xc_ev),
        'harness/ir_world.py (op execution on the real objects, dump, constructor wrapping for creation order; reads Instance._pins and namespace_manager.namespaces), harness/ir_gen.py, harness/ir_oracles.py',
        'the model itself (coq/theories/IR/State.v, NS.v, Ops.v) is hand-written: it is tied to /repo only by the correspondence run reported in this file',
        'CPython 3.12 semantics of list/dict/set/str',
    ]


def assumptions(prop):
    return [
        'objects of the wrong Python class as arguments are outside the model',
        'names/identifiers are strings over ASCII; non-string names are outside the model',
        'vetoing third-party listeners are outside the model (the namespace manager is the only vetoing listener)',
        'set iteration order only influences the order of announcements, which are compared as multisets',
    ]


def replay_file(prop, path, on_step_factory=None):
    cfg = CONFIG[prop]
    obj = json.load(open(path))
    rc = coq_eval.replay(prop, obj, path)
    if rc is not None:
        return rc
    ops = [l.split(' ') for l in obj.get('ops', [])]
    d, fails = replay_compare(ops, cfg, on_step_factory)
    print(json.dumps({'disagreement': d, 'oracle_failures': fails}, indent=1, default=str))
    if fails or d is not None:
        print('VIOLATION property=%s replay=%s' % (prop, path))
        return 1
    return 0
