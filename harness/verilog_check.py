"""Checks of the properties decided on the `verilog` engine (C04 write-then-read, C06 reader builds the
described design):

  1. proof re-check of coq/theories/Props/<prop>.v (the mechanism theorems) - own files are compiled
     incrementally, never the shared build while they are not yet listed in _CoqProject;
  2. corpus/verilog/*.json (witnesses of the open findings, regression designs) replayed first;
  3. correspondence: extracted Coq models (driver_verilog) vs the real parser/composer helper methods on
     generated inputs (harness/verilog_mech.py);
  4. the property's own oracle on the implementation, independent of the model (harness/verilog_oracles.py):
     generated designs rendered by the independent writer (harness/verilog_gen.py), bundled .v examples,
     for C04 additionally uniquify/flatten/clone and the composer options;
  5. failures: shrunk, matched against OPEN known findings by precise per-case signatures
     (known_findings.json + corpus/verilog/open_findings.json) -> KNOWN-FINDING, else VIOLATION + replay file;
     a broken correspondence triggers a search for an input on which the property itself fails;
  6. evidence/<prop>.json."""
import collections, copy, glob, json, os, random, subprocess, sys, time
sys.path.insert(0, os.path.dirname(os.path.abspath(__file__)))
import common
common.ensure_impl_python()
import verilog_world as W
import verilog_gen as G
import verilog_oracles as O
import verilog_mech as M
import verilog_doc as D
import verilog_wild as WILD
import verilog_emit as E
import verilog_lex as LEX

OWN_COQ = ['Fmt/VBits.v', 'Fmt/VExpr.v', 'Fmt/VDoc.v', 'Fmt/VLex.v', 'Fmt/VTop.v', 'Fmt/VElab.v', 'Fmt/VEmit.v', 'Fmt/VSpec.v', 'Fmt/VSem.v', 'Proofs/VerilogLists.v', 'Proofs/VerilogSlice.v',
           'Proofs/VerilogGrow.v', 'Proofs/VerilogPort.v', 'Proofs/VerilogAssign.v', 'Proofs/VerilogTop.v', 'Proofs/VElabBase.v', 'Proofs/VElabInv.v',
           'Proofs/VElabWf.v', 'Proofs/VElabExpr.v', 'Proofs/VElabConn.v', 'Proofs/VElabAssign.v', 'Proofs/VElabPorts.v', 'Proofs/VElabNets.v',
           'Proofs/VElabTop.v', 'Proofs/VElabStable.v', 'Proofs/VEmitRound.v', 'Proofs/VEmitLemmas.v', 'Proofs/VLexProofs.v', 'Props/C04.v', 'Props/C06.v', 'Extract/ExtractVerilog.v']
CORPUS = os.path.join(common.CORPUS, 'verilog')
EXAMPLES = os.path.join(common.REPO, 'example_netlists', 'verilog_netlists')
QUICK_FILES = ['4bitadder', 'TMR_hierarchy', 'adder', 'b13', 'basic_clock_crossing', 'carrychain', 'fourBitCounter',
               'hierarchical_luts', 'inverter', 'lfsr_zybo', 'multi_port', 'namespace', 'one_counter',
               'passthrough_test', 'port_test', 'ports_diff_modules', 'register_file', 'three_layer_hierarchy',
               'unique_challenge', 'unused_blackbox', 'lc3']
BUDGET = {  # (mechanism cases, generated designs, port-level round trips)
    'C04': {'quick': (2500, 300, 400), 'thorough': (40000, 2500, 6000)},
    'C06': {'quick': (2500, 420, 0), 'thorough': (40000, 40000, 0)},
}
LEX_DAMAGED = {'quick': 3000, 'thorough': 60000}   # C06: character-level damaged texts, tokenizer model vs VerilogTokenizer only
WILD_BUDGET = {'quick': 500, 'thorough': 12000}   # C06: documents outside the input class, model vs reader only
OPTION_SETS = [{}, {'write_blackbox': False}, {'defparam': True}, {'definition_list': 'work-modules'}]


# --------------------------------------------------------------------------------- build
def own_build():
    """compile this engine's own Coq files (only when stale) and its driver; returns (ok, log)"""
    listed = 'Fmt/VBits.v' in open(os.path.join(common.COQ, '_CoqProject')).read()
    if listed:
        return common.build_if_needed()
    log = []
    for rel in OWN_COQ:
        v = os.path.join(common.COQ, 'theories', rel)
        vo = v + 'o'
        deps_newer = False
        if os.path.exists(vo):
            for other in OWN_COQ[:OWN_COQ.index(rel)]:
                o = os.path.join(common.COQ, 'theories', other) + 'o'
                if os.path.exists(o) and os.path.getmtime(o) > os.path.getmtime(vo):
                    deps_newer = True
        if rel.startswith('Props/'):
            continue    # re-checked by check_props_file
        if not os.path.exists(vo) or os.path.getmtime(vo) < os.path.getmtime(v) or deps_newer:
            r = subprocess.run(['timeout', '300', 'coqc', '-R', 'theories', 'SV', 'theories/' + rel], cwd=common.COQ,
                               capture_output=True, text=True)
            log.append('coqc %s -> %d %s' % (rel, r.returncode, (r.stdout + r.stderr)[-600:]))
            if r.returncode != 0:
                return False, '\n'.join(log)
    os.makedirs(common.OCAML_BUILD, exist_ok=True)
    drv = os.path.join(common.OCAML_BUILD, 'driver_verilog')
    src = os.path.join(common.ROOT, 'ocaml', 'driver_verilog.ml')
    ml = os.path.join(common.COQ, 'verilog_model.ml')
    if not os.path.exists(drv) or os.path.getmtime(drv) < max(os.path.getmtime(src), os.path.getmtime(ml)):
        cmd = ('cp %s %si %s . && ocamlfind ocamlopt -w -a verilog_model.mli verilog_model.ml driver_verilog.ml -o driver_verilog'
               % (ml, ml, src))
        r = subprocess.run(cmd, shell=True, cwd=common.OCAML_BUILD, capture_output=True, text=True)
        log.append('ocaml driver -> %d %s' % (r.returncode, (r.stdout + r.stderr)[-600:]))
        if r.returncode != 0:
            return False, '\n'.join(log)
    return True, '\n'.join(log)


# --------------------------------------------------------------------------------- known findings
def load_findings(prop):
    out = list(common.load_known_findings(prop))
    p = os.path.join(CORPUS, 'open_findings.json')
    if os.path.exists(p):
        have = set(f.get('id') for f in out)
        for f in json.load(open(p)).get('findings', []):
            if f.get('property') == prop and f.get('id') not in have:
                out.append(f)
    return out


def finding_for(sig, known):
    for k in known:
        if k.get('status') != 'open':
            continue
        s = k.get('signature')
        if sig == s or (isinstance(s, list) and sig in s):
            return k
    return None


# --------------------------------------------------------------------------------- shrinking designs
def shrink_design(design, fails, budget=120):
    """greedy delta debugging on modules / body items / connections / decorations"""
    cur = copy.deepcopy(design)
    tries = 0

    def attempt(cand):
        nonlocal cur, tries
        tries += 1
        try:
            ok = fails(cand)
        except Exception:  # noqa
            ok = False
        if ok:
            cur = cand
        return ok

    changed = True
    while changed and tries < budget:
        changed = False
        for mi in range(len(cur['modules']) - 1, -1, -1):
            if len(cur['modules']) > 1 and tries < budget:
                c = copy.deepcopy(cur)
                del c['modules'][mi]
                if attempt(c):
                    changed = True
                    continue
            if mi >= len(cur['modules']):
                continue
            for bi in range(len(cur['modules'][mi]['body']) - 1, -1, -1):
                if tries >= budget:
                    break
                if cur['modules'][mi]['body'][bi]['k'] == 'portdecl':
                    continue
                c = copy.deepcopy(cur)
                del c['modules'][mi]['body'][bi]
                if attempt(c):
                    changed = True
                    continue
                it = cur['modules'][mi]['body'][bi]
                if it['k'] == 'inst':
                    for ci in range(len(it['conns']) - 1, -1, -1):
                        if tries >= budget:
                            break
                        c = copy.deepcopy(cur)
                        del c['modules'][mi]['body'][bi]['conns'][ci]
                        if attempt(c):
                            changed = True
                    if (it['params'] or it['attrs']) and tries < budget:
                        c = copy.deepcopy(cur)
                        c['modules'][mi]['body'][bi]['params'] = []
                        c['modules'][mi]['body'][bi]['attrs'] = []
                        if attempt(c):
                            changed = True
    return cur


# --------------------------------------------------------------------------------- the check
class Run:
    def __init__(self, prop, tier, seed):
        self.prop, self.tier, self.seed = prop, tier, seed
        self.rep = common.Reporter(prop)
        self.known = load_findings(prop)
        self.known_hits = collections.Counter()
        self.stats = collections.Counter()
        self.feat = collections.Counter()
        self.samples = []
        self.distinct = set()
        self.n_eval = 0
        self.n_programs = 0
        self.reported = 0
        self.notes = []
        self.emit = {'compared': 0, 'disagreements': 0, 'renamed_and_compared': 0, 'modules_compared': 0, 'rt_check true': 0, 'rt_check false': 0, 'writable': 0, 'reread_compared': 0, 'reread_outside_reader_model': collections.Counter(), 'constructs': collections.Counter(), 'outcomes': collections.Counter(),
                     'skipped_outside_modelled_subset': collections.Counter(), 'skipped_not_expressible_as_nv': collections.Counter()}
        self.docq = []          # document-level correspondence: (source, design, real outcome)
        self.doc = {'compared': 0, 'disagreements': 0, 'unsupported': collections.Counter(), 'inexpressible': collections.Counter(),
                    'outcomes': collections.Counter(), 'wild_mutations': collections.Counter()}
        # character-level correspondence (Fmt/VLex.v vs VerilogTokenizer): C06 only, every text of the run
        self.lex = LEX.LexCheck(seed, LEX_DAMAGED[tier]) if prop == 'C06' else None

    # ---- reporting of oracle items
    def handle_items(self, source, items, payload, shrink=None):
        """items: failures of one case. Known ones are counted; the rest is a violation (max 6 reports)."""
        unknown = [it for it in items if finding_for(it['sig'], self.known) is None]
        for it in items:
            k = finding_for(it['sig'], self.known)
            if k is not None:
                if self.known_hits[k['id']] == 0:
                    self.rep.known_finding('%s: %s' % (k['id'], k.get('what')))
                self.known_hits[k['id']] += 1
        if not unknown:
            return
        self.stats['violations'] += 1
        if self.reported >= 6:
            return
        self.reported += 1
        obj = dict(payload)
        if shrink is not None:
            try:
                obj.update(shrink(unknown[0]['sig']))
            except Exception as e:  # noqa
                obj['shrink_error'] = str(e)
        obj.update({'kind': 'property-violation-on-implementation', 'engine': 'verilog', 'source': source,
                    'failures': unknown[:6], 'replay': 'checks/run %s --replay <this file>' % self.prop})
        self.rep.violation('%s-%s' % (source.replace('/', '_'), common.sha(json.dumps(obj, default=str))), obj)

    # ---- C06 on one design
    def c06_design(self, source, design, noisy_seed):
        text = G.render(design, random.Random(noisy_seed))
        items, n = O.c06_items(design, text)
        self.n_eval += 1

        def shrink(sig):
            def fails(d):
                t = G.render(d, random.Random(noisy_seed), noisy=False)
                its, _ = O.c06_items(d, t)
                return any(i['sig'] == sig for i in its)
            small = shrink_design(design, fails)
            return {'design': small, 'text': G.render(small, random.Random(noisy_seed), noisy=False)}
        if items:
            self.handle_items(source, items, {'property_clause': 'C06', 'design': design, 'text': text}, shrink)
        self.doc_enqueue(source, design, text, n)
        return items, n, text

    # ---- document-level correspondence: the design as a vdoc through the extracted elab, the text through sdn.parse
    def doc_enqueue(self, source, design, text, netlist=None):
        if self.lex is not None:
            self.lex.add(source, text)
        line, why = D.design_to_line(design)
        if line is None:
            self.doc['inexpressible'][why] += 1
            return
        real = D.real_outcome(text, netlist=netlist)
        self.docq.append((source, design, line, real))
        if len(self.docq) >= 2000:
            self.doc_flush()

    def doc_flush(self):
        q, self.docq = self.docq, []
        if not q:
            return
        answers = D.run_model([x[2] for x in q])
        for (source, design, line, real), ans in zip(q, answers):
            model = D.model_canon(ans)
            if model[0] == 'unsupported':
                self.doc['unsupported'][model[1]] += 1
                continue
            self.doc['compared'] += 1
            self.doc['outcomes'][real[0] if real[0] == 'ok' else 'raises ' + str(real[1])] += 1
            diff = D.compare(model, real)
            if not diff:
                continue
            self.doc['disagreements'] += 1
            if self.doc['disagreements'] > 4:
                continue

            def differs(d):
                ln, _ = D.design_to_line(d)
                if ln is None:
                    return False
                m = D.model_canon(D.run_model([ln])[0])
                if m[0] == 'unsupported':
                    return False
                return bool(D.compare(m, D.real_outcome(G.render(d, random.Random('shrink'), noisy=False))))
            try:
                small = shrink_design(design, differs, budget=150)
            except Exception:  # noqa
                small = design
            ln, _ = D.design_to_line(small)
            m2 = D.model_canon(D.run_model([ln])[0])
            t2 = G.render(small, random.Random('shrink'), noisy=False)
            r2 = D.real_outcome(t2)
            found = self.search_failure()
            obj = {'kind': 'correspondence-broken', 'engine': 'verilog', 'level': 'document',
                   'what': 'the extracted document-level reader model (coq/theories/Fmt/VElab.v elab; theorems C06_wf / C06_full_* of Props/C06.v) '
                           'and VerilogParser.parse disagree on this document',
                   'source': source, 'first_differences': D.compare(m2, r2) or diff, 'design': small, 'text': t2,
                   'model': m2[1] if m2[0] != 'ok' else 'ok', 'implementation': r2[1] if r2[0] != 'ok' else 'ok',
                   'replay': 'checks/run %s --replay <this file>' % self.prop}
            if found:
                obj['property_failure_found'] = found[0]
            self.rep.violation('doc-%s' % common.sha(json.dumps(small, default=str)), obj, found_input=bool(found))

    def run_wild(self, n):
        for c in range(n):
            rng = random.Random('%d/verilog-wild/%d' % (self.seed, c))
            design, applied = WILD.wild_design(rng)
            for a in applied:
                self.doc['wild_mutations'][a] += 1
            self.n_programs += 1
            self.doc_enqueue('wild-%d' % c, design, G.render(design, random.Random('%d/wild-layout/%d' % (self.seed, c))))
        self.doc_flush()

    # ---- C04 on one netlist
    def c04_netlist(self, source, make_netlist, describe, opts_list=None, transforms=('none',)):
        for tr in transforms:
            for opts in (opts_list or [{}]):
                try:
                    n = make_netlist()
                    n = O.transform(n, tr)
                except Exception as e:  # noqa
                    self.stats['transform-%s-raised' % tr] += 1
                    continue
                o = dict(opts)
                if o.get('definition_list') == 'work-modules':
                    o['definition_list'] = [d.name for lib in n.libraries if lib.name == 'work' for d in lib.definitions]
                items, text, n2 = O.c04_items(n, o)
                try:
                    E.check(self, source, n, o, items, text, describe, n2)      # writer model (Fmt/VEmit.v) vs Composer
                except Exception:  # noqa
                    import traceback
                    self.stats['emit-correspondence-crashed'] += 1
                    if self.stats['emit-correspondence-crashed'] == 1:
                        self.rep.violation('emit-crash', {'kind': 'correspondence-broken', 'level': 'document-writer',
                                                          'what': 'the writer correspondence could not be carried out', 'source': source,
                                                          'traceback': traceback.format_exc()[-3000:]}, found_input=False)
                self.n_eval += 1
                self.stats['c04 %s %s' % (tr, ','.join('%s' % k for k in sorted(opts)) or 'default')] += 1
                if items:
                    payload = dict(describe)
                    payload.update({'transform': tr, 'options': opts, 'written_text': (text or '')[:4000]})
                    self.handle_items('%s-%s' % (source, tr), items, payload)

    def run_corpus(self):
        for fn in sorted(glob.glob(os.path.join(CORPUS, '*.json'))):
            if os.path.basename(fn) == 'open_findings.json':
                continue
            case = json.load(open(fn))
            if case.get('prop') != self.prop:
                continue
            if case.get('kind') == 'document':
                # documents outside the input class (no `expected`): model of the reader vs the reader only
                self.n_programs += 1
                self.doc_enqueue('corpus-' + case['id'], case['design'], G.render(case['design'], random.Random('corpus')))
                continue
            self.replay_case(case, 'corpus-' + case['id'])

    def replay_case(self, case, source):
        self.n_programs += 1
        design = case['design']
        expect = case.get('finding')
        if self.prop == 'C06':
            items, n, text = self.c06_design(source, design, 'corpus')
            if expect and not any(finding_for(i['sig'], self.known) is not None and finding_for(i['sig'], self.known)['id'] == expect for i in items):
                self.notes.append('finding %s no longer reproduces on its witness %s' % (expect, case.get('id')))
                print('NOTE: witness %s of finding %s no longer fails' % (case.get('id'), expect), flush=True)
        else:
            text = G.render(design, random.Random('corpus'), noisy=False)
            before = len(self.known_hits)
            hits0 = dict(self.known_hits)
            self.c04_netlist(source, lambda: O.parse_text(text), {'design': design, 'text': text}, [{}], (case.get('transform') or 'none',))
            if expect and self.known_hits.get(expect, 0) == hits0.get(expect, 0):
                self.notes.append('finding %s no longer reproduces on its witness %s' % (expect, case.get('id')))
                print('NOTE: witness %s of finding %s no longer fails' % (case.get('id'), expect), flush=True)

    def run_generated(self, n):
        for c in range(n):
            rng = random.Random('%d/verilog-design/%d' % (self.seed, c))
            size = rng.choice([1, 1, 2, 2, 3])
            # (C04) unnamed ports - open finding: such netlists cannot be written at all - only now and then
            design = G.Gen(rng, size=size, features={'multi_assign': True,
                                                      'positional_prims': self.prop == 'C06' or c % 8 == 1}).design()
            self.n_programs += 1
            h = common.sha(json.dumps(design))
            nitems = sum(len(m['body']) for m in design['modules'])
            if nitems > 3:
                self.distinct.add(h)
            for k, v in G.features_of(design).items():
                self.feat[k] += v
            self.stats['modules=%d' % len(design['modules'])] += 1
            if self.prop == 'C06':
                items, nl, text = self.c06_design('gen-%d' % c, design, '%d/layout/%d' % (self.seed, c))
                self.stats['c06 ' + ('ok' if not items else 'differs')] += 1
                if c == 0:
                    self.samples.append({'case': c, 'text_head': text[:700]})
            else:
                text = G.render(design, random.Random('%d/layout/%d' % (self.seed, c)))
                try:
                    O.parse_text(text)
                except Exception:  # noqa
                    self.stats['c04 reader-rejected-generated-design'] += 1
                    continue
                opts = [OPTION_SETS[0]] + ([OPTION_SETS[1 + c % 3]] if c % 2 == 0 else [])
                trs = ('none',) if c % 3 else ('none', ('uniquify', 'clone', 'flatten')[(c // 3) % 3])
                self.c04_netlist('gen-%d' % c, lambda: O.parse_text(text), {'design': design, 'text': text}, opts, trs)
                if c == 0:
                    self.samples.append({'case': c, 'text_head': text[:700]})

    def run_files(self):
        names = QUICK_FILES if self.tier == 'quick' else sorted(os.path.basename(f)[:-6] for f in glob.glob(os.path.join(EXAMPLES, '*.v.zip')))
        for name in names:
            path = os.path.join(EXAMPLES, name + '.v.zip')
            if not os.path.exists(path):
                self.notes.append('bundled file %s missing' % name)
                continue
            self.n_programs += 1
            self.stats['bundled files'] += 1
            if self.prop == 'C06':
                self.lex.add_file('file-' + name, path)
                items, n = O.c06_file_items(path)
                self.n_eval += 1
                if items:
                    self.handle_items('file-' + name, items, {'file': path})
            else:
                big = os.path.getsize(path) > 60000
                trs = ('none',) if (big or self.tier == 'quick') else ('none', 'uniquify', 'clone')
                opts = [{}] if (big or self.tier == 'quick') else [{}, {'write_blackbox': False}, {'defparam': True}]
                self.c04_netlist('file-' + name, lambda: O.parse_file(path), {'file': path}, opts, trs[:1])
                if len(trs) > 1:
                    self.c04_netlist('file-' + name, lambda: O.parse_file(path), {'file': path}, [{}], trs[1:])

    def run_mechanisms(self, n, nport):
        # C06 is about the reader only: a change of the writer must not break its correspondence
        ncase, hist, bad = M.correspondence(self.seed, n, M.READER_KINDS if self.prop == 'C06' else None)
        self.mech = {'cases': ncase, 'histogram': dict(sorted(hist.items())), 'disagreements': len(bad)}
        pbad = []
        if nport:
            _, pbad = M.port_roundtrip_oracle(self.seed, nport)
            self.n_eval += nport
            self.mech['port_roundtrips'] = nport
            self.mech['port_roundtrip_failures'] = len(pbad)
        for b in pbad[:3]:
            self.rep.violation('port-roundtrip-%d' % b['case'],
                               {'kind': 'property-violation-on-implementation', 'engine': 'verilog',
                                'what': 'an instance port written by _write_instance_port and read back by parse_port_map_single carries other wires',
                                'input': b})
        if bad:
            found = pbad[:1] or self.search_failure()
            for b in bad[:3]:
                obj = {'kind': 'correspondence-broken', 'engine': 'verilog',
                       'what': 'extracted model (coq/theories/Fmt/VBits.v, VExpr.v; theorems of Props/%s.v) and implementation disagree on mechanism %s' % (self.prop, b['kind']),
                       'first_difference': b}
                if found:
                    obj['property_failure_found'] = found[0]
                self.rep.violation('mech-%s-%d' % (b['kind'], b['case']), obj, found_input=bool(found))

    def search_failure(self):
        """the correspondence broke: look for a concrete design on which the property itself fails"""
        out = []
        for c in range(200):
            rng = random.Random('%d/verilog-search/%d' % (self.seed, c))
            design = G.Gen(rng, size=1, features={'attrs': False, 'params': False}).design()
            text = G.render(design, rng, noisy=False)
            if self.prop == 'C06':
                items, _ = O.c06_items(design, text)
            else:
                try:
                    n = O.parse_text(text)
                except Exception:  # noqa
                    continue
                items, _, _ = O.c04_items(n, {})
            unknown = [it for it in items if finding_for(it['sig'], self.known) is None]
            if unknown:
                out.append({'design': design, 'text': text, 'failures': unknown[:4]})
                break
        return out


def run(prop, tier, seed, replay):
    t0 = time.time()
    if replay:
        return replay_file(prop, replay, seed)
    r = Run(prop, tier, seed)
    ok, log = own_build()
    proof = common.check_props_file(prop)
    if not ok or not proof['ok']:
        r.rep.violation('proof', {'kind': 'proof-obligation', 'theorem_file': 'coq/theories/Props/%s.v' % prop,
                                  'build_ok': ok, 'log': log[-1500:], 'coqc_output': proof['assumptions'][-1500:]},
                        found_input=False)
    nmech, ndesign, nport = BUDGET[prop][tier]
    r.run_corpus()
    if ok:
        try:
            r.run_mechanisms(nmech, nport)
        except Exception:  # noqa
            # the mechanism stage drives internal functions of the reader/writer: if their interface changed
            # shape the stage cannot run - that correspondence is broken; the whole-file stages below still run
            import traceback
            r.mech = {'cases': 0, 'note': 'mechanism stage could not run on this tree'}
            r.rep.violation('mech-crash', {'kind': 'correspondence-broken', 'what': 'the mechanism-level correspondence could not be carried out (internal interface changed?)',
                                           'traceback': traceback.format_exc()[-3000:]}, found_input=False)
    else:
        r.mech = {'cases': 0, 'note': 'driver not built'}
    r.run_files()
    r.run_generated(ndesign)
    if prop == 'C06' and ok:
        try:
            r.doc_flush()
            r.run_wild(WILD_BUDGET[tier])
        except Exception:  # noqa
            import traceback
            r.rep.violation('doc-crash', {'kind': 'correspondence-broken', 'level': 'document',
                                          'what': 'the document-level correspondence could not be carried out',
                                          'traceback': traceback.format_exc()[-3000:]}, found_input=False)
    if prop == 'C06' and ok:
        try:
            r.lex.report(r.lex.finish(r), r)
        except Exception:  # noqa
            import traceback
            r.rep.violation('lex-crash', {'kind': 'lexer-correspondence', 'level': 'characters',
                                          'what': 'the character-level correspondence could not be carried out',
                                          'traceback': traceback.format_exc()[-3000:]}, found_input=False)
    wall = time.time() - t0
    theorems = proof['theorems']
    coverage = {
        'obligations': len(theorems), 'discharged': len(theorems) if (ok and proof['ok']) else 0,
        'checker_cmd': proof['cmd'] + '   (after compiling coq/theories/{%s})' % ','.join(x for x in OWN_COQ if not x.startswith('Props/') and not x.startswith('Extract/')),
        'trusted_base': [
            'Coq 8.16.1 kernel (coqc); vm_compute only inside Example witnesses; no axioms: every theorem of Props/%s.v prints "Closed under the global context"' % prop,
            'extraction: ExtrOcamlBasic only; nat/Z/positive extracted as inductives; ocaml/driver_verilog.ml (parsing/printing)',
            'the models coq/theories/Fmt/VBits.v, VExpr.v, VTop.v, VElab.v, VEmit.v, VLex.v are hand-written: tied to /repo only by the correspondence runs counted below (mechanism level, document level, character level)',
            'harness/verilog_gen.py (generator, independent writer, meaning of a design), harness/verilog_world.py (canonical description, WF), harness/verilog_oracles.py, harness/verilog_mech.py',
            'character-level tokenisation (TokenFactory.add_character / flush, VerilogTokenizer.generate_tokens / peek) IS modelled in Coq (Fmt/VLex.v) and compared with VerilogTokenizer token by token on every text of a C06 run (harness/verilog_lex.py, counted under "lexer"); the recursive descent from tokens to the document value is NOT modelled: the generator produces the document value and its text together (harness/verilog_gen.py writer, harness/verilog_doc.py converter remain trusted glue between the token stream and the vdoc); the document-level WRITER is modelled (Fmt/VEmit.v) and tied to Composer by harness/verilog_emit.py, whose reader of the composer\'s output text (tokens -> vdoc) and netlist -> ordered value converter are trusted glue',
            'CPython 3.12 list/dict semantics',
        ],
        'theorems': theorems, 'print_assumptions': proof['assumptions'][-2500:],
        'programs': r.n_programs, 'disagreements_checked': r.mech.get('cases', 0), 'evaluations': r.n_eval,
        'distinct_nontrivial': len(r.distinct),
        'rule': 'a generated design is non-trivial if its modules contain more than 3 body items; distinct by hash of the abstract design',
        'samples': r.samples or [{'note': 'no generated sample'}], 'exhaustive': False,
        'mechanism_correspondence': r.mech,
        'document_correspondence': {
            'what': 'every generated design and every corpus design (as a vdoc -> extracted VElab.elab) and %d wild documents '
                    '(mutated outside the input class: re-declarations, selects out of range, duplicate names, aliases, stray defparams ...) '
                    'vs sdn.parse of their text: canonical netlist values or exception classes compared' % (WILD_BUDGET[tier] if prop == 'C06' else 0),
            'compared': r.doc['compared'], 'disagreements': r.doc['disagreements'],
            'skipped_outside_modelled_subset': dict(r.doc['unsupported']), 'skipped_not_expressible_as_vdoc': dict(r.doc['inexpressible']),
            'implementation_outcomes': dict(r.doc['outcomes']), 'wild_mutations_applied': dict(sorted(r.doc['wild_mutations'].items()))},
        'lexer': r.lex.evidence() if r.lex is not None else {'note': 'C06 only'},
        'writer_correspondence': {
            'what': 'C04: every netlist the run writes (generated designs, corpus, bundled files, transforms, options) as an ordered netlist value -> '
                    'extracted VEmit.emit vs the text of the real Composer read token by token into a vdoc (harness/verilog_emit.py): documents or '
                    'exception classes compared; rt_check (VEmit.v, proved sound in Props/C04.v) evaluated on each and compared with the real write/read cycle',
            **{k: (dict(v) if isinstance(v, collections.Counter) else v) for k, v in r.emit.items()}},
        'generator_feature_histogram': dict(sorted(r.feat.items())),
        'outcome_histogram': dict(sorted(r.stats.items())),
        'known_finding_hits': dict(r.known_hits), 'notes': r.notes,
    }
    assumptions = [
        'inputs are in the property class: ranges msb>=lsb, module ports based at 0, expression width <= port width, nets selected inside their declared range',
        'cable names identify cables within a module (the writer compares names)',
        'C04_full and C04_emit_roundtrip_full are Definitions, not theorems (the round trip is certified netlist by netlist by the verified checker rt_check); for C06 see the header of coq/theories/Props/C06.v for what is proved at document level',
    ]
    common.write_evidence(prop, tier, seed, coverage, wall, len(r.rep.violations), assumptions)
    print('%s %s: %d programs (%d distinct non-trivial designs), %d oracle evaluations, %d mechanism cases (%d disagreements), '
          '%d documents through the reader model (%d disagreements, %d outside the modelled subset), '
          'known-finding hits %s, proof %s (%d theorems), %.1fs' % (
              prop, tier, r.n_programs, len(r.distinct), r.n_eval, r.mech.get('cases', 0), r.mech.get('disagreements', 0),
              r.doc['compared'], r.doc['disagreements'], sum(r.doc['unsupported'].values()),
              dict(r.known_hits), 'ok' if (ok and proof['ok']) else 'BROKEN', len(theorems), wall))
    if prop == 'C06':
        lx = r.lex.evidence()
        print('C06 tokenizer model: %d texts (%d characters, %d tokens, %d seen by the parser) Fmt/VLex.v vs VerilogTokenizer, %d disagreements, %d non-ASCII skipped, %.1fs; classes %s' % (
            lx['texts_compared'], lx['characters'], lx['raw_tokens_compared'], lx['seen_tokens_compared'], lx['disagreements'],
            lx['non_ascii_skipped'], lx['wall_s'], lx['token_classes']))
    if prop == 'C04':
        print('C04 writer model: %d written netlists (%d modules) emit vs Composer, %d disagreements; re-read compared on %d; rt_check true on %d, writable %d; '
              'outside the modelled subset %d, not expressible %d' % (
                  r.emit['compared'], r.emit['modules_compared'], r.emit['disagreements'], r.emit['reread_compared'], r.emit['rt_check true'], r.emit['writable'],
                  sum(r.emit['skipped_outside_modelled_subset'].values()), sum(r.emit['skipped_not_expressible_as_nv'].values())))
    return r.rep.exit_code()


def replay_file(prop, path, seed):
    obj = json.load(open(path))
    r = Run(prop, 'quick', seed)
    if 'first_difference' in obj and 'command' in obj.get('first_difference', {}):
        cmd = obj['first_difference']['command']
        print('mechanism command:', cmd)
        print('model          :', M.run_model([cmd])[0])
        print('recorded impl  :', obj['first_difference']['impl'])
        return 1
    if obj.get('kind') == 'lexer-correspondence':
        lc = LEX.replay(obj, r)
        print(json.dumps({'violations': r.rep.violations, 'lexer': lc.evidence()}, indent=1))
        return r.rep.exit_code()
    if obj.get('level') == 'document' and 'design' in obj:
        r.doc_enqueue('replay', obj['design'], obj.get('text') or G.render(obj['design'], random.Random('shrink'), noisy=False))
    elif 'design' in obj:
        r.replay_case({'design': obj['design'], 'id': os.path.basename(path), 'prop': prop, 'transform': obj.get('transform')}, 'replay')
    elif 'file' in obj:
        if prop == 'C06':
            items, _ = O.c06_file_items(obj['file'])
            r.handle_items('replay', items, {'file': obj['file']})
        else:
            r.c04_netlist('replay', lambda: O.parse_file(obj['file']), {'file': obj['file']}, [obj.get('options') or {}],
                          (obj.get('transform') or 'none',))
    if prop == 'C06':
        r.doc_flush()
    print(json.dumps({'violations': r.rep.violations, 'known': dict(r.known_hits), 'document_correspondence': {
        'compared': r.doc['compared'], 'disagreements': r.doc['disagreements'], 'unsupported': dict(r.doc['unsupported'])}}, indent=1))
    return r.rep.exit_code()


if __name__ == '__main__':
    sys.exit(run(sys.argv[1], sys.argv[2] if len(sys.argv) > 2 else 'quick', common.seed_default(), None))
