"""Correspondence run of the `ir` engine: the same op histories on the real spydrnet (from /repo)
and on the extracted Coq model; dumps compared after every op; property oracles evaluated on
the real objects after every op."""
import os, random, subprocess, sys, time, collections
sys.path.insert(0, os.path.dirname(os.path.abspath(__file__)))
import common
common.ensure_impl_python()
from ir_world import World
from ir_gen import Gen

DRIVER = os.path.join(common.OCAML_BUILD, 'driver_ir')


def run_model(histories):
    """histories: list of list of op-token-lists. Returns list of list of dump lines."""
    lines = []
    for h in histories:
        lines.append('reset')
        lines += [' '.join(op) for op in h]
    r = subprocess.run([DRIVER], input='\n'.join(lines) + '\n', capture_output=True, text=True)
    if r.returncode != 0:
        raise RuntimeError('model driver failed: ' + r.stderr[-2000:])
    out = r.stdout.split('\n')
    res = []
    cur = None
    for l in out:
        if l == 'reset':
            cur = []
            res.append(cur)
        elif l != '' and cur is not None:
            cur.append(l)
    return res


def first_diff(a, b):
    fa, fb = a.split(' | '), b.split(' | ')
    for i in range(max(len(fa), len(fb))):
        x = fa[i] if i < len(fa) else '<missing>'
        y = fb[i] if i < len(fb) else '<missing>'
        if x != y:
            return {'field': i, 'impl': x, 'model': y}
    return None


def run_history_impl(ops, oracles=(), on_step=None):
    """Replay a fixed op list on the implementation. Returns (dump lines, oracle failures)."""
    w = World()
    dumps, fails = [], []
    try:
        for j, op in enumerate(ops):
            pre = on_step.pre(w, op) if on_step else None
            out = w.apply(op)
            dumps.append(w.dump(out))
            for name, f in oracles:
                bad = f(w)
                if bad:
                    fails.append({'step': j, 'oracle': name, 'failures': bad[:5]})
            if on_step:
                bad = on_step.post(w, op, out, pre)
                if bad:
                    fails.append({'step': j, 'oracle': on_step.name, 'failures': bad[:5]})
    finally:
        w.close()
    return dumps, fails


def gen_history(seed, case, nops, profile, oracles=(), on_step=None):
    rng = random.Random('%d/%d/%s' % (seed, case, profile))
    w = World()
    ops, dumps, fails = [], [], []
    g = Gen(rng, w, profile)
    # a share of the histories starts from a structured design (several multi-port definitions,
    # several instances of each, nets shared between instances) so that edits land in rich contexts
    prefix = []
    if rng.random() < 0.4:
        import netgen
        prefix, _info = netgen.build(rng, depth=rng.choice([1, 1, 2]), max_leaf=2, max_children=3,
                                     unnamed_rate=0.2, unnamed_cables=True)
    elif profile == 'naming' and rng.random() < 0.3:
        # siblings of one scope whose identifiers differ only in letter case, built while no EDIF policy
        # looks, then the policy arrives from above (assignment to the root): must be refused whatever
        # the scope (ports, cables, instances; libraries of a netlist, definitions of a library)
        from ir_world import tok_of_s
        rel = rng.choice(['ports', 'cables', 'children', 'libs', 'defs'])
        a, b = rng.choice([('Ab', 'aB'), ('sig_A', 'SIG_a'), ('x1', 'X1')])
        ident = tok_of_s('EDIF.identifier')
        items = '1' if rel in ('ports', 'cables') else '0'
        prefix = [['new', {'libs': 'netlist', 'defs': 'library'}.get(rel, 'definition'), tok_of_s('d'), '0'],
                  ['create', rel, '0', tok_of_s('n1'), '1', ident, 's:' + tok_of_s(a), items, '~'],
                  ['create', rel, '0', tok_of_s('n2'), '1', ident, 's:' + tok_of_s(b), items, '~'],
                  ['dset', '0', tok_of_s('.NS'), 's:' + tok_of_s('EDIF')]]
    try:
        for j in range(nops + len(prefix)):
            op = prefix[j] if j < len(prefix) else g.next_op()
            pre = on_step.pre(w, op) if on_step else None
            out = w.apply(op)
            ops.append(op)
            dumps.append(w.dump(out))
            for name, f in oracles:
                bad = f(w)
                if bad:
                    fails.append({'step': j, 'oracle': name, 'failures': bad[:5]})
            if on_step:
                bad = on_step.post(w, op, out, pre)
                if bad:
                    fails.append({'step': j, 'oracle': on_step.name, 'failures': bad[:5]})
            if fails:
                break
    finally:
        w.close()
    return ops, dumps, fails


def shrink(ops, still_fails, budget=150):
    """delta-debugging on the op list; ids are creation indices, so dropping an op that created
    objects invalidates later ids - candidates that crash the replay are simply rejected."""
    cur = list(ops)
    n = 2
    tries = 0
    while len(cur) >= 2 and tries < budget:
        chunk = max(1, len(cur) // n)
        reduced = False
        for i in range(0, len(cur), chunk):
            cand = cur[:i] + cur[i + chunk:]
            tries += 1
            try:
                ok = bool(cand) and still_fails(cand)
            except Exception:
                ok = False
            if ok:
                cur = cand
                n = max(n - 1, 2)
                reduced = True
                break
            if tries >= budget:
                break
        if not reduced:
            if chunk == 1:
                break
            n = min(n * 2, len(cur))
    return cur


def correspondence(seed, ncases, nops, profile, oracles=(), on_step=None, stats=None):
    """Returns dict with disagreements (impl vs model) and oracle failures."""
    stats = stats if stats is not None else collections.Counter()
    hist = []
    t0 = time.time()
    for c in range(ncases):
        ops, dumps, fails = gen_history(seed, c, nops, profile, oracles, on_step)
        hist.append((c, ops, dumps, fails))
        for op, d in zip(ops, dumps):
            stats['%s/%s' % (op[0] + (':' + op[1] if op[0] in ('add', 'remove', 'removefrom', 'reorder', 'create', 'new', 'items') else ''), d.split(' ', 1)[0])] += 1
    t_impl = time.time() - t0
    model = run_model([h[1] for h in hist])
    disagreements, oracle_fails = [], []
    for (c, ops, dumps, fails), mdumps in zip(hist, model):
        for j, (a, b) in enumerate(zip(dumps, mdumps)):
            if a != b:
                disagreements.append({'case': c, 'step': j, 'ops': ops[:j + 1], 'diff': first_diff(a, b)})
                break
        else:
            if len(dumps) != len(mdumps):
                disagreements.append({'case': c, 'step': min(len(dumps), len(mdumps)), 'ops': ops, 'diff': {'field': -1, 'impl': 'len %d' % len(dumps), 'model': 'len %d' % len(mdumps)}})
        if fails:
            oracle_fails.append({'case': c, 'ops': ops, 'fails': fails})
    return {'histories': hist, 'disagreements': disagreements, 'oracle_fails': oracle_fails,
            'stats': stats, 't_impl': t_impl, 't_total': time.time() - t0}


if __name__ == '__main__':
    common.ensure_impl_python()
    import ir_oracles
    seed = int(sys.argv[1]) if len(sys.argv) > 1 else 1
    n = int(sys.argv[2]) if len(sys.argv) > 2 else 50
    nops = int(sys.argv[3]) if len(sys.argv) > 3 else 40
    profile = sys.argv[4] if len(sys.argv) > 4 else 'structure'
    res = correspondence(seed, n, nops, profile, oracles=[('inv1', ir_oracles.inv1), ('inv2', ir_oracles.inv2)])
    print('cases', n, 'disagreements', len(res['disagreements']), 'oracle fails', len(res['oracle_fails']),
          'impl %.1fs total %.1fs' % (res['t_impl'], res['t_total']))
    for d in res['disagreements'][:3]:
        print('DISAGREE case', d['case'], 'step', d['step'], 'op', ' '.join(d['ops'][-1]))
        print('  ', d['diff'])
    for f in res['oracle_fails'][:3]:
        print('ORACLE case', f['case'], f['fails'][:2], ' '.join(f['ops'][f['fails'][0]['step']]))
    for k, v in sorted(res['stats'].items()):
        print('  %-28s %d' % (k, v))
