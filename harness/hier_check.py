"""Checks of C11 (hierarchical references) and C12 (cross-hierarchy tracing), engine `hier`:
re-check of Props/<id>.v + correspondence (real spydrnet vs extracted Coq model, same netlists and
queries, canonical tuples compared) + independent oracles on the implementation (recursive path
enumeration; union-find elaboration) + flyweight identity (implementation only) + corpus +
shrinking + search for a failing input + evidence."""
import re
import json, os, sys, time, collections, random, subprocess, signal
sys.path.insert(0, os.path.dirname(os.path.abspath(__file__)))
import common
common.ensure_impl_python()
import spydrnet as sdn
from spydrnet.util.hierarchical_reference import HRef
import hier_world as hw
import hier_gen, hier_oracles, ir_run, coq_eval
from ir_world import World

KINDS = ['inst', 'port', 'pin', 'cable', 'wire']
SELS = ['ALL', 'INSIDE', 'OUTSIDE', 'BOTH']
COQ_FILES = ['Hier/Paths', 'Hier/Enum', 'Hier/Trace', 'Hier/Conn', 'Proofs/HierValid', 'Proofs/HierEnum',
             'Proofs/HierClosure', 'Proofs/HierC11', 'Proofs/HierTrace', 'Proofs/HierNarrow', 'Proofs/HierTraceEx',
             'Props/C11', 'Props/C12', 'Extract/ExtractHier']
# extraction/driver cross-check against `Eval vm_compute` (harness/coq_eval.py): sessions per run, queries kept per session
XCHECK = {'quick': 40, 'thorough': 400}
XCHECK_QUERIES = 12
BUDGET = {('C11', 'quick'): 110, ('C11', 'thorough'): 6000, ('C12', 'quick'): 140, ('C12', 'thorough'): 6000}


# ------------------------------------------------------------------------------------ build
def ensure_built():
    """Integrated tree (files listed in _CoqProject): the shared incremental build. Otherwise build
    the engine's own files one by one (never the shared ones)."""
    proj = open(os.path.join(common.COQ, '_CoqProject')).read()
    if 'theories/Extract/ExtractHier.v' in proj:
        return common.build_if_needed()
    log = []
    stale = False
    for f in COQ_FILES:
        v = os.path.join(common.COQ, 'theories', f + '.v')
        if not os.path.exists(v):
            continue
        vo = v + 'o'
        if stale or not os.path.exists(vo) or os.path.getmtime(vo) < os.path.getmtime(v):
            stale = True
            r = subprocess.run(['timeout', '600', 'coqc', '-R', 'theories', 'SV', 'theories/' + f + '.v'],
                               cwd=common.COQ, capture_output=True, text=True)
            log.append('coqc %s -> %d' % (f, r.returncode))
            if r.returncode != 0:
                return False, '\n'.join(log) + '\n' + (r.stdout + r.stderr)[-3000:]
    drv = os.path.join(common.OCAML_BUILD, 'driver_hier')
    src = os.path.join(common.ROOT, 'ocaml', 'driver_hier.ml')
    ml = os.path.join(common.COQ, 'hier_model.ml')
    if (not os.path.exists(drv) or os.path.getmtime(drv) < os.path.getmtime(src)
            or os.path.getmtime(drv) < os.path.getmtime(ml)):
        os.makedirs(common.OCAML_BUILD, exist_ok=True)
        cmd = ('cp %s/hier_model.ml %s/hier_model.mli . && cp %s . && ocamlfind ocamlopt -w -a hier_model.mli '
               'hier_model.ml driver_hier.ml -o driver_hier' % (common.COQ, common.COQ, src))
        r = subprocess.run(cmd, shell=True, cwd=common.OCAML_BUILD, capture_output=True, text=True)
        log.append('ocamlopt driver_hier -> %d' % r.returncode)
        if r.returncode != 0:
            return False, '\n'.join(log) + '\n' + r.stderr[-3000:]
    return True, '\n'.join(log)


# ------------------------------------------------------------------------------------ one case
class Problems(list):
    def add(self, kind, sig, **detail):
        self.append({'kind': kind, 'sig': sig, 'detail': detail})


def diff(a, b, cap=4):
    sa, sb = set(a), set(b) if b != 'FUEL' else set()
    return {'only_first': sorted(sa - sb)[:cap], 'only_second': sorted(sb - sa)[:cap],
            'sizes': [len(a), len(b) if b != 'FUEL' else 'FUEL']}


def cmp3(P, what, sigbase, impl, model, expected):
    """impl vs model (correspondence) and impl vs expected (oracle). Lists of tuples, sorted."""
    if model is not None and impl != model:
        P.add('corr', 'corr|' + sigbase, what=what, impl_vs_model=diff(impl, model))
    if expected is not None and impl != expected:
        si, se = set(impl), set(expected)
        shape = 'superset' if se < si else 'subset' if si < se else 'dup' if si == se else 'differs'
        P.add('oracle', '%s|%s' % (sigbase, shape), what=what, impl_vs_expected=diff(impl, expected))


class Skip(Exception):
    """the candidate is outside the quantifier of the properties (only shrinking produces these)"""


class Timeout(Exception):
    pass


def _alarm(signum, frame):
    raise Timeout()


def has_cycle(w):
    """a definition (transitively) instantiates itself: the queries of the implementation do not
    terminate on such a design, and the properties only speak about elaborable designs"""
    state = {}

    def visit(d):
        if state.get(id(d)) == 1:
            return True
        if state.get(id(d)) == 2:
            return False
        state[id(d)] = 1
        for c in d.children:
            if c.reference is not None and visit(c.reference):
                return True
        state[id(d)] = 2
        return False
    return any(visit(o) for o in w.objs if isinstance(o, sdn.ir.Definition))


def setup(ops, m):
    w = World(listen=False)
    outs = [w.apply(op) for op in ops]
    if has_cycle(w):
        w.close()
        raise Skip('instantiation cycle')
    m.reset()
    mouts = m.ops(ops)
    return w, outs, mouts


def netlist_of(w):
    ids = hw.netlist_ids(w)
    return (ids[0], w.objs[ids[0]]) if ids else (None, None)


def sample(rng, l, k):
    l = list(l)
    if len(l) <= k:
        return l
    return rng.sample(l, k)


def run_case_c11(ops, edit_ops, rng, stats, m, light=False):
    P = Problems()
    w, outs, mouts = setup(ops, m)
    try:
        if outs != mouts:
            P.add('corr', 'corr|build', impl=outs[-5:], model=mouts[-5:])
            return P
        n, nl = netlist_of(w)
        if nl is None or nl.top_instance is None:
            return P
        wf = m.ask(['wf %d' % n])[0]
        stats['wf:' + wf] += 1
        E = hier_oracles.Elab(w, nl)
        D = hier_oracles.Design(w)   # all netlists of the world: the occurrence queries are not tied to one
        stats['paths'].append(len(E.paths))
        stats['rooted-netlists:%d' % len(D.elabs)] += 1
        for o in w.objs:
            if isinstance(o, sdn.ir.Instance) and o.reference is None and D.occurrences(o):
                stats['shape:instance-without-reference-occurs'] += 1
            if isinstance(o, sdn.ir.Definition) and o.library is None and D.occurrences(o):
                stats['shape:definition-outside-library-occurs'] += 1
        keep = {}     # tuple -> HRef, kept alive for the identity checks
        # -- 0. on every other netlist the very first queries are element-rooted ("occurrences of a given
        #       element"), so that the references they create are the first ones of their paths: every reference
        #       such a result hangs below must be THE reference of its path (same object as any other way to get it)
        stats['c11-cases'] += 1
        if stats['c11-cases'] % 2 == 1:
            early = []
            cands = [o for o in w.objs if isinstance(o, (sdn.ir.Instance, sdn.ir.Definition, sdn.ir.Library))]
            for o in sample(rng, cands, 12):
                try:
                    for h in (HRef.get_all_hrefs_of_item(o) if isinstance(o, sdn.ir.Instance) else sdn.get_hinstances(o)):
                        early.append(h)
                except Exception:  # noqa
                    pass
            for h in early:
                anc = h.parent
                while anc is not None:
                    ta = hw.tup(w, anc)
                    other = hw.href_of(w, ta)
                    if other is not anc or hash(other) != hash(anc):
                        P.add('oracle', 'C11|flyweight|ancestor-not-same-object', href=hw.tup(w, h), ancestor=ta)
                        break
                    anc = anc.parent
                stats['flyweight-checked'] += 1
            keep_early = early   # keep them alive: the table is weak
        # -- 1. netlist root, five kinds, recursive on/off
        qs = ['enum %s %d %d' % (k, n, r) for k in KINDS for r in (0, 1)]
        ans = m.ask(qs)
        j = 0
        for k in KINDS:
            for r in (0, 1):
                refs = list(hw.ENUM[k](nl, recursive=bool(r)))
                raw = [hw.tup(w, h) for h in refs]
                if len(raw) != len(set(raw)):
                    P.add('oracle', 'C11|enum|%s|rec%d|duplicate-reference' % (k, r), what='get_h%s(netlist)' % k)
                impl = sorted(raw)
                cmp3(P, 'get_h%s(netlist, recursive=%d)' % (k, r), 'C11|enum|%s|rec%d' % (k, r), impl,
                     hw.parse_hrefs(ans[j]), E.expected_enum(k, bool(r)) if E.rooted else None)
                j += 1
                if r:
                    for t, h in zip(raw, refs):
                        keep[t] = h
                stats['enum:%s' % k] += len(raw)
        top_t = E.paths[0]
        keep[top_t] = HRef.from_parent_and_item(None, nl.top_instance)
        # -- 2. is_valid / is_unique / name of every reference
        names_before = {}
        order = sorted(keep)
        ans = m.ask([q for t in order for q in ('valid ' + hw.tok(t), 'unique ' + hw.tok(t), 'name ' + hw.tok(t))])
        for i, t in enumerate(order):
            h = keep[t]
            iv, iu, inm = ('1' if h.is_valid else '0'), ('1' if h.is_unique else '0'), hw.impl_name(h)
            mv, mu, mnm = ans[3 * i:3 * i + 3]
            names_before[t] = inm
            if (iv, iu, inm) != (mv, mu, mnm):
                P.add('corr', 'corr|C11|attr', href=t, impl=[iv, iu, inm], model=[mv, mu, mnm])
            if E.rooted:
                if iv != '1':
                    P.add('oracle', 'C11|valid|enumerated-reference-reports-invalid', href=t)
                if (iu == '1') != E.expected_unique(t):
                    P.add('oracle', 'C11|unique', href=t, impl=iu, expected=E.expected_unique(t))
                if inm != 's:' + hw.tok_of_s(E.name[t]):
                    P.add('oracle', 'C11|name', href=t, impl=inm, expected=E.name[t])
            stats['unique:' + iu] += 1
        # -- 3. occurrences of every element
        items = []
        for i, o in enumerate(w.objs):
            if isinstance(o, (sdn.ir.Instance, sdn.ir.Definition, sdn.ir.Port, sdn.ir.Cable, sdn.ir.InnerPin, sdn.ir.Wire)):
                items.append(('%d' % i, o))
            if isinstance(o, sdn.ir.Instance):
                for ip, op in o.pins.items():
                    items.append(('O%d.%d' % (i, w.index[id(ip)]), op))
        if light:
            items = sample(rng, items, 60)
        ans = m.ask(['hrefs ' + t for t, _ in items])
        for (t, o), a in zip(items, ans):
            refs = list(HRef.get_all_hrefs_of_item(o))
            raw = [hw.tup(w, h) for h in refs]
            if len(raw) != len(set(raw)):
                P.add('oracle', 'C11|hrefs_of_item|duplicate-reference', item=t)
            # all and only the valid references ending at the element, whichever netlist they are rooted in and
            # whatever the element's instance references (nothing; a cell that is in no library)
            exp = D.occurrences(o)
            cmp3(P, 'get_all_hrefs_of_item(%s)' % t, 'C11|hrefs_of_item|%s' % type(o).__name__, sorted(raw),
                 hw.parse_hrefs(a), exp)
            for tt, h in zip(raw, refs):
                if tt in keep and keep[tt] is not h:
                    P.add('oracle', 'C11|flyweight|not-same-object', href=tt)
                # ... and so are the references it hangs below (its parent chain)
                anc = h.parent
                while anc is not None:
                    ta = hw.tup(w, anc)
                    if ta in keep and keep[ta] is not anc:
                        P.add('oracle', 'C11|flyweight|ancestor-not-same-object', href=tt, ancestor=ta)
                        break
                    anc = anc.parent
            stats['occ:%s' % type(o).__name__] += len(raw)
        # -- 3b. get_all_hrefs_of_instances(instances, netlist): some sets of instances, every netlist that has a
        #        top instance: the instance paths below THAT top instance ending in one of them
        all_insts = [(i, o) for i, o in enumerate(w.objs) if isinstance(o, sdn.ir.Instance)]
        sets = [sample(rng, all_insts, rng.randint(1, 4)) for _ in range(3 if light else 8)] if all_insts else []
        qs = [(ni, e, chosen) for ni, e in D.by_netlist for chosen in sets]
        ans = m.ask(['hrefsin %d %s' % (ni, hw.tok(tuple(i for i, _ in chosen))) for ni, e, chosen in qs])
        for (ni, e, chosen), a in zip(qs, ans):
            refs = list(HRef.get_all_hrefs_of_instances(set(o for _, o in chosen), w.objs[ni]))
            raw = [hw.tup(w, h) for h in refs]
            if len(raw) != len(set(raw)):
                P.add('oracle', 'C11|hrefs_of_instances-in-netlist|duplicate-reference', netlist=ni)
            ids = set(i for i, _ in chosen)
            cmp3(P, 'get_all_hrefs_of_instances(%s, netlist #%d)' % (sorted(ids), ni), 'C11|hrefs_of_instances-in-netlist',
                 sorted(raw), hw.parse_hrefs(a), sorted(p for p in e.paths if p[-1] in ids))
            stats['occ:in-netlist'] += len(raw)
        # -- 4. flyweight identity (implementation only): a second query returns the same objects
        for k in KINDS:
            for h in hw.ENUM[k](nl, recursive=True):
                t = hw.tup(w, h)
                if t in keep and (keep[t] is not h or hash(keep[t]) != hash(h)):
                    P.add('oracle', 'C11|flyweight|not-same-object', href=t)
                anc = h.parent
                while anc is not None:
                    ta = hw.tup(w, anc)
                    if ta in keep and keep[ta] is not anc:
                        P.add('oracle', 'C11|flyweight|ancestor-not-same-object', href=t, ancestor=ta)
                        break
                    anc = anc.parent
                stats['flyweight-checked'] += 1
        for t in sample(rng, order, 40):
            h2 = hw.href_of(w, t)
            if h2 is not keep[t] or hash(h2) != hash(keep[t]) or h2 != keep[t]:
                P.add('oracle', 'C11|flyweight|from_sequence-not-same-object', href=t)
        # -- 5. other roots: library, definition, instance, reference (all five kinds), item -> itself
        roots = []
        for i, o in enumerate(w.objs):
            if isinstance(o, (sdn.ir.Library, sdn.ir.Definition, sdn.ir.Instance)):
                roots.append((i, o))
        for i, o in sample(rng, roots, 6 if light else 14):
            if isinstance(o, sdn.ir.Library):
                insts = [p for d in o.definitions for p in D.occurrences(d)]
            else:
                insts = D.occurrences(o)
            # the model of these roots: Hier/TraceRoots.v (get_h*_roots; instances are not part of it)
            mq = [(k, r) for k in KINDS if k != 'inst' for r in (0, 1)]
            mans = dict(zip(mq, m.ask(['roots h%ss %d INSIDE %d 42 X%d' % (k, n, r, i) for k, r in mq])))
            for k in KINDS:
                for r in (False, True):
                    impl, _ = hw.impl_enum(w, k, o, r)
                    exp = sorted(set(insts)) if k == 'inst' else D.contents_from(k, insts, r)
                    cmp3(P, 'get_h%s(%s #%d, recursive=%s)' % (k, type(o).__name__, i, r),
                         'C11|root|%s|%s' % (type(o).__name__, k), impl,
                         hw.parse_hrefs(mans[(k, int(r))]) if k != 'inst' else None, exp)
                    stats['root:%s' % type(o).__name__] += 1
        hinsts = sample(rng, E.paths, 5 if light else 12)
        qs = [(k, r, t) for t in hinsts for k in KINDS for r in (0, 1)]
        ans = m.ask(['below %s %d %s' % (k, r, hw.tok(t)) for k, r, t in qs])
        for (k, r, t), a in zip(qs, ans):
            impl, _ = hw.impl_enum(w, k, hw.href_of(w, t), bool(r))
            cmp3(P, 'get_h%s(href %s, recursive=%d)' % (k, t, r), 'C11|root|HRef|%s' % k, impl,
                 hw.parse_hrefs(a), E.expected_below(k, t, bool(r)) if E.rooted else None)
            stats['root:HRef'] += 1
        idq = {'port': 'port', 'pin': 'pin', 'cable': 'cable', 'wire': 'wire'}
        for k in idq:
            for t in sample(rng, [x for x in keep if E.kind_of(x) == k], 4 if light else 10):
                o = w.objs[t[-1]]
                impl, _ = hw.impl_enum(w, k, o, False)
                cmp3(P, 'get_h%s(%s #%d)' % (k, type(o).__name__, t[-1]), 'C11|root|item|%s' % k, impl, None,
                     D.occurrences(o))
                impl, _ = hw.impl_enum(w, 'inst', o, False)
                d = o.definition if k in ('port', 'cable') else (o.port.definition if k == 'pin' else o.cable.definition)
                cmp3(P, 'get_hinstances(%s #%d)' % (type(o).__name__, t[-1]), 'C11|root|item|inst', impl, None,
                     D.occurrences(d))
                impl, _ = hw.impl_enum(w, 'inst', keep[t], False)
                cmp3(P, 'get_hinstances(href %s)' % (t,), 'C11|root|HRef-item|inst', impl, None,
                     [t[:-1] if k in ('port', 'cable') else t[:-2]] if E.rooted else None)
                stats['root:item'] += 1
        # -- 6. path-breaking edits: references obtained before must report (in)valid as the
        #       current netlist says
        if edit_ops:
            eouts = [w.apply(op) for op in edit_ops]
            if has_cycle(w):
                raise Skip('instantiation cycle after edits')
            mouts = m.ops(edit_ops)
            for op, a, b in zip(edit_ops, eouts, mouts):
                stats['edit:%s/%s' % (op[0] + (':' + op[1] if op[0] in ('remove', 'create') else ''), a)] += 1
            if eouts != mouts:
                P.add('corr', 'corr|edit-outcome', ops=[' '.join(o) for o in edit_ops], impl=eouts, model=mouts)
                return P
            nl_top = nl.top_instance
            E2 = hier_oracles.Elab(w, nl) if nl_top is not None else None
            valid2 = E2.valid if E2 is not None else set()
            ans = m.ask([q for t in order for q in ('valid ' + hw.tok(t), 'unique ' + hw.tok(t))])
            for i, t in enumerate(order):
                h = keep[t]
                iv, iu = ('1' if h.is_valid else '0'), ('1' if h.is_unique else '0')
                if (iv, iu) != tuple(ans[2 * i:2 * i + 2]):
                    P.add('corr', 'corr|C11|attr-after-edit', href=t, impl=[iv, iu], model=ans[2 * i:2 * i + 2],
                          edits=[' '.join(o) for o in edit_ops])
                if (iv == '1') != (t in valid2):
                    P.add('oracle', 'C11|valid-after-edit|%s' % ('stale-reference-reports-valid' if iv == '1' else 'live-reference-reports-invalid'),
                          href=t, edits=[' '.join(o) for o in edit_ops])
                elif E2 is not None and (iu == '1') != E2.expected_unique(t):
                    P.add('oracle', 'C11|unique-after-edit', href=t, impl=iu, edits=[' '.join(o) for o in edit_ops])
                stats['after-edit:valid=%s' % iv] += 1
                # a stale reference used as the ROOT of a query must not yield references that report invalid
                if iv == '0':
                    import spydrnet as _sdn
                    for qname, q in (('get_hports', _sdn.get_hports), ('get_hpins', _sdn.get_hpins), ('get_hcables', _sdn.get_hcables),
                                     ('get_hwires', _sdn.get_hwires), ('get_hinstances', _sdn.get_hinstances)):
                        try:
                            res = list(q(h))
                        except Exception:
                            res = []
                        badrefs = [x for x in res if not x.is_valid]
                        if badrefs:
                            P.add('oracle', 'C11|stale-root|%s-returns-invalid-reference' % qname, href=t, edits=[' '.join(o) for o in edit_ops])
                            break
            # names after the edits (renames among them): the references KEPT from before the edits - their names
            # were read then - and, below, freshly queried ones must report the name the edited netlist gives them
            # (the model's href_name of C11_name_holds on the edited heap; the oracle's name when rooted)
            still = [t for t in order if keep[t].is_valid]
            ans = m.ask(['name ' + hw.tok(t) for t in still])
            for t, mnm in zip(still, ans):
                inm = hw.impl_name(keep[t])
                if inm != mnm:
                    P.add('corr', 'corr|C11|name-after-edit|kept-reference', href=t, impl=inm, model=mnm,
                          edits=[' '.join(o) for o in edit_ops])
                if E2 is not None and E2.rooted and t in E2.name and inm != 's:' + hw.tok_of_s(E2.name[t]):
                    P.add('oracle', 'C11|name-after-edit|kept-reference-reports-another-name', href=t, impl=inm,
                          expected=E2.name[t], edits=[' '.join(o) for o in edit_ops])
                stats['after-edit:name-kept'] += 1
                if inm != names_before.get(t):
                    stats['after-edit:name-kept-changed'] += 1
            D2 = hier_oracles.Design(w)
            if E2 is not None:
                ans = m.ask(['enum %s %d 1' % (k, n) for k in KINDS])
                for k, a in zip(KINDS, ans):
                    impl, fresh = hw.impl_enum(w, k, nl, True)
                    cmp3(P, 'get_h%s(netlist, recursive=1) after edits' % k, 'C11|enum-after-edit|%s' % k, impl,
                         hw.parse_hrefs(a), E2.expected_enum(k, True) if E2.rooted else None)
                    fresh = sample(rng, fresh, 12 if light else 40)
                    ftup = [hw.tup(w, h) for h in fresh]
                    for h, t, mnm in zip(fresh, ftup, m.ask(['name ' + hw.tok(t) for t in ftup])):
                        inm = hw.impl_name(h)
                        if inm != mnm:
                            P.add('corr', 'corr|C11|name-after-edit|fresh-reference', href=t, impl=inm, model=mnm,
                                  edits=[' '.join(o) for o in edit_ops])
                        if E2.rooted and t in E2.name and inm != 's:' + hw.tok_of_s(E2.name[t]):
                            P.add('oracle', 'C11|name-after-edit|fresh-reference-reports-another-name', href=t, impl=inm,
                                  expected=E2.name[t], edits=[' '.join(o) for o in edit_ops])
                        stats['after-edit:name-fresh'] += 1
                # ... and the occurrences of single elements are asked again (the same questions were asked before
                # the edits: whatever a query remembers between calls must follow the edits)
                items2 = []
                for i, o in enumerate(w.objs):
                    if isinstance(o, (sdn.ir.Instance, sdn.ir.Definition, sdn.ir.Port, sdn.ir.Cable, sdn.ir.InnerPin, sdn.ir.Wire)):
                        items2.append(('%d' % i, o))
                items2 = sample(rng, items2, 25 if light else 150)
                ans = m.ask(['hrefs ' + t for t, _ in items2])
                for (t, o), a in zip(items2, ans):
                    try:
                        raw = [hw.tup(w, h) for h in HRef.get_all_hrefs_of_item(o)]
                    except Exception:  # noqa  (an element the edits detached)
                        continue
                    exp = D2.occurrences(o)
                    cmp3(P, 'get_all_hrefs_of_item(%s) after edits' % t, 'C11|hrefs_of_item-after-edit|%s' % type(o).__name__,
                         sorted(raw), hw.parse_hrefs(a), exp)
                    stats['after-edit:occ'] += 1
        return P
    finally:
        w.close()


def run_case_c12(ops, rng, stats, m, cap=70):
    P = Problems()
    w, outs, mouts = setup(ops, m)
    try:
        if outs != mouts:
            P.add('corr', 'corr|build', impl=outs[-5:], model=mouts[-5:])
            return P
        n, nl = netlist_of(w)
        if nl is None or nl.top_instance is None:
            return P
        wf = m.ask(['wf %d' % n, 'prep %d' % n])
        stats['wf:' + wf[0]] += 1
        bad = hier_oracles.well_formed(w, nl)
        stats['impl-well-formed:%s' % (not bad)] += 1
        E = hier_oracles.Elab(w, nl)
        if not E.rooted:
            return P
        E.build_nets()
        stats['paths'].append(len(E.paths))
        for c in E.classes:
            stats['class-size'].append(len(c))
            stats['class-levels'].append(len(set(len(x) for x in c)))
            stats['class-shape:%s' % net_shape(E, c)] += 1
        starts = []
        for k in ('wire', 'pin', 'cable', 'port'):
            starts += [(k, t) for t in sample(rng, E.by_kind[k], cap // 2 if k in ('wire', 'pin') else cap // 5)]
        hold = []
        qs = []
        for k, t in starts:
            tt = hw.tok(t)
            qs += ['hwires %d %s 0 %s' % (n, s, tt) for s in SELS]
            qs += ['hcables %d %s 0 %s' % (n, s, tt) for s in SELS]
            qs.append('hpins 0 ' + tt)
        ans = m.ask(qs)
        j = 0
        for k, t in starts:
            h = hw.href_of(w, t)
            hold.append(h)
            for fn, name, exp in ((sdn.get_hwires, 'get_hwires', E.expected_hwires), (sdn.get_hcables, 'get_hcables', E.expected_hcables)):
                for s in SELS:
                    # the selection is accepted as a Selection member or by its name
                    refs = list(fn(h, selection=(hw.SEL[s] if (j + len(t)) % 2 == 0 else s)))
                    raw = [hw.tup(w, x) for x in refs]
                    if len(raw) != len(set(raw)):
                        P.add('oracle', 'C12|%s|%s|%s|duplicate-reference' % (name, s, k), start=t)
                    narrow = 'ALL' if s == 'ALL' else 'narrow'
                    cmp3(P, '%s(%s %s, selection=%s)' % (name, k, t, s), 'C12|%s|%s|%s' % (name, narrow, k if name == 'get_hwires' or narrow == 'ALL' else 'any'),
                         sorted(raw), hw.parse_hrefs(ans[j]), exp(t, s))
                    for x in refs:
                        if not x.is_valid:
                            P.add('oracle', 'C12|%s|returns-invalid-reference' % name, start=t, selection=s, ref=hw.tup(w, x))
                    j += 1
                    stats['trace:%s/%s/%s' % (name, s, k)] += 1
                    stats['answer-size'].append(len(raw))
            refs = list(sdn.get_hpins(h))
            raw = sorted(hw.tup(w, x) for x in refs)
            cmp3(P, 'get_hpins(%s %s)' % (k, t), 'C12|get_hpins|%s' % k, raw, hw.parse_hrefs(ans[j]), E.expected_hpins_of(t))
            j += 1
            stats['trace:get_hpins/%s' % k] += 1
        # -- every kind of root, collections of roots, recursive, patterns (Hier/TraceRoots.v)
        if not P:
            run_roots(P, w, n, nl, E, rng, stats, m, light=(cap < 70))
        # -- history after the queries (a third of the netlists): one pin is taken off a wire and another, so far
        #    unconnected, pin of the same cell is put on it - the wire has as many pins as before - and the tracing
        #    questions are asked again from members of the nets: whatever a query remembers about a wire it walked
        #    through must follow the edit
        if rng.random() < 0.34 and not P:
            cand = []
            for i, o in enumerate(w.objs):
                if isinstance(o, sdn.ir.Wire) and o.pins and o.cable is not None and o.cable.definition is not None:
                    d = o.cable.definition
                    free = [p for port in d.ports for p in port.pins if p.wire is None]
                    free += [op for c in d.children for op in c.pins.values() if op.wire is None]
                    if free:
                        cand.append((i, o, free))
            if cand:
                i, o, free = rng.choice(cand)
                eops = [['disconnect', str(i), w.tok_pin(rng.choice(list(o.pins))).replace('O', 'S', 1)],
                        ['connect', str(i), w.tok_pin(rng.choice(free)).replace('O', 'S', 1), '~']]
                eouts = [w.apply(op) for op in eops]
                mo = m.ops(eops)
                if eouts != mo:
                    P.add('corr', 'corr|edit-outcome', ops=[' '.join(x) for x in eops], impl=eouts, model=mo)
                    return P
                stats['c12-edit:%s' % '/'.join(eouts)] += 1
                m.ask(['prep %d' % n])
                E2 = hier_oracles.Elab(w, nl)
                if E2.rooted:
                    E2.build_nets()
                    starts2 = [(k, t) for k in ('wire', 'pin') for t in sample(rng, E2.by_kind[k], 14)]
                    qs = []
                    for k, t in starts2:
                        qs += ['hwires %d ALL 0 %s' % (n, hw.tok(t)), 'hcables %d ALL 0 %s' % (n, hw.tok(t))]
                    ans = m.ask(qs)
                    j = 0
                    for k, t in starts2:
                        h = hw.href_of(w, t)
                        for fn, name, exp in ((sdn.get_hwires, 'get_hwires', E2.expected_hwires), (sdn.get_hcables, 'get_hcables', E2.expected_hcables)):
                            raw = [hw.tup(w, x) for x in fn(h, selection='ALL')]
                            cmp3(P, '%s(%s %s, selection=ALL) after moving a pin' % (name, k, t), 'C12|%s|ALL|%s|after-edit' % (name, k),
                                 sorted(raw), hw.parse_hrefs(ans[j]), exp(t, 'ALL'))
                            j += 1
                            stats['trace:after-edit/%s' % name] += 1
        return P
    finally:
        w.close()


# ------------------------------------------------------------------ collections of roots (Hier/TraceRoots.v)
def _pat_tok(p):
    return ','.join(str(ord(c)) for c in p) if p else '-'


def run_roots(P, w, n, nl, E, rng, stats, m, light=False):
    """get_hwires / get_hcables / get_hpins / get_hports with every kind of root, and with collections of several
    roots: instance references, the netlist, libraries, definitions, instances, plain ports / cables / pins /
    wires / outer pins; recursive on/off, the four selections, patterns. Model (get_h*_roots of Hier/TraceRoots.v)
    and implementation are compared as MULTISETS (sorted lists: the code iterates over Python sets - hpin_search,
    set(get_all_hrefs_of_instances) - so the yield order is not a function of the design; a reference yielded twice
    would differ). The oracle (pattern '*' only; what a pattern selects is C13's filter clause) is the union of the
    per-root expectations."""
    D = hier_oracles.Design(w)
    single = len(D.by_netlist) == 1 and D.by_netlist[0][0] == n
    top = E.paths[0]

    # ---- candidate roots: (token, python object, class, list of start tuples it stands for)
    cands = []
    for t in sample(rng, E.paths, 3 if light else 4):
        cands.append(('H' + hw.tok(t), hw.href_of(w, t), 'HRef-inst', [t]))
    cands.append(('X%d' % n, nl, 'Netlist', [top]))
    for k in ('wire', 'pin', 'cable', 'port'):
        for t in sample(rng, E.by_kind[k], 1 if light else 2):
            cands.append(('H' + hw.tok(t), hw.href_of(w, t), 'HRef-' + k, [t]))
    if single:
        plain = [(i, o) for i, o in enumerate(w.objs)
                 if isinstance(o, (sdn.ir.Library, sdn.ir.Definition, sdn.ir.Instance, sdn.ir.Port, sdn.ir.Cable,
                                   sdn.ir.InnerPin, sdn.ir.Wire))]
        for i, o in sample(rng, plain, 6 if light else 9):
            if isinstance(o, sdn.ir.Library):
                occ = sorted(set(p for d in o.definitions for p in D.occurrences(d)))
            else:
                occ = D.occurrences(o)
            cands.append(('X%d' % i, o, type(o).__name__, occ))
        outers = [(i, o, ip, op) for i, o in enumerate(w.objs) if isinstance(o, sdn.ir.Instance) for ip, op in o.pins.items()]
        for i, o, ip, op in sample(rng, outers, 2):
            cands.append(('O%d.%d' % (i, w.index[id(ip)]), op, 'OuterPin', D.occurrences(op)))

    def exp_one(fn, starts, s, r):
        out = set()
        for t in starts:
            if t not in E.valid:
                return None
            inst = E.kind_of(t) == 'inst'
            if fn in ('get_hwires', 'get_hcables'):
                ws = E.expected_hwires_inst(t, s, r) if inst else E.expected_hwires(t, s)
                out.update(ws if fn == 'get_hwires' else [h[:-1] for h in ws])
            elif fn == 'get_hpins':
                out.update(E.expected_below('pin', t, r) if inst else E.expected_hpins_of(t))
            else:
                out.update(E.expected_below('port', t, r) if inst else [h[:-1] for h in E.expected_hpins_of(t)])
        return out

    # ---- the questions: every single root, then some collections of 2-4 roots
    groups = [[c] for c in cands]
    for _ in range(3 if light else 6):
        groups.append([rng.choice(cands) for _ in range(rng.randint(2, 4))])
    # names to build patterns from: the references of the whole design
    names = []
    try:
        names = sorted(set(h.name for h in sdn.get_hwires(nl, recursive=True)) | set(h.name for h in sdn.get_hpins(nl, recursive=True)))
    except Exception:  # noqa
        names = []

    def some_patterns():
        ps = []
        for _ in range(rng.randint(1, 2)):
            nm = rng.choice(names) if names else 'a'
            tail = nm.split('/')[-1]
            ps.append(rng.choice([nm, tail, '*' + tail, tail[:2] + '*', '*/' + tail, nm[:max(1, len(nm) // 2)] + '*', '*', '?' + tail[1:]]))
        return ps

    FNS = (('get_hwires', sdn.get_hwires, 'hwires', True), ('get_hcables', sdn.get_hcables, 'hcables', True),
           ('get_hpins', sdn.get_hpins, 'hpins', False), ('get_hports', sdn.get_hports, 'hports', False))
    plan = []
    for g in groups:
        for name, f, q, has_sel in FNS:
            if len(g) == 1:
                combos = [(s, r) for s in (SELS if has_sel else ('INSIDE',)) for r in (0, 1)]
                if light or not g[0][2].startswith('HRef-inst'):
                    combos = sample(rng, combos, 3)
            else:
                combos = [(rng.choice(SELS) if has_sel else 'INSIDE', rng.randint(0, 1)) for _ in range(2)]
            for s, r in combos:
                plan.append((g, name, f, q, has_sel, s, r, None))
                if rng.random() < 0.5:
                    plan.append((g, name, f, q, has_sel, s, r, some_patterns()))
    ans = m.ask(['roots %s %d %s %d %s %s' % (q, n, s, r, ';'.join(_pat_tok(x) for x in (pats or ['*'])),
                                              ' '.join(c[0] for c in g)) for g, name, f, q, has_sel, s, r, pats in plan])
    for (g, name, f, q, has_sel, s, r, pats), a in zip(plan, ans):
        kw = {'recursive': bool(r)}
        if has_sel:
            kw['selection'] = hw.SEL[s] if rng.random() < 0.5 else s
        objs = [c[1] for c in g] if len(g) > 1 or rng.random() < 0.5 else g[0][1]
        try:
            refs = list(f(objs, list(pats), **kw)) if pats is not None else list(f(objs, **kw))
        except TypeError as e:   # a name that is not a string: str.join raises (outside the model's domain)
            stats['rootshape:impl-raises-TypeError'] += 1
            continue
        raw = [hw.tup(w, x) for x in refs]
        kinds = '+'.join(sorted(set(c[2] for c in g))) if len(g) > 1 else g[0][2]
        shape = 'collection' if len(g) > 1 else g[0][2]
        sig = 'C12|roots|%s|%s|%s' % (name, shape, (s if has_sel else '-') if pats is None else 'patterns')
        if len(raw) != len(set(raw)):
            P.add('oracle', sig + '|duplicate-reference', roots=[c[0] for c in g], selection=s, recursive=r)
        exp = None
        if pats is None:
            parts = [exp_one(name, c[3], s, bool(r)) for c in g]
            if all(x is not None for x in parts):
                exp = sorted(set().union(*parts))
        cmp3(P, '%s(%s, selection=%s, recursive=%d, patterns=%r)' % (name, [c[0] for c in g], s, r, pats), sig,
             sorted(raw), hw.parse_hrefs(a), exp)
        for x in refs:
            if not x.is_valid:
                P.add('oracle', 'C12|roots|%s|returns-invalid-reference' % name, roots=[c[0] for c in g])
                break
        stats['roots:%s/%s' % (name, shape)] += 1
        stats['rootshape:patterns=%s' % ('default' if pats is None else 'given')] += 1
        if pats is not None:
            stats['rootshape:pattern-answer-%s' % ('empty' if not raw else 'nonempty')] += 1
        if len(g) > 1:
            stats['rootshape:collection-size:%d' % len(g)] += 1
            for kd in set(c[2] for c in g):
                stats['rootshape:in-collection:%s' % kd] += 1
        stats['answer-size'].append(len(raw))
    # ---- yield ORDER (get_ordered of Hier/TraceRoots.v): one root that is the netlist or a reference to a
    #      hierarchical instance, default selection (INSIDE): the answer comes from the pattern loop over the
    #      name map alone - no Python set is iterated - and is compared as a LIST, element by element
    oroots = [c for c in cands if c[2] in ('HRef-inst', 'Netlist')]
    oplan = []
    for c in oroots:
        for name, f, q, has_sel in FNS:
            for r in (0, 1):
                oplan.append((c, name, f, q, r, None))
                oplan.append((c, name, f, q, r, some_patterns() + (['*'] if rng.random() < 0.5 else [])))
    oplan = sample(rng, oplan, 12 if light else 28)
    ans = m.ask(['ordered %s %d %s %s' % (q, r, ';'.join(_pat_tok(x) for x in (pats or ['*'])), hw.tok(c[3][0]))
                 for c, name, f, q, r, pats in oplan])
    for (c, name, f, q, r, pats), a in zip(oplan, ans):
        try:
            refs = list(f(c[1], list(pats), recursive=bool(r))) if pats is not None else list(f(c[1], recursive=bool(r)))
        except TypeError:
            stats['rootshape:order-impl-raises-TypeError:model-%s' % ('raises' if a == 'RAISES' else 'answers')] += 1
            continue
        raw = [hw.tup(w, x) for x in refs]
        mod = 'FUEL' if a in ('FUEL', 'RAISES') else [tuple(int(x) for x in h.split('.')) for h in a.split(' ') if h]
        if raw != mod:
            same_set = mod != 'FUEL' and sorted(raw) == sorted(mod)
            P.add('corr', 'corr|C12|roots-order|%s|%s|%s' % (name, c[2], 'same-elements-other-order' if same_set else 'other-elements'),
                  what='%s(%s, recursive=%d, patterns=%r): yield order' % (name, c[0], r, pats),
                  impl=raw[:6], model=(mod[:6] if mod != 'FUEL' else a))
        stats['roots:order/%s/%s' % (name, c[2])] += 1
        if len(raw) > 1:
            stats['rootshape:order-nontrivial(>1 element)'] += 1
        if len(set(raw)) > 2 and raw != sorted(raw) and raw != sorted(raw, reverse=True):
            stats['rootshape:order-differs-from-sorted'] += 1


def net_shape(E, c):
    """which boundary shapes a net has: touches ports / instance pins / nothing"""
    ports = inst = 0
    for hwi in c:
        for hp in E.pins_of[hwi]:
            if E.inner_of[hp] == hwi:
                ports += 1
            else:
                inst += 1
    return ('ports+' if ports else '') + ('instpins' if inst else '') or 'floating'


def run_case(prop, case, rng, stats, m, light=False, limit=30):
    """one netlist through all comparisons; a query of the implementation that does not come back
    within `limit` seconds on an acyclic design is reported as a property failure"""
    old = signal.signal(signal.SIGALRM, _alarm)
    signal.alarm(limit)
    try:
        if prop == 'C11':
            return run_case_c11(case['ops'], case.get('edits') or [], rng, stats, m, light=light)
        return run_case_c12(case['ops'], rng, stats, m)
    except Skip:
        return Problems()
    except Timeout:
        m.restart()
        P = Problems()
        P.add('oracle', '%s|query-does-not-terminate' % prop, limit_s=limit)
        return P
    finally:
        signal.alarm(0)
        signal.signal(signal.SIGALRM, old)


# ------------------------------------------------------------------------------------ generation
def gen_case(prop, seed, c):
    rng = random.Random('%d/hier/%s/%d' % (seed, prop, c))
    ops, info, label = hier_gen.build(rng)
    case = {'ops': ops, 'label': label, 'edits': []}
    if prop == 'C11' and rng.random() < 0.7:
        w = World(listen=False)
        try:
            for op in ops:
                w.apply(op)
            case['edits'] = hier_gen.edits(rng, w, info, k=rng.randint(1, 4))
        finally:
            w.close()
    return case


# ------------------------------------------------------------------------------------ reporting
def known_match(known, sig, source=None):
    """an open entry matches by exact signature; an entry with `only_source` is tied to one corpus witness (the
    same signature coming from any other input is still reported)"""
    for k in known:
        if k.get('status') != 'open':
            continue
        sigs = k.get('signature')
        sigs = sigs if isinstance(sigs, list) else [sigs]
        hit = sig in sigs or (k.get('signature_regex') is not None and re.fullmatch(k['signature_regex'], sig) is not None)
        if hit and (k.get('only_source') is None or k.get('only_source') == source):
            return k
    return None


def shrink_case(prop, case, sig, m, seed):
    def still(cand_ops):
        rng = random.Random('%d/shrink' % seed)
        P = run_case(prop, {'ops': cand_ops, 'edits': case.get('edits')}, rng, new_stats(), m, light=True)
        return any(p['sig'] == sig for p in P)
    try:
        ops = ir_run.shrink(case['ops'], still, budget=40)
    except Exception:
        ops = case['ops']
    return dict(case, ops=ops)


def new_stats():
    class S(dict):
        def __missing__(self, k):
            if k in ('paths', 'class-size', 'class-levels', 'answer-size'):
                self[k] = []
            else:
                self[k] = 0
            return self[k]
    return S()


def replay_obj(prop, case, problems):
    return {'engine': 'hier', 'property': prop, 'ops': [' '.join(o) for o in case['ops']],
            'edits': [' '.join(o) for o in case.get('edits') or []], 'label': case.get('label'),
            'problems': problems[:4], 'replay': 'checks/run %s --replay <this file>' % prop}


def load_case(obj):
    return {'ops': [l.split(' ') for l in obj.get('ops', [])], 'edits': [l.split(' ') for l in obj.get('edits', [])],
            'label': obj.get('label', 'replay')}


def run(prop, tier, seed, replay):
    t0 = time.time()
    rep = common.Reporter(prop)
    known = common.load_known_findings(prop)
    if replay:
        rc = coq_eval.replay(prop, json.load(open(replay)), replay)
        if rc is not None:
            return rc
        m = hw.Model()
        try:
            case = load_case(json.load(open(replay)))
            P = run_case(prop, case, random.Random('%d/replay' % seed), new_stats(), m)
        finally:
            m.close()
        print(json.dumps({'problems': P[:6]}, indent=1, default=str))
        bad = [p for p in P if not known_match(known, p['sig'])]
        for p in P:
            k = known_match(known, p['sig'])
            if k:
                print('KNOWN-FINDING: property=%s %s: %s' % (prop, k.get('id'), k.get('what')))
        if bad:
            print('VIOLATION property=%s replay=%s' % (prop, replay))
            return 1
        return 0

    ok, log = ensure_built()
    proof = common.check_props_file(prop)
    if not ok or not proof['ok']:
        rep.violation('proof', {'kind': 'proof-obligation', 'theorem_file': 'coq/theories/Props/%s.v' % prop,
                                'build_ok': ok, 'log': log[-1500:], 'coqc_output': proof['assumptions'][-1500:]},
                      found_input=False)
    stats = new_stats()
    m = hw.Model()
    ncases = BUDGET[(prop, tier)]
    deadline = t0 + (50 if tier == 'quick' else 840)
    programs = 0
    distinct = set()
    nontrivial = 0
    samples = []
    counts = collections.Counter()
    labels = collections.Counter()
    seen_sigs = {}
    known_seen = {}
    # sample for the extraction cross-check: the lines this run sends to the driver (every op, some of the queries)
    # and the answers it gets, for the corpus cases and for every stride-th generated case
    xc_sessions, xc_recorded, xc_names = [], [], []
    xc_want = XCHECK[tier]
    xc_stride = max(1, ncases // xc_want)

    def xc_take(name):
        rec, m.rec = m.rec, None
        s_, a_ = coq_eval.sample_session(rec or [], XCHECK_QUERIES, random.Random('%d/xcheck/%s' % (seed, name)))
        if s_:
            xc_sessions.append(s_)
            xc_recorded.append(a_)
            xc_names.append(name)

    def handle(source, case, P):
        for p in P:
            counts[p['kind']] += 1
        for p in P:
            sig = p['sig']
            k = known_match(known, sig, source)
            if k:
                known_seen.setdefault(k.get('id'), [0, k])[0] += 1
                continue
            if sig in seen_sigs:
                seen_sigs[sig] += 1
                continue
            seen_sigs[sig] = 1
            if len(rep.violations) >= 4:
                # enough distinct failures shrunk and reported; the others are listed in the evidence
                continue
            small = shrink_case(prop, case, sig, m, seed)
            P2 = [q for q in run_case(prop, small, random.Random('%d/shrink' % seed), new_stats(), m, light=True) if q['sig'] == sig] or [p]
            if p['kind'] == 'oracle':
                rep.violation('%s-%s' % (source, common.sha(sig + json.dumps(small['ops']))),
                              dict(replay_obj(prop, small, P2), kind='property-violation-on-implementation', signature=sig))
            else:
                found = search_failure(prop, small, seed, m, known)
                if found:
                    rep.violation('%s-%s' % (source, common.sha(sig + json.dumps(found[0]['ops']))),
                                  dict(replay_obj(prop, found[0], found[1]), kind='property-violation-on-implementation',
                                       signature=found[1][0]['sig'], correspondence=replay_obj(prop, small, P2)))
                else:
                    rep.violation('%s-%s' % (source, common.sha(sig + json.dumps(small['ops']))),
                                  dict(replay_obj(prop, small, P2), kind='correspondence-broken', signature=sig,
                                       what='model (coq/theories/Hier/*.v; theorems of Props/%s.v) and implementation disagree' % prop),
                                  found_input=False)

    try:
        # 1. corpus first
        cdir = os.path.join(common.CORPUS, 'hier')
        for fn in sorted(os.listdir(cdir)) if os.path.isdir(cdir) else []:
            if not fn.endswith('.json'):
                continue
            obj = json.load(open(os.path.join(cdir, fn)))
            if obj.get('property') not in (prop, 'both'):
                continue
            case = load_case(obj)
            m.rec = []
            P = run_case(prop, case, random.Random('%d/corpus/%s' % (seed, fn)), stats, m)
            xc_take('corpus-' + fn[:-5])
            programs += 1
            labels['corpus'] += 1
            handle('corpus-' + fn[:-5], case, P)
        # 2. generated
        for c in range(ncases):
            if time.time() > deadline:
                stats['stopped-at-deadline'] = c
                break
            case = gen_case(prop, seed, c)
            rng = random.Random('%d/hier/%s/%d/q' % (seed, prop, c))
            before = len(stats['paths'])
            xc_this = c % xc_stride == 0 and len(xc_sessions) < xc_want
            if xc_this:
                m.rec = []
            P = run_case(prop, case, rng, stats, m)
            if xc_this:
                xc_take('gen-%d-%d' % (seed, c))
            programs += 1
            labels[case['label']] += 1
            hsh = common.sha(json.dumps(case['ops']))
            np_ = stats['paths'][-1] if len(stats['paths']) > before else 0
            if np_ >= 3 and hsh not in distinct:
                nontrivial += 1
            distinct.add(hsh)
            if len(samples) < 2:
                samples.append({'case': c, 'label': case['label'], 'instance_paths': np_, 'ops_total': len(case['ops']),
                                'first_ops': [' '.join(o) for o in case['ops'][:10]], 'edits': [' '.join(o) for o in case['edits']]})
            if P:
                handle('gen-%d-%d' % (seed, c), case, P)
    finally:
        m.close()
    for kid, (cnt, k) in known_seen.items():
        rep.known_finding('%s: %s (%d occurrences this run)' % (kid, k.get('what'), cnt))

    # extraction + driver glue cross-checked against the kernel's evaluator on the sampled sessions
    xc_res = coq_eval.check_hier(xc_sessions, xc_recorded)
    for mm in xc_res['mismatches']:
        if mm.get('case') is not None:
            mm['source'] = xc_names[mm['case']]
    xc_ev = coq_eval.report(rep, prop, 'hier', xc_res)

    wall = time.time() - t0
    theorems = proof['theorems']
    lists = {k: stats.pop(k, []) for k in ('paths', 'class-size', 'class-levels', 'answer-size')}
    evaluations = sum(v for k, v in stats.items() if isinstance(v, int) and k.split(':')[0] in ('enum', 'occ', 'root', 'roots', 'trace', 'flyweight-checked', 'unique', 'after-edit'))
    coverage = {
        'obligations': len(theorems), 'discharged': len(theorems) if (ok and proof['ok']) else 0,
        'checker_cmd': proof['cmd'] + '   (after building coq/theories/Hier/*.v, Proofs/Hier*.v in dependency order)',
        'trusted_base': trusted_base(proof, xc_ev),
        'extraction_crosscheck': xc_ev,
        'theorems': theorems,
        'print_assumptions': proof['assumptions'][-3000:],
        'programs': programs,
        'disagreements_checked': sum(v for k, v in stats.items() if isinstance(v, int) and k.split(':')[0] in ('enum', 'occ', 'trace', 'unique', 'after-edit', 'root')),
        'evaluations': evaluations,
        'distinct_nontrivial': nontrivial,
        'rule': 'a generated netlist counts as non-trivial when its elaboration has at least 3 instance paths; '
                'distinct by hash of the op history that builds it',
        'samples': samples or [{'note': 'no generated sample'}],
        'exhaustive': False,
        'generator_labels': dict(labels),
        'histogram_instance_paths': hist(lists['paths'], [1, 2, 3, 5, 10, 20, 50, 100, 200]),
        'histogram_counters': {k: v for k, v in sorted(stats.items()) if isinstance(v, int)},
        'model_impl_disagreements': counts['corr'], 'oracle_failures': counts['oracle'],
        'known_findings_matched': {k: v[0] for k, v in known_seen.items()},
        'failure_signatures': dict(seen_sigs),
        'flyweight_note': 'same path => same object and equal hash is a runtime residue of the weak flyweight table: it is '
                          'checked on the implementation only (`is`, hash()); the model has value equality',
        'hypotheses_checked_on_inputs': 'the booleans inv1a_b / inv2a_b / wfk_b / acyclic_b of Hier/Paths.v are evaluated by the '
                                        'extracted model on every generated netlist (counters wf:*)',
    }
    if prop == 'C12':
        coverage['histogram_net_size'] = hist(lists['class-size'], [1, 2, 3, 5, 10, 20, 50])
        coverage['histogram_net_levels_spanned'] = hist(lists['class-levels'], [1, 2, 3, 4, 5])
        coverage['histogram_answer_size'] = hist(lists['answer-size'], [0, 1, 2, 3, 5, 10, 20, 50])
    common.write_evidence(prop, tier, seed, coverage, wall, len(rep.violations), assumptions(prop))
    print('%s %s: %d netlists (%d non-trivial), %d evaluations, %d model/impl disagreements, %d oracle failures, '
          'proof %s (%d theorems), extraction cross-check %d sessions (%d queries) / %d mismatches (%.1fs), %.1fs' % (
              prop, tier, programs, nontrivial, evaluations, counts['corr'], counts['oracle'],
              'ok' if (ok and proof['ok']) else 'BROKEN', len(theorems), xc_ev['cases'], xc_ev.get('queries', 0), xc_ev['mismatches'],
              xc_ev['wall_s'], wall))
    return rep.exit_code()


def hist(values, edges):
    out = collections.OrderedDict()
    for v in values:
        lab = None
        for lo, hi in zip(edges, edges[1:] + [None]):
            if hi is None or v < hi:
                lab = ('%d' % lo) if (hi is not None and hi == lo + 1) else ('%d+' % lo if hi is None else '%d-%d' % (lo, hi - 1))
                break
        if v < edges[0]:
            lab = '<%d' % edges[0]
        out[lab] = out.get(lab, 0) + 1
    return dict(out)


def search_failure(prop, small, seed, m, known):
    """the correspondence broke but the oracle was silent on that case: evaluate the property's
    oracle on the shrunk case and on fresh netlists from both generator families"""
    cands = [small]
    for a in range(40):
        cands.append(gen_case(prop, seed * 7919 + 13, a))
    for case in cands:
        try:
            P = run_case(prop, case, random.Random('%d/search' % seed), new_stats(), m, light=True)
        except Exception:
            continue
        bad = [p for p in P if p['kind'] == 'oracle' and not known_match(known, p['sig'])]
        if bad:
            return case, bad
    return None


def trusted_base(proof, xc_ev=None):
    return [
        coq_eval.trusted_base_line('hier', xc_ev),
        'Coq 8.16.1 kernel (coqc); vm_compute only inside Example witnesses and in the extraction cross-check; no native_compute',
        'Print Assumptions of every theorem in Props/: ' + ('Closed under the global context' if 'Axioms' not in proof['assumptions'] else 'see print_assumptions'),
        'extraction: ExtrOcamlBasic only; nat/N/Z/positive extracted as inductives; no Extract Constant',
        'ocaml/driver_hier.ml (op parser copied from driver_ir.ml, query parser, printing, memoisation of the state maps)',
        'harness/hier_world.py, hier_gen.py, hier_oracles.py, hier_check.py, ir_world.py, netgen.py',
        'the models coq/theories/Hier/{Paths,Enum,Trace}.v and IR/{State,NS,Ops}.v are hand-written: they are tied to /repo only by the correspondence run reported in this file',
        'CPython 3.12 semantics of list/dict/set/weakref',
    ]


def assumptions(prop):
    a = ['netlists are built through the public API (ir op histories); names are ASCII strings or absent',
         'the instantiation graph is acyclic (the code does not terminate otherwise; the model reports out-of-fuel)',
         'pattern/filter arguments of the queries are left at their defaults (C13 covers them)']
    if prop == 'C12':
        a.append('C12 theorems assume containers/back pointers agree (C01/C02 invariants) and wires touch only pins of their own '
                 'definition and of its children; both are evaluated on every generated netlist (implementation side: hier_oracles.well_formed)')
    return a
