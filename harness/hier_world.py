"""Implementation side of the `hier` engine (C11 hierarchical references, C12 tracing) and the
session with the extracted model (ocaml/_build/driver_hier).

A hierarchical reference is exchanged as a tuple of creation indices, ROOT FIRST: the instance
path from the top instance down, then port/cable, then pin/wire  (path ids..., item id)."""
import os, subprocess, sys
sys.path.insert(0, os.path.dirname(os.path.abspath(__file__)))
import common
common.ensure_impl_python()
import spydrnet as sdn
from spydrnet.util.hierarchical_reference import HRef
from spydrnet.util.selection import Selection
from ir_world import World, tok_of_s

DRIVER = os.path.join(common.OCAML_BUILD, 'driver_hier')
SEL = {'INSIDE': Selection.INSIDE, 'OUTSIDE': Selection.OUTSIDE, 'BOTH': Selection.BOTH, 'ALL': Selection.ALL}
ENUM = {'inst': sdn.get_hinstances, 'port': sdn.get_hports, 'pin': sdn.get_hpins,
        'cable': sdn.get_hcables, 'wire': sdn.get_hwires}


# ---------------------------------------------------------------- references <-> tuples
def tup(w, href):
    """tuple of creation indices of the chain of a reference, root first (None for a foreign item)"""
    out = []
    while href is not None:
        out.append(w.index.get(id(href.item), None) if href.item is not None else None)
        href = href.parent
    return tuple(reversed(out))


def tups(w, hrefs):
    return sorted(tup(w, h) for h in hrefs)


def href_of(w, t):
    return HRef.from_sequence([w.objs[i] for i in t])


def tok(t):
    return '.'.join(str(i) for i in t) if t else '-'


def parse_hrefs(line):
    if line == 'FUEL':
        return 'FUEL'
    return sorted(tuple(int(x) for x in h.split('.')) for h in line.split(' ') if h)


# ---------------------------------------------------------------- model session
class Model:
    """One driver process; queries are batched: queue with q(), then flush() returns the answers."""

    def __init__(self):
        self.p = subprocess.Popen([DRIVER], stdin=subprocess.PIPE, stdout=subprocess.PIPE, text=True, bufsize=1 << 16)
        self.pending = 0
        self.buf = []
        if not hasattr(self, 'rec'):
            self.rec = None     # when a list: every (line sent, answer line) is appended (extraction cross-check sample)

    def send(self, line):
        self.buf.append(line)
        self.pending += 1

    def flush(self):
        if not self.pending:
            return []
        self.p.stdin.write('\n'.join(self.buf) + '\n')
        self.p.stdin.flush()
        out = []
        for _ in range(self.pending):
            l = self.p.stdout.readline()
            if l == '':
                raise RuntimeError('model driver died: ' + ' | '.join(self.buf[-3:]))
            out.append(l.rstrip('\n'))
        if self.rec is not None:
            self.rec.extend(zip(self.buf, out))
        self.buf, self.pending = [], 0
        return out

    def reset(self):
        self.send('reset')
        self.flush()

    def restart(self):
        """after an interrupted exchange the pipe is out of step: start a fresh driver"""
        try:
            self.p.kill()
        except Exception:
            pass
        self.__init__()

    def ops(self, ops):
        for op in ops:
            self.send(' '.join(op))
        return self.flush()

    def ask(self, queries):
        for q in queries:
            self.send('q ' + q)
        return self.flush()

    def close(self):
        try:
            self.p.stdin.close()
            self.p.wait(timeout=5)
        except Exception:
            self.p.kill()


# ---------------------------------------------------------------- implementation queries
def impl_enum(w, kind, root, recursive, **kw):
    """sorted tuples + the raw references (kept alive for the identity checks)"""
    refs = list(ENUM[kind](root, recursive=recursive, **kw))
    return tups(w, refs), refs


def impl_hrefs_of_item(w, item):
    refs = list(HRef.get_all_hrefs_of_item(item))
    return tups(w, refs), refs


def impl_name(h):
    try:
        return 's:' + tok_of_s(h.name)
    except Exception:  # TypeError of str.join on a non-string name, AttributeError on a detached item
        return '!'


def impl_trace(w, fn, href, selection=None, recursive=False):
    kw = {'recursive': recursive}
    if selection is not None:
        kw['selection'] = SEL[selection]
    refs = list(fn(href, **kw))
    return tups(w, refs), refs


def netlist_ids(w):
    return [i for i, o in enumerate(w.objs) if isinstance(o, sdn.ir.Netlist)]
