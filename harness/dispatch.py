"""property id -> check implementation"""
import common


def py_witnesses(prop):
    """corpus/py/<prop>-*.py: stand-alone programs on the public API that replay a repaired defect whose
    trigger lies outside the op vocabulary of the engines; exit 0 = the property holds on this tree"""
    import glob, os, subprocess
    bad = 0
    rep = common.Reporter(prop)
    for path in sorted(glob.glob(os.path.join(common.CORPUS, 'py', prop.lower() + '-*.py'))):
        r = subprocess.run([common.VENV_PY, path], env=common.impl_env(), capture_output=True, text=True, cwd='/tmp', timeout=300)
        if r.returncode != 0:
            bad += 1
            rep.violation('witness-' + os.path.basename(path)[:-3],
                          {'kind': 'property-violation-on-implementation', 'witness': path, 'exit': r.returncode,
                           'output': (r.stdout + r.stderr)[-1500:], 'replay': common.VENV_PY + ' ' + path})
    return bad


def coqchk(prop):
    """thorough tier: the compiled property file and everything it depends on is re-checked by Coq's independent
    checker; `-o` prints the axioms, type-in-type constants, unsafe fixpoints and assumed-positive inductives the
    whole context relies on - all four lists must be empty. The summary is added to the evidence file."""
    import json, os, re, subprocess, time
    t0 = time.time()
    cmd = ['coqchk', '-o', '-silent', '-R', 'theories', 'SV', 'SV.Props.' + prop]
    try:
        r = subprocess.run(['timeout', '3000'] + cmd, cwd=common.COQ, capture_output=True, text=True)
        out, code = r.stdout + r.stderr, r.returncode
    except Exception as e:  # noqa
        out, code = repr(e), 99
    summary = out[out.find('CONTEXT SUMMARY'):] if 'CONTEXT SUMMARY' in out else out[-1500:]
    lists = {}
    for key, pat in (('axioms', r'\* Axioms:(.*?)(?=\n\* |\Z)'), ('type_in_type', r'relying on type-in-type:(.*?)(?=\n\* |\Z)'),
                     ('unsafe_fixpoints', r'relying on unsafe \(co\)fixpoints:(.*?)(?=\n\* |\Z)'),
                     ('assumed_positive', r'positivity is assumed:(.*?)(?=\n\* |\Z)')):
        m = re.search(pat, summary, re.S)
        lists[key] = None if m is None else [l.strip() for l in m.group(1).strip().split('\n') if l.strip() and l.strip() != '<none>']
    ok = code == 0 and all(v == [] for v in lists.values())
    rec = {'cmd': 'cd /verif/coq && ' + ' '.join(cmd), 'exit': code, 'ok': ok, 'wall_s': round(time.time() - t0, 1), **lists}
    ev = os.path.join(common.EVIDENCE, prop + '.json')
    try:
        obj = json.load(open(ev))
        obj.setdefault('coverage', {})['coqchk'] = rec
        if not ok:
            obj['violations'] = (obj.get('violations') or 0) + 1
        json.dump(obj, open(ev, 'w'), indent=1, default=str)
    except Exception:  # noqa
        pass
    if not ok:
        common.Reporter(prop).violation('coqchk', {'kind': 'proof-obligation', 'what': 'coqchk -o does not accept the compiled development '
                                                   'behind Props/%s.v with an empty list of axioms / unchecked constants' % prop,
                                                   'record': rec, 'output': summary[-3000:]}, found_input=False)
    return ok


def run(prop, tier, seed, replay):
    rc = _run(prop, tier, seed, replay)
    if replay is None and py_witnesses(prop):
        rc = rc or 1
    if replay is None and tier == 'thorough' and rc in (0, 1) and not coqchk(prop):
        rc = 1
    return rc


def _run(prop, tier, seed, replay):
    if prop in ('C01', 'C02', 'C10', 'C14', 'C19'):
        common.ensure_impl_python()
        import ir_check, ir_props
        return ir_props.run(prop, tier, seed, replay)
    if prop in ('C07', 'C08', 'C09'):
        common.ensure_impl_python()
        import xform_check
        return xform_check.run(prop, tier, seed, replay)
    if prop == 'C17':
        common.ensure_impl_python()
        import names_check
        return names_check.run(prop, tier, seed, replay)
    if prop == 'C13':
        common.ensure_impl_python()
        import query_check
        return query_check.run(prop, tier, seed, replay)
    if prop == 'C15':
        common.ensure_impl_python()
        import policy_check
        return policy_check.run(prop, tier, seed, replay)
    if prop == 'C16':
        common.ensure_impl_python()
        import purity_check
        return purity_check.run(prop, tier, seed, replay)
    if prop in ('C11', 'C12'):
        common.ensure_impl_python()
        import hier_check
        return hier_check.run(prop, tier, seed, replay)
    if prop in ('C04', 'C06'):
        common.ensure_impl_python()
        import verilog_check
        return verilog_check.run(prop, tier, seed, replay)
    if prop == 'C20':
        common.ensure_impl_python()
        import cmp_check
        return cmp_check.run(prop, tier, seed, replay)
    if prop in ('C03', 'C05'):
        common.ensure_impl_python()
        import edif_check
        return edif_check.run(prop, tier, seed, replay)
    if prop == 'C18':
        common.ensure_impl_python()
        import eblif_check
        return eblif_check.run(prop, tier, seed, replay)
    print('no check registered for', prop)
    return 2
