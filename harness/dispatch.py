"""property id -> check implementation"""
import common


def run(prop, tier, seed, replay):
    if prop in ('C01', 'C02', 'C10', 'C14', 'C19'):
        common.ensure_impl_python()
        import ir_check, ir_props
        return ir_props.run(prop, tier, seed, replay)
    if prop in ('C07', 'C08', 'C09'):
        common.ensure_impl_python()
        import xform_check
        return xform_check.run(prop, tier, seed, replay)
    if prop == 'C17':
        common.ensure_impl_python()
        import names_check
        return names_check.run(prop, tier, seed, replay)
    if prop == 'C13':
        common.ensure_impl_python()
        import query_check
        return query_check.run(prop, tier, seed, replay)
    if prop == 'C15':
        common.ensure_impl_python()
        import policy_check
        return policy_check.run(prop, tier, seed, replay)
    if prop == 'C16':
        common.ensure_impl_python()
        import purity_check
        return purity_check.run(prop, tier, seed, replay)
    if prop in ('C11', 'C12'):
        common.ensure_impl_python()
        import hier_check
        return hier_check.run(prop, tier, seed, replay)
    if prop in ('C04', 'C06'):
        common.ensure_impl_python()
        import verilog_check
        return verilog_check.run(prop, tier, seed, replay)
    if prop == 'C20':
        common.ensure_impl_python()
        import cmp_check
        return cmp_check.run(prop, tier, seed, replay)
    if prop in ('C03', 'C05'):
        common.ensure_impl_python()
        import edif_check
        return edif_check.run(prop, tier, seed, replay)
    if prop == 'C18':
        common.ensure_impl_python()
        import eblif_check
        return eblif_check.run(prop, tier, seed, replay)
    print('no check registered for', prop)
    return 2
