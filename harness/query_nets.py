"""Netlists for the C13 (query filter) checks, as replayable `ir` op histories.

* generated: harness/netgen.py hierarchy + a decoration pass (adversarial, colliding names;
  EDIF identifiers; a user key whose values repeat among siblings), under either naming policy;
* hand-made: small designs whose sibling names collide up to case / wildcards / brackets.

A recipe is a list of op token lists accepted by ir_world.World.apply (ops that the namespace
manager refuses are dropped from the recipe), so a replay file can rebuild the same netlist."""
import netgen
from ir_world import World, tok_of_s

USER_KEY = 'USER.k'

# names that collide up to letter case, contain wildcard / class / regex characters
NAME_POOL = ['a', 'A', 'ab', 'Ab', 'aB', 'a[0]', 'a[1]', 'A[0]', 'x*y', 'x?y', 'xzy', 'x*', 'a.b', 'aXb', 'a\\b',
             'a]', '[a]', '!a', 'a-b', 'b', 'B', 'ba', 'a b', 'a+', 'a|b', '(a)', 'a$', '^a', 'a{1}', 'q0', 'Q0']
IDENT_POOL = ['a', 'ab', 'Ab_1', 'aB2', 'x_y', 'XZ', 'b', 'Ba', 'q0', 'n_1', 'N2', 'abc', 'ABD', '&_1', '&a']
USER_POOL = ['v', 'V', 'v1', 'v*', 'w', 'v[1]']

CHILD_LISTS = (('libraries', 'library'), ('definitions', 'definition'), ('ports', 'port'),
               ('cables', 'cable'), ('children', 'instance'))


def _apply_keep(w, ops, op):
    if w.apply(op) == 'ok':
        ops.append(op)
        return True
    return False


def decorate(w, ops, rng, rename=0.5, ident=0.7, user=0.5, unname=0.06):
    """Rename / annotate the elements of the world in place, recording the accepted ops."""
    for i in range(len(w.objs)):
        o = w.objs[i]
        k = w.kind(o)
        if k in ('pin', 'wire'):
            continue
        r = rng.random()
        if r < unname and k != 'netlist':
            _apply_keep(w, ops, ['delname', str(i)]) if '.NAME' in o else None
        elif r < unname + rename:
            for _ in range(3):
                if _apply_keep(w, ops, ['setname', str(i), tok_of_s(rng.choice(NAME_POOL))]):
                    break
        if rng.random() < ident:
            for _ in range(3):
                idn = rng.choice(IDENT_POOL)
                if rng.random() < 0.3:
                    idn = idn.swapcase()
                if _apply_keep(w, ops, ['dset', str(i), tok_of_s('EDIF.identifier'), 's:' + tok_of_s(idn)]):
                    break
        if rng.random() < user:
            _apply_keep(w, ops, ['dset', str(i), tok_of_s(USER_KEY), 's:' + tok_of_s(rng.choice(USER_POOL))])
        # one-bit buses ([5:5]): a port or cable with a single member that is an array all the same
        if k in ('port', 'cable') and rng.random() < 0.3:
            members = o.pins if k == 'port' else o.wires
            if len(members) == 1:
                _apply_keep(w, ops, ['scalar', str(i), '0'])
                if rng.random() < 0.6:
                    _apply_keep(w, ops, ['lower', str(i), str(rng.choice([0, 1, 5]))])


def edit_values(w, ops, rng, p_user=0.4, p_ident=0.35, p_name=0.3):
    """Between two rounds of queries: change the VALUES existing elements carry under the queried keys
    (user key, EDIF.identifier, .NAME) - set to another value, set where absent, delete - without adding
    or removing any element, so every child list keeps its length. Whatever a query path remembers from
    the first round (an index of scanned children, a name map) is out of date afterwards.
    Accepted ops are appended to the recipe; -> number of accepted edits."""
    n = 0
    for i in range(len(w.objs)):
        o = w.objs[i]
        k = w.kind(o)
        if k in ('pin', 'wire', 'netlist'):
            continue
        if rng.random() < p_user:
            if USER_KEY in o and rng.random() < 0.2:
                n += _apply_keep(w, ops, ['ddel', str(i), tok_of_s(USER_KEY)])
            else:
                cur = o[USER_KEY] if USER_KEY in o else None
                v = rng.choice([x for x in USER_POOL if x != cur])
                n += _apply_keep(w, ops, ['dset', str(i), tok_of_s(USER_KEY), 's:' + tok_of_s(v)])
        if rng.random() < p_ident:
            cur = o['EDIF.identifier'] if 'EDIF.identifier' in o else None
            for _ in range(3):
                idn = rng.choice(IDENT_POOL)
                if rng.random() < 0.3:
                    idn = idn.swapcase()
                if idn != cur and _apply_keep(w, ops, ['dset', str(i), tok_of_s('EDIF.identifier'), 's:' + tok_of_s(idn)]):
                    n += 1
                    break
        if rng.random() < p_name:
            for _ in range(3):
                nm = rng.choice(NAME_POOL)
                if nm != o.name and _apply_keep(w, ops, ['setname', str(i), tok_of_s(nm)]):
                    n += 1
                    break
    return n


def spread(w, ops, rng, p=0.6):
    """Move some definitions into 1-3 additional libraries, so that library-level dependency chains
    (library -> library -> library) occur: the recursive settings of get_libraries / get_definitions
    from library roots only show on such chains."""
    if rng.random() > p:
        return
    nets = [i for i, o in enumerate(w.objs) if w.kind(o) == 'netlist']
    if not nets:
        return
    n = nets[0]
    new_libs = []
    for k in range(rng.randint(1, 3)):
        if _apply_keep(w, ops, ['create', 'libs', str(n), tok_of_s('xl%d' % k), '0', '0', '~']):
            new_libs.append(len(w.objs) - 1)
    if not new_libs:
        return
    defs = [i for i, o in enumerate(w.objs) if w.kind(o) == 'definition' and o.library is not None]
    rng.shuffle(defs)
    for d in defs[:max(1, (2 * len(defs)) // 3)]:
        l = w.index[id(w.objs[d].library)]
        l2 = rng.choice(new_libs)
        if _apply_keep(w, ops, ['remove', 'defs', str(l), str(d)]):
            if not _apply_keep(w, ops, ['add', 'defs', str(l2), str(d), '~']):
                _apply_keep(w, ops, ['add', 'defs', str(l), str(d), '~'])


def generated(rng, policy):
    """-> (World, ops). policy: 'DEFAULT' | 'EDIF'. Caller closes the world."""
    depth = rng.choice([1, 2, 2, 3])
    gops, info = netgen.build(rng, depth=depth, max_leaf=rng.randint(1, 3), max_mid_per_layer=2,
                              max_children=rng.randint(2, 4), two_libs=rng.random() < 0.7,
                              unnamed_rate=0.0, bus=True)
    w = World(listen=False)
    ops = []
    if policy == 'EDIF':
        _apply_keep(w, ops, ['policy', '1'])
    for op in gops:
        if not _apply_keep(w, ops, op):
            w.close()
            raise RuntimeError('netgen op refused: %r' % (op,))
    spread(w, ops, rng)
    decorate(w, ops, rng)
    refused_adds(w, ops, rng)
    return w, ops


def refused_adds(w, ops, rng, n=3):
    """history before the queries: attempts to create an element whose name a sibling already carries but whose
    EDIF identifier is new. The attempt is refused and must leave no trace: an exact query for that identifier
    finds nothing. (The refused ops stay in the recipe - they allocate objects, so the indices of a replay agree.)
    The identifiers tried are remembered in w.extra_patterns."""
    import spydrnet as sdn
    w.extra_patterns = getattr(w, 'extra_patterns', [])
    defs = [i for i, o in enumerate(w.objs) if isinstance(o, sdn.ir.Definition)]
    rng.shuffle(defs)
    done = 0
    for d in defs:
        o = w.objs[d]
        for rel, group in (('ports', o.ports), ('cables', o.cables), ('children', o.children)):
            named = [e for e in group if isinstance(e.name, str) and e.name]
            if not named or done >= n:
                continue
            idn = 'zq%d' % (len(w.extra_patterns))
            op = ['create', rel, str(d), tok_of_s(rng.choice(named).name), '1', tok_of_s('EDIF.identifier'), 's:' + tok_of_s(idn), '0', '~']
            out = w.apply(op)
            ops.append(op)
            if out != 'ok':
                w.extra_patterns.append(idn)
                w.refused_ops = getattr(w, 'refused_ops', {})
                w.refused_ops[len(ops) - 1] = out
                done += 1


def _mk(b):
    return b.ops


def handmade(which, policy):
    """Small designs with colliding sibling names. -> (World, ops)"""
    b = netgen.Builder()
    n = b.netlist('n')
    lib = b.library(n, 'a')
    lib2 = b.library(n, 'A')
    leaf = b.definition(lib, 'leaf')
    lp, lpins = b.port(leaf, 'a', 1, direction=2)
    lq, lqpins = b.port(leaf, 'A', 2, direction=3, lower=0)
    leaf2 = b.definition(lib2, 'Leaf')
    b.port(leaf2, 'x*y', 1, direction=2)
    mid = b.definition(lib, 'ab')
    mp, mpins = b.port(mid, 'a[0]', 1, direction=2)
    mq, mqpins = b.port(mid, 'a[1]', 1, direction=3)
    names = {
        0: ['a', 'A', 'ab', 'Ab', 'a[0]', 'a[1]', 'x*y'],
        1: ['x*y', 'xzy', 'x?y', 'x*', 'a.b', 'aXb', 'a\\b'],
        2: ['a', 'a0', 'A', 'a]', '[a]', '!a', 'a-b'],
    }[which % 3]
    kids = []
    for j, nm in enumerate(names):
        kids.append(b.child(mid, nm, leaf if j % 3 else leaf2))
    cabs = []
    for j, nm in enumerate(names[:5]):
        c, wires = b.cable(mid, nm, 1)
        cabs.append((c, wires))
    b.connect_inner(cabs[0][1][0], mpins[0])
    for j, x in enumerate(kids):
        if j % 3:
            b.connect_outer(cabs[j % len(cabs)][1][0], x, lpins[0])
    topd = b.definition(lib2, 'Ab')
    tp, tpins = b.port(topd, 'a', 1, direction=2)
    t1 = b.child(topd, 'a', mid)
    t2 = b.child(topd, 'A', mid)
    t3 = b.child(topd, 'a*', leaf)
    c, wires = b.cable(topd, 'a', 1)
    c2, wires2 = b.cable(topd, 'A', 2, lower=0)
    b.connect_inner(wires[0], tpins[0])
    b.connect_outer(wires[0], t1, mpins[0])
    b.connect_outer(wires2[0], t1, mqpins[0])
    b.connect_outer(wires2[0], t2, mpins[0])
    b.connect_outer(wires2[1], t3, lpins[0])
    t = b.top_from_definition(n, topd)
    b.name(t, 'top')
    w = World(listen=False)
    ops = []
    if policy == 'EDIF':
        _apply_keep(w, ops, ['policy', '1'])
    for op in b.ops:
        if not _apply_keep(w, ops, op):
            w.close()
            raise RuntimeError('handmade op refused: %r' % (op,))
    # identifiers (legal, unique up to case per scope) and user values that repeat among siblings
    ids = ['a', 'B', 'aB', 'Ab1', 'x_y', 'xZy', 'a_0', 'A_1', 'q', 'Q2', 'r', 's', 't', 'u', 'v', 'w']
    for i in range(len(w.objs)):
        k = w.kind(w.objs[i])
        if k in ('pin', 'wire'):
            continue
        for j in range(len(ids)):
            if _apply_keep(w, ops, ['dset', str(i), tok_of_s('EDIF.identifier'), 's:' + tok_of_s(ids[(i + j) % len(ids)])]):
                break
        _apply_keep(w, ops, ['dset', str(i), tok_of_s(USER_KEY), 's:' + tok_of_s(['v', 'V', 'v1'][i % 3])])
    return w, ops


def rebuild(ops):
    w = World(listen=False)
    for k, op in enumerate(ops):
        out = w.apply(op)
        if out != 'ok':
            # the only refused ops a recipe keeps are the attempts of `refused_adds` (a taken name with a new
            # EDIF identifier): they allocate objects, so they stay in the recipe; anything else is an error
            if op[0] == 'create' and 'EDIF.identifier' in ''.join(chr(int(x)) for x in op[5].split(',') if x.isdigit()) if len(op) > 5 and op[4] == '1' else False:
                w.refused_ops = getattr(w, 'refused_ops', {})
                w.refused_ops[k] = out
                idn = ''.join(chr(int(x)) for x in op[6][2:].split(',') if x.isdigit())
                w.extra_patterns = getattr(w, 'extra_patterns', []) + [idn]
                continue
            w.close()
            raise RuntimeError('recipe op refused on replay: %r -> %s' % (op, out))
    return w
