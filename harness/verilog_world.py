"""Engine `verilog`: observation of real spydrnet netlists for the Verilog properties (C04, C06).

* canon(netlist)      - canonical, id-free, bit-level description of a netlist (what C04 compares before
                        and after a write/read cycle and what C06 compares with the generator's abstract
                        design): per module the ordered ports (name, direction, width, base index), the
                        cables (width, base index), the instances (module, parameters, attributes), the
                        connectivity map  "cable[bit]" -> sorted endpoints ("P:port[bit]" |
                        "I:inst.port[bit]"), and the assigns (width, per pin k the pair (lhs bit, rhs bit)).
* wf(netlist)         - well-formedness and self-containedness of the object graph (list of problems).
* diff_canon(a, b)    - first differences between two canonical descriptions (for reports).
Everything here only reads public attributes of the spydrnet objects (plus Instance.pins)."""
import spydrnet as sdn
from spydrnet.ir import InnerPin, OuterPin

ASSIGN_LIB = 'SDN_VERILOG_ASSIGNMENT'
PRIM_LIB = 'hdi_primitives'

DIRS = {sdn.Port.Direction.IN: 'in', sdn.Port.Direction.OUT: 'out', sdn.Port.Direction.INOUT: 'inout',
        sdn.Port.Direction.UNDEFINED: 'undefined'}


def _port_label(port, pos):
    return port.name if port.name is not None else '~%d' % pos


def _plain(v):
    """metadata values as JSON-able plain data"""
    if isinstance(v, dict):
        return {str(k): _plain(x) for k, x in v.items()}
    if isinstance(v, (list, tuple)):
        return [_plain(x) for x in v]
    if v is None or isinstance(v, (bool, int, float, str)):
        return v
    return str(v)


def is_assign_instance(inst):
    r = inst.reference
    return r is not None and r.library is not None and r.library.name == ASSIGN_LIB


def canon_definition(d):
    out = {'lib': d.library.name if d.library is not None else None}
    pin_label = {}
    ports = []
    port_pos = {}
    for pos, p in enumerate(d.ports):
        port_pos[p] = pos
        lab = _port_label(p, pos)
        ports.append([lab, DIRS.get(p.direction, str(p.direction)), len(p.pins), p.lower_index])
        for k, pin in enumerate(p.pins):
            pin_label[pin] = 'P:%s[%d]' % (lab, p.lower_index + k)
    out['ports'] = ports
    out['port_attrs'] = {_port_label(p, port_pos[p]): _plain(p['VERILOG.InlineConstraints'])
                         for p in d.ports if 'VERILOG.InlineConstraints' in p and p['VERILOG.InlineConstraints']}
    cables = {}
    wire_label = {}
    dup = []
    for c in d.cables:
        if c.name in cables:
            dup.append(c.name)
        ctype = c['VERILOG.CableType'] if 'VERILOG.CableType' in c else 'wire'
        cables[c.name] = [len(c.wires), c.lower_index, ctype]
        for k, w in enumerate(c.wires):
            wire_label[w] = '%s[%d]' % (c.name, c.lower_index + k)
    out['cables'] = cables
    out['cable_attrs'] = {c.name: _plain(c['VERILOG.InlineConstraints']) for c in d.cables
                          if 'VERILOG.InlineConstraints' in c and c['VERILOG.InlineConstraints']}
    insts = {}
    assigns = []
    # labels of instance pins, built per referenced definition once
    ref_cache = {}

    def ref_labels(r):
        if r not in ref_cache:
            m = {}
            for pos, p in enumerate(r.ports):
                lab = _port_label(p, pos)
                for k, pin in enumerate(p.pins):
                    m[pin] = (lab, p.lower_index + k)
            ref_cache[r] = m
        return ref_cache[r]

    nets = {}
    for inst in d.children:
        r = inst.reference
        if is_assign_instance(inst):
            o = next((p for p in r.ports if p.name == 'o'), None)
            i = next((p for p in r.ports if p.name == 'i'), None)
            pairs = []
            for k in range(max(len(o.pins) if o else 0, len(i.pins) if i else 0)):
                ow = inst.pins[o.pins[k]].wire if o and k < len(o.pins) else None
                iw = inst.pins[i.pins[k]].wire if i and k < len(i.pins) else None
                pairs.append([wire_label.get(ow) if ow is not None else None,
                              wire_label.get(iw) if iw is not None else None])
            assigns.append([len(pairs), pairs])
            continue
        if inst.name in insts:
            dup.append(inst.name)
        params = _plain(inst['VERILOG.Parameters']) if 'VERILOG.Parameters' in inst else {}
        attrs = _plain(inst['VERILOG.InlineConstraints']) if 'VERILOG.InlineConstraints' in inst else {}
        insts[inst.name] = {'ref': r.name if r is not None else None, 'params': params or {}, 'attrs': attrs or {}}
        if r is not None:
            labs = ref_labels(r)
            for ipin, opin in inst.pins.items():
                if opin.wire is not None:
                    lab = labs.get(ipin)
                    ep = 'I:%s.%s[%d]' % (inst.name, lab[0], lab[1]) if lab else 'I:%s.?' % inst.name
                    nets.setdefault(wire_label.get(opin.wire, '?foreign-wire'), []).append(ep)
    for p in d.ports:
        for pin in p.pins:
            if pin.wire is not None:
                nets.setdefault(wire_label.get(pin.wire, '?foreign-wire'), []).append(pin_label[pin])
    out['insts'] = insts
    out['nets'] = {k: sorted(v) for k, v in nets.items()}
    out['assigns'] = sorted(assigns, key=lambda a: (a[0], str(a[1])))
    out['params'] = _plain(d['VERILOG.Parameters']) if 'VERILOG.Parameters' in d else {}
    out['attrs'] = _plain(d['VERILOG.InlineConstraints']) if 'VERILOG.InlineConstraints' in d else {}
    out['primitive'] = bool(d['VERILOG.primitive']) if 'VERILOG.primitive' in d else False
    if dup:
        out['duplicate_names'] = sorted(set(str(x) for x in dup))
    return out


def canon(netlist):
    defs = {}
    dups = []
    for lib in netlist.libraries:
        if lib.name == ASSIGN_LIB:
            continue
        for d in lib.definitions:
            if d.name in defs:
                dups.append(d.name)
            defs[d.name] = canon_definition(d)
    top = netlist.top_instance
    out = {'top': (top.reference.name if top is not None and top.reference is not None else None), 'defs': defs}
    if dups:
        out['duplicate_definitions'] = dups
    return out


def wf(netlist):
    """Well-formed and self-contained: every link has its back link, every reference stays inside the
    netlist, instance pins mirror the referenced definition, wires and pins point at each other and live
    in the same module, names are unique among siblings, bundles are non-empty, a top exists."""
    bad = []

    def add(msg):
        if len(bad) < 50:
            bad.append(msg)

    all_defs = set()
    lib_names = set()
    for lib in netlist.libraries:
        if lib.netlist is not netlist:
            add('library %r: netlist back link' % lib.name)
        if lib.name in lib_names:
            add('duplicate library name %r' % lib.name)
        lib_names.add(lib.name)
        names = set()
        for d in lib.definitions:
            if d.library is not lib:
                add('definition %r: library back link' % d.name)
            if d.name is None or d.name in names:
                add('definition name %r missing or duplicate in %r' % (d.name, lib.name))
            names.add(d.name)
            all_defs.add(d)
    top = netlist.top_instance
    if top is None:
        add('no top instance')
    else:
        if top.reference is None or top.reference not in all_defs:
            add('top instance does not reference a definition of the netlist')
        if top.parent is not None:
            pass  # allowed by the API (top may also be a child)
    for d in all_defs:
        pnames, cnames, inames = set(), set(), set()
        inner = set()
        for p in d.ports:
            if p.definition is not d:
                add('%s: port %r definition back link' % (d.name, p.name))
            if p.name is not None:
                if p.name in pnames:
                    add('%s: duplicate port name %r' % (d.name, p.name))
                pnames.add(p.name)
            if len(p.pins) == 0:
                add('%s: port %r has no pins' % (d.name, p.name))
            for pin in p.pins:
                if pin.port is not p:
                    add('%s: pin of port %r port back link' % (d.name, p.name))
                inner.add(pin)
                if pin.wire is not None:
                    if pin not in pin.wire.pins:
                        add('%s: port pin %r not in its wire' % (d.name, p.name))
                    if pin.wire.cable is None or pin.wire.cable.definition is not d:
                        add('%s: port pin %r on a wire of another module' % (d.name, p.name))
        wires = set()
        for c in d.cables:
            if c.definition is not d:
                add('%s: cable %r definition back link' % (d.name, c.name))
            if c.name is None or c.name in cnames:
                add('%s: cable name %r missing or duplicate' % (d.name, c.name))
            cnames.add(c.name)
            if len(c.wires) == 0:
                add('%s: cable %r has no wires' % (d.name, c.name))
            for w in c.wires:
                if w.cable is not c:
                    add('%s: wire of cable %r cable back link' % (d.name, c.name))
                wires.add(w)
        children = set(d.children)
        for inst in d.children:
            if inst.parent is not d:
                add('%s: child %r parent back link' % (d.name, inst.name))
            if inst.name is None or inst.name in inames:
                add('%s: instance name %r missing or duplicate' % (d.name, inst.name))
            inames.add(inst.name)
            r = inst.reference
            if r is None:
                add('%s: instance %r has no reference' % (d.name, inst.name))
                continue
            if r not in all_defs:
                add('%s: instance %r references %r outside the netlist' % (d.name, inst.name, r.name))
            if inst not in r.references:
                add('%s: instance %r missing from references of %r' % (d.name, inst.name, r.name))
            rpins = set(pin for p in r.ports for pin in p.pins)
            if set(inst.pins.keys()) != rpins:
                add('%s: instance %r pins do not mirror %r' % (d.name, inst.name, r.name))
            for ipin, opin in inst.pins.items():
                if opin.instance is not inst or opin.inner_pin is not ipin:
                    add('%s: instance %r outer pin links' % (d.name, inst.name))
                if opin.wire is not None:
                    if opin not in opin.wire.pins:
                        add('%s: instance %r pin not in its wire' % (d.name, inst.name))
                    if opin.wire not in wires:
                        add('%s: instance %r pin on a wire of another module' % (d.name, inst.name))
        for w in wires:
            seen = set()
            for pin in w.pins:
                if pin.wire is not w:
                    add('%s: wire %s lists a pin whose wire is different' % (d.name, w.cable.name))
                if isinstance(pin, OuterPin):
                    if pin.instance not in children:
                        add('%s: wire %s joins a pin of an instance of another module' % (d.name, w.cable.name))
                    elif pin.instance.pins.get(pin.inner_pin) is not pin and pin.instance.pins.get(pin.inner_pin) != pin:
                        add('%s: wire %s joins a stale outer pin' % (d.name, w.cable.name))
                    key = (id(pin.instance), id(pin.inner_pin))
                else:
                    if pin not in inner:
                        add('%s: wire %s joins a port pin of another module' % (d.name, w.cable.name))
                    key = id(pin)
                if key in seen:
                    add('%s: wire %s lists a pin twice' % (d.name, w.cable.name))
                seen.add(key)
        for ref in d.references:
            if ref.reference is not d:
                add('%s: stale entry in references' % d.name)
            elif ref is not top and (ref.parent is None or ref.parent not in all_defs):
                add('%s: references contains an orphan instance %r' % (d.name, ref.name))
    return bad


def diff_canon(a, b, limit=8):
    """human-readable first differences between canonical descriptions a (expected/before) and b"""
    out = []

    def add(msg):
        if len(out) < limit:
            out.append(msg)

    if a.get('top') != b.get('top'):
        add('top: %r != %r' % (a.get('top'), b.get('top')))
    for k in ('duplicate_definitions',):
        if a.get(k) != b.get(k):
            add('%s: %r != %r' % (k, a.get(k), b.get(k)))
    da, db = a['defs'], b['defs']
    for n in sorted(set(da) | set(db), key=str):
        if n not in da:
            add('module %r only in second' % n)
            continue
        if n not in db:
            add('module %r only in first' % n)
            continue
        x, y = da[n], db[n]
        for f in sorted(set(x) | set(y)):
            if x.get(f) == y.get(f):
                continue
            if isinstance(x.get(f), dict) and isinstance(y.get(f), dict):
                for kk in sorted(set(x[f]) | set(y[f]), key=str):
                    if x[f].get(kk) != y[f].get(kk):
                        add('%s.%s[%s]: %r != %r' % (n, f, kk, x[f].get(kk), y[f].get(kk)))
            else:
                add('%s.%s: %r != %r' % (n, f, x.get(f), y.get(f)))
    return out
