"""EBLIF engine: classes of input, computed from the token lines / dumps only.  Known findings are
keyed on them (signature = <oracle>|<failure kind>|<input class>), so that a different failure of
the same property, or the same failure on another class of input, is reported as a VIOLATION."""

BODY_STMTS = ('.subckt', '.gate', '.names', '.latch')
INFO_STMTS = ('.cname', '.attr', '.param')


def cable_of(tok):
    """cable / port name of a `name[idx]` token (the reader's get_port_name_and_index)"""
    if tok.endswith(']') and '[' in tok:
        return tok[:tok.rfind('[')]
    return tok


def bit_of(tok):
    """bit index of a `name[idx]` token, 0 without index"""
    if tok.endswith(']') and '[' in tok:
        idx = tok[tok.rfind('[') + 1:-1].split(':')[0]
        return int(idx) if idx.isdigit() else 0
    return 0


def split_models(doc):
    """[(model name, [lines after the .model line up to and including .end])]"""
    models, cur = [], None
    for l in doc:
        if cur is None:
            if l and l[0] == '.model' and len(l) == 2:
                cur = (l[1], [])
                models.append(cur)
        else:
            cur[1].append(l)
            if l and l[0] == '.end':
                cur = None
    return models


def is_row(l):
    return bool(l) and all(c in '01-' for c in l[0])


def doc_features(doc):
    f = set()
    for l in doc:
        if l and l[0] != '#' and '#' in l[1:]:
            f.add('trailing-comment')
    instanced = set()
    models = split_models(doc)
    for name, lines in models:
        hdr_open, seen_outputs = True, False
        in_info, broken = False, False
        conn_cables = []
        merge_names = []
        named = set()
        first_latch = None
        out_bits = set()
        for l in lines:
            head = l[0] if l else ''
            # a port bit named in an .outputs line and in a later .inputs line (an inout port, outputs first)
            if head == '.outputs':
                out_bits |= set((cable_of(t), bit_of(t)) for t in l[1:])
            if head == '.inputs' and any((cable_of(t), bit_of(t)) in out_bits for t in l[1:]):
                f.add('inout-outputs-first')
            # header
            if head in ('.inputs', '.outputs', '.clock'):
                if not hdr_open and head != '.clock':
                    f.add('header-gap')
                if head == '.inputs' and seen_outputs:
                    f.add('outputs-before-inputs')
                if head == '.outputs':
                    seen_outputs = True
            else:
                hdr_open = False
            # instance info
            if head in INFO_STMTS:
                if in_info and broken:
                    f.add('comment-in-info')
            elif head == '#':
                if in_info:
                    broken = True
            elif head in BODY_STMTS or (in_info and is_row(l)):
                in_info, broken = True, False
            elif head != '':
                in_info, broken = False, False
            # cables used by the statement
            cables = set()
            if head in ('.subckt', '.gate') and len(l) >= 2:
                instanced.add(l[1])
                cables = set(cable_of(t.split('=', 1)[1]) for t in l[2:] if '=' in t)
            elif head in ('.names', '.latch'):
                cables = set(cable_of(t) for t in l[1:])
            if head == '.latch':
                n = len(l) - 1
                if n == 3:
                    f.add('latch3')
                if first_latch is None:
                    first_latch = n
                elif n > first_latch:
                    f.add('latch-mix')
            named |= cables
            if head in BODY_STMTS and cables & set(conn_cables):
                f.add('conn-early')
            if head == '.conn' and len(l) == 3:
                for t in l[1:]:
                    c = cable_of(t)
                    if c in conn_cables:
                        f.add('conn-twice')
                    named.add(c)
                    conn_cables.append(c)
                merge_names.append('%s_%d_%s_%d' % (cable_of(l[1]), bit_of(l[1]), cable_of(l[2]), bit_of(l[2])))
            if head == '.blackbox':
                f.add('blackbox')
        # a net of the section is spelled like the cable name <a>_<i>_<b>_<j> that the reader, before the repair of
        # merge_wires, gave the net merged by a .conn of the section (it then captured that net)
        if named & set(merge_names):
            f.add('conn-capture')
        # .conn on a bit of a multi-wire cable (before the repair: remove_wire renumbered the remaining wires)
        multi = set()
        for l in lines:
            for t in l[1:] if l else []:
                t = t.split('=', 1)[1] if (l[0] in ('.subckt', '.gate') and '=' in t) else t
                if t.endswith(']') and '[' in t:
                    idx = t[t.rfind('[') + 1:-1]
                    if idx.isdigit() and int(idx) >= 1:
                        multi.add(cable_of(t))
        if set(conn_cables) & multi:
            f.add('conn-on-bus')
    if len(models) > 1 and models[0][0] not in instanced and any(l and l[0] == '.blackbox' for l in models[0][1]):
        f.add('unused-first-model')
    # the file ends inside an instance statement's info block (no closing .end)
    last = None
    for l in doc:
        if l:
            last = l
    if last is not None and (last[0] in BODY_STMTS + INFO_STMTS + ('.model', '.inputs', '.outputs', '.clock') or is_row(last)):
        f.add('no-final-end')
    return f


def port_net_merged(dump):
    """a top-level port bit sits on a wire that is not wire `bit` of the cable named like the port
    (only .conn does that): the composer writes the port under its own name and the net under the
    cable's name"""
    if 'error' in dump or not dump.get('top'):
        return False
    m = dump['models'].get(dump['top'][1])
    if not m:
        return False
    widths = {p: w for p, d, w in m['ports']}
    for cname, wires in m['cables']:
        for k, w in enumerate(wires):
            for pin in w:
                if pin.startswith('TOP.'):
                    p, b = pin[4:].rsplit('.', 1)
                    if p != cname or int(b) != k or (len(wires) > 1) != (widths.get(p, 1) > 1):
                        return True
    return False


def port_bit_unattached(dump):
    """a port with a direction of the top model has a bit that sits on no wire (only some bits of the bus were
    named in .inputs/.outputs): the composer writes every bit of the port, so the bit gains a wire on re-reading"""
    if 'error' in dump or not dump.get('top'):
        return False
    m = dump['models'].get(dump['top'][1])
    if not m:
        return False
    on_wire = set(pin for _, wires in m['cables'] for w in wires for pin in w)
    for p, d, w in m['ports']:
        if d != 'UNDEFINED' and any('TOP.%s.%d' % (p, b) not in on_wire for b in range(w)):
            return True
    return False


def default_name_clash(doc):
    """the (written) file gives an instance statement the .cname `<ref>_instance_<j>` before the j-th
    statement instancing <ref> in that model has been read: that later statement receives the same
    default name before its own .cname is seen"""
    pos, claimed, cur = {}, set(), None
    for l in doc:
        head = l[0] if l else ''
        if head == '.model':
            pos, claimed, cur = {}, set(), None
        ref = None
        if head in ('.subckt', '.gate') and len(l) >= 2:
            ref = l[1]
        elif head == '.names' and len(l) >= 2 and l[-1] == 'unconn':
            ref = 'logic-gate_%d' % (len(l) - 2)
        if head in BODY_STMTS:
            cur = head
        if ref is not None:
            j = pos.get(ref, 0)
            pos[ref] = j + 1
            if (ref, j) in claimed:
                return True
        elif head == '.cname' and len(l) == 2 and cur is not None and '_instance_' in l[1]:
            r, _, num = l[1].rpartition('_instance_')
            if num.isdigit() and pos.get(r, 0) <= int(num):
                claimed.add((r, int(num)))
    return False


def top_is_primitive(dump):
    """the top instance references a definition of library hdi_primitives: the composer skips it"""
    if 'error' in dump or not dump.get('top'):
        return False
    m = dump['models'].get(dump['top'][1])
    return bool(m) and m['lib'] == 'hdi_primitives'
