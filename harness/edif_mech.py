"""Correspondence of the extracted EDIF mechanism models (ocaml/_build/driver_edif) with the real
spydrnet functions, called directly on spydrnet objects:

  topo    ComposeEdif._topological_sort           vs  EdifTopo.topological_sort
  dec     str(int) / int(str)                      vs  EdifName.dec / int_of
  sep     EdifParser.separate_name_and_index       vs  EdifName.sep_bracket / sep_underscore
  netbit  (both calls as multibit_add_cable does)  vs  EdifName.net_bit
  mbseq   EdifParser.multibit_add_cable            vs  EdifCable.mb_add folded over a net sequence
  member  ComposeEdif._output_port_ref_ / _output_inner_pin_ + port.pins[i]
                                                   vs  EdifCable.member_inner / member_outer / member_read
  emit    ComposeEdif._output_cable_ (text read by the independent s-expression reader)
                                                   vs  EdifBus.emit_cable
  readc   sdn.parse of a one-cell file holding the nets   vs  EdifBus.read_cable
  tok     EdifTokenizer token by token             vs  EdifLex.tokenize
  print   EdifLex.print fed to the REAL tokenizer  vs  EdifLex.flatten ; independent reader vs EdifLex.read

Every function returns (n_cases, list of disagreements); a disagreement is a dict with the
command line sent to the model, the model's answer and the implementation's answer."""
import io, os, subprocess, random
import common
import spydrnet as sdn
from spydrnet.parsers.edif.parser import EdifParser
from spydrnet.parsers.edif.tokenizer import EdifTokenizer
from spydrnet.composers.edif.composer import ComposeEdif
from spydrnet.plugins import namespace_manager
import edif_canon as ec

DRIVER = os.path.join(common.OCAML_BUILD, 'driver_edif')


def tok_of_s(s):
    return '-' if s == '' else ','.join(str(ord(c)) for c in s)


def s_of_tok(t):
    return '' if t == '-' else ''.join(chr(int(x)) for x in t.split(','))


def run_model(lines):
    if not lines:
        return []
    r = subprocess.run([DRIVER], input='\n'.join(lines) + '\n', capture_output=True, text=True)
    out = r.stdout.split('\n')
    if out and out[-1] == '':
        out.pop()
    if len(out) != len(lines):
        raise RuntimeError('driver_edif answered %d lines for %d commands: %s' % (len(out), len(lines), r.stderr[-300:]))
    return out


def _cmp(lines, impl, kind):
    model = run_model(lines)
    bad = []
    for l, m, i in zip(lines, model, impl):
        if m != i:
            bad.append({'mechanism': kind, 'command': l, 'model': m, 'implementation': i})
    return len(lines), bad


# ---- topological sort ---------------------------------------------------------------------------
def gen_dag(rng, n, sorted_input=False, as_set=False):
    """nodes are arbitrary distinct handles; rank = position in a hidden order"""
    handles = rng.sample(range(0, 3 * n + 5), n)
    deps = {}
    for k, h in enumerate(handles):
        cands = handles[:k]
        ds = [c for c in cands if rng.random() < min(0.5, 2.5 / max(1, k))]
        rng.shuffle(ds)
        deps[h] = ds
    objs = list(handles)
    if not sorted_input:
        rng.shuffle(objs)
    return objs, deps


def topo_line(objs, deps):
    parts = ['topo', str(len(objs))] + [str(o) for o in objs] + [str(len(deps))]
    for k, ds in deps.items():
        parts += [str(k), str(len(ds))] + [str(d) for d in ds]
    return ' '.join(parts)


def check_topo(rng, n_cases):
    lines, impl = [], []
    stats = {'sorted_input': 0, 'set_deps': 0, 'cycle': 0}
    ce = ComposeEdif()
    for c in range(n_cases):
        n = rng.choice([1, 2, 3, 5, 8, 13, 25])
        mode = rng.random()
        objs, deps = gen_dag(rng, n, sorted_input=mode < 0.2)
        if mode < 0.2:
            stats['sorted_input'] += 1
        if 0.2 <= mode < 0.5:
            # dependency SETS, iterated in whatever order CPython's set gives; the model gets that order
            stats['set_deps'] += 1
            sets = {k: set(v) for k, v in deps.items()}
            deps = {k: list(s) for k, s in sets.items()}
            out = ce._topological_sort(list(objs), lambda o: sets[o])
        else:
            out = ce._topological_sort(list(objs), lambda o: deps[o])
        lines.append(topo_line(objs, deps))
        impl.append(' '.join(['ok'] + [str(o) for o in out]))
    # two small cyclic inputs: the model answers none; the implementation must not return
    for cyc in ([1, 2], [4, 5, 6]):
        deps = {cyc[i]: [cyc[(i + 1) % len(cyc)]] for i in range(len(cyc))}
        stats['cycle'] += 1
        res = 'none'
        try:
            with ec.time_limit(0.05):
                out = ce._topological_sort(list(cyc), lambda o: deps[o])
            res = ' '.join(['ok'] + [str(o) for o in out])
        except ec.Timeout:
            pass
        except MemoryError:
            pass
        lines.append(topo_line(cyc, deps))
        impl.append(res)
    n, bad = _cmp(lines, impl, 'topo')
    return n, bad, stats


# ---- decimal numerals and name / index splitting ---------------------------------------------
NAME_ALPHABET = ['a', 'b', 'Z', '0', '1', '9', '[', ']', '_', '_', '&', '\\', ' ', '[', ']', '.', '-']


def gen_name(rng):
    r = rng.random()
    if r < 0.35:
        k = rng.choice([0, 1, 2, 3, 4, 6, 9])
        return ''.join(rng.choice(NAME_ALPHABET) for _ in range(k))
    base = ''.join(rng.choice(NAME_ALPHABET) for _ in range(rng.choice([0, 1, 2, 4])))
    i = rng.choice([0, 1, 7, 10, 42, 2 ** 31, 10 ** 20 + 7])
    if r < 0.6:
        return '%s[%d]' % (base, i)
    if r < 0.85:
        return '%s_%d_' % (base, i)
    return rng.choice(['&_%s_%d_', '\\%s[%d]', '\\%s [%d]', '\\%s[%d] ', '%s[%d', '%s[0%d]', '%s__%d_', '&%s_%d_']) % (base, i)


def bits_of_int(n):
    return 'b' + bin(n)[2:]


def check_names(rng, n_cases):
    p = EdifParser()
    lines, impl = [], []
    stats = {'raise': 0, 'index': 0, 'noindex': 0}
    for c in range(n_cases):
        s = gen_name(rng)
        for cmd, ch in (('sepb', '['), ('sepu', '_')):
            try:
                idx, short = p.separate_name_and_index(s, ch)
                if idx is None:
                    res = 'none ' + tok_of_s(short)
                    stats['noindex'] += 1
                else:
                    res = 'some %s %s' % (tok_of_s(str(idx)), tok_of_s(short))
                    stats['index'] += 1
            except IndexError:
                res = 'raise'
                stats['raise'] += 1
            lines.append('%s %s' % (cmd, tok_of_s(s)))
            impl.append(res)
    for c in range(n_cases // 2):
        ident, name = gen_name(rng), gen_name(rng)
        try:
            e_index, e_short = p.separate_name_and_index(ident, '_')
            n_index, n_short = p.separate_name_and_index(name, '[')
            index = n_index if e_index is not None else None
            res = ('none' if index is None else 'some ' + tok_of_s(str(index))) + ' %s %s' % (tok_of_s(n_short), tok_of_s(e_short))
        except IndexError:
            res = 'raise'
        lines.append('netbit %s %s' % (tok_of_s(ident), tok_of_s(name)))
        impl.append(res)
    for c in range(n_cases // 2):
        n = rng.choice([0, 1, 9, 10, 99, 100, 12345, 2 ** 32, 2 ** 64 - 1, rng.randrange(10 ** 40), rng.randrange(1000)])
        lines.append('dec ' + bits_of_int(n))
        impl.append(tok_of_s(str(n)))
        lines.append('intof ' + tok_of_s(str(n)))
        impl.append(bits_of_int(int(str(n))))
        ident, name = gen_name(rng), gen_name(rng)
        lines.append('bitnames %s %s %s' % (tok_of_s(ident), tok_of_s(name), bits_of_int(n)))
        # the writer's string arithmetic (composer.py:447-448)
        impl.append('%s %s' % (tok_of_s(ident + '_' + str(n) + '_'), tok_of_s(name + '[' + str(n) + ']')))
    n, bad = _cmp(lines, impl, 'names')
    return n, bad, stats


# ---- multibit_add_cable ------------------------------------------------------------------------
def real_mbseq(bits, ident='b', name='b'):
    """Feed one-wire nets (index or None, pin numbers) to the real multibit_add_cable, in order."""
    old = namespace_manager.default
    namespace_manager.default = 'EDIF'
    try:
        p = EdifParser()
        d = sdn.Definition()
        d['EDIF.identifier'] = 'cell'
        port = d.create_port()
        port['EDIF.identifier'] = 'p'
        port.create_pins(1 + max([q for _, pins in bits for q in pins] + [0]))
        steps = []
        main = None
        for idx, pins in bits:
            c = sdn.Cable()
            if idx is None:
                c['EDIF.identifier'] = ident
                c.name = name
            else:
                c['EDIF.identifier'] = '%s_%d_' % (ident, idx)
                c.name = '%s[%d]' % (name, idx)
            c.is_scalar = True
            w = c.create_wire()
            for q in pins:
                w.connect_pin(port.pins[q])
            try:
                p.multibit_add_cable(d, c)
                if main is None:
                    main = c
                    steps.append('c')
                elif c.definition is d:
                    steps.append('s')
                else:
                    steps.append('c')
            except ValueError:
                steps.append('s')
        if main is None:
            return ' '.join(steps) + ' | none'
        wires = [[port.pins.index(q) for q in w.pins] for w in main.wires]
        flat = ' '.join('%d %s' % (len(w), ' '.join(map(str, w))) if w else '0' for w in wires)
        return '%s | %d %d %d %s' % (' '.join(steps), main.lower_index, 1 if main._is_scalar is False else 0, len(wires), flat)
    finally:
        namespace_manager.default = old


def check_multibit(rng, n_cases):
    lines, impl = [], []
    stats = {'distinct': 0, 'with_duplicates': 0, 'with_scalar': 0, 'gaps': 0}
    for c in range(n_cases):
        lo = rng.choice([0, 0, 1, 5, 30])
        width = rng.choice([1, 2, 3, 4, 6, 9])
        idxs = [lo + k for k in range(width)]
        keep = [i for i in idxs if rng.random() < 0.75] or [idxs[0]]
        if len(keep) < width:
            stats['gaps'] += 1
        rng.shuffle(keep)
        r = rng.random()
        seq = [(i, None) for i in keep]
        if r < 0.15:
            seq.insert(rng.randint(0, len(seq)), (rng.choice(keep), None))
            stats['with_duplicates'] += 1
        elif r < 0.3:
            seq.insert(rng.randint(0, len(seq)), (None, None))
            stats['with_scalar'] += 1
        else:
            stats['distinct'] += 1
        pin = [0]

        def pins():
            k = rng.choice([0, 1, 1, 2, 3])
            out = list(range(pin[0], pin[0] + k))
            pin[0] += k
            return out
        bits = [(i, pins()) for i, _ in seq]
        parts = ['mbseq', str(len(bits))]
        for i, ps in bits:
            parts += ['~' if i is None else str(i), str(len(ps))] + [str(q) for q in ps]
        lines.append(' '.join(parts))
        impl.append(real_mbseq(bits))
    n, bad = _cmp(lines, impl, 'multibit')
    return n, bad, stats


# ---- member indices -----------------------------------------------------------------------------
def check_member(rng, n_cases):
    import re
    lines, impl = [], []
    stats = {'inner': 0, 'outer': 0}
    for c in range(n_cases):
        width = rng.choice([1, 2, 3, 4, 8, 17])
        d = sdn.Definition(name='d')
        d['EDIF.identifier'] = 'd'
        port = d.create_port(name='p')
        port['EDIF.identifier'] = 'p'
        port.create_pins(width)
        port.is_array = True
        port.lower_index = rng.choice([0, 3, 100])
        port.is_downto = rng.random() < 0.5
        cab = d.create_cable(name='c')
        cab['EDIF.identifier'] = 'c'
        cab.create_wires(width)
        haswire = [rng.random() < 0.7 for _ in range(width)]
        k = rng.randrange(width)
        haswire[k] = True
        for i in range(width):
            if haswire[i]:
                cab.wires[i].connect_pin(port.pins[i])
        ce = ComposeEdif()
        ce._output_ = io.StringIO()
        ce._output_port_ref_(port, 'c', port.pins[k])
        m = re.search(r'\(member p (\d+)\)', ce._output_.getvalue())
        inner = int(m.group(1))
        top = sdn.Definition(name='t')
        inst = top.create_child(name='u', reference=d)
        inst['EDIF.identifier'] = 'u'
        ce._output_ = io.StringIO()
        ce._lisp_depth_ = 5
        ce._output_inner_pin_(inst.pins[port.pins[k]])
        outer = [int(x) for x in re.findall(r'member p((?: \d+\))+)', ce._output_.getvalue())[0].replace(')', '').split()]
        reads = port.pins.index(port.pins[inner])
        pins = list(range(100, 100 + width))
        lines.append('member %d %s %s %d' % (width, ' '.join(map(str, pins)), ' '.join('1' if h else '0' for h in haswire), pins[k]))
        impl.append('outer %d %s inner %d reads %d' % (len(outer), ' '.join(map(str, outer)), inner, pins[reads]))
        stats['inner'] += 1
        stats['outer'] += 1
    n, bad = _cmp(lines, impl, 'member')
    return n, bad, stats


# ---- one cable through the real writer / the real reader --------------------------------------
SAFE_IDENTS = ['b', 'data', 'q_reg', 'x1', 'Bus', 'n_3', 'sig_', 'a_1']


def gen_cable(rng):
    ident = rng.choice(SAFE_IDENTS)
    name = rng.choice([ident, ident, ident + '.x', 'my ' + ident, ident + '[1]', ident + '/d'])
    width = rng.choice([1, 1, 2, 3, 5])
    array = width > 1 or rng.random() < 0.4
    lower = rng.choice([0, 0, 2, 9]) if array else 0
    pin = [0]
    wires = []
    for _ in range(width):
        k = rng.choice([0, 1, 1, 2])
        wires.append(list(range(pin[0], pin[0] + k)))
        pin[0] += k
    return ident, name, lower, array, wires


def real_emit(ident, name, lower, array, wires):
    """the nets spydrnet's composer writes for this cable (pins are bits of a wide port `p`)"""
    d = sdn.Definition(name='d')
    d['EDIF.identifier'] = 'd'
    port = d.create_port(name='p')
    port['EDIF.identifier'] = 'p'
    port.create_pins(1 + max([q for w in wires for q in w] + [1]))
    cab = d.create_cable(name=name)
    cab['EDIF.identifier'] = ident
    if name != ident:
        cab['EDIF.rename'] = True
    cab.create_wires(len(wires))
    if len(wires) == 1 and array:
        cab.is_array = True
    cab.lower_index = lower
    for w, pins in zip(cab.wires, wires):
        for q in pins:
            w.connect_pin(port.pins[q])
    ce = ComposeEdif()
    ce._output_ = io.StringIO()
    ce._output_cable_(cab)
    text = '(x ' + ce._output_.getvalue() + ')'
    doc = ec.read_sexp(text)
    nets = []
    for net in ec.sub(doc, 'net'):
        nid, norig = ec.name_of(net[1])
        pins = []
        for j in ec.sub(net, 'joined'):
            for pr in ec.sub(j, 'portref'):
                pins.append(int(pr[1][2][1]))
        nets.append((nid, norig if norig is not None else nid, pins))
    return nets


def net_tokens(nets):
    parts = [str(len(nets))]
    for nid, nname, pins in nets:
        parts += [tok_of_s(nid), tok_of_s(nname), str(len(pins))] + [str(q) for q in pins]
    return ' '.join(parts)


def real_readc(nets, tmp):
    """parse a one-cell file with these nets through sdn.parse; returns the cable(s) it built"""
    npins = 2 + max([q for _, _, pins in nets for q in pins] + [0])
    body = []
    for nid, nname, pins in nets:
        nd = nid if nname == nid else '(rename %s "%s")' % (nid, nname)
        body.append('(net %s (joined %s))' % (nd, ' '.join('(portRef (member p %d))' % q for q in pins)))
    text = ('(edif n (edifVersion 2 0 0) (edifLevel 0) (keywordMap (keywordLevel 0)) (library work (edifLevel 0) '
            '(technology (numberDefinition)) (cell c (cellType GENERIC) (view netlist (viewType NETLIST) (interface '
            '(port (array p %d) (direction INPUT))) (contents %s)))) (design c (cellRef c (libraryRef work))))' % (npins, '\n'.join(body)))
    n = ec.parse_text(text, tmp)
    d = n.libraries[0].definitions[0]
    port = d.ports[0]
    return [(c.name, c['EDIF.identifier'], c.lower_index, 1 if c._is_scalar is False else 0,
             [[port.pins.index(q) for q in w.pins] for w in c.wires]) for c in d.cables]


def harness_emit(ident, name, lower, array, wires):
    """the writer's convention, re-stated in the harness (used when only the READER is under test)"""
    if len(wires) == 1 and not array:
        return [(ident, name, wires[0])]
    return [('%s_%d_' % (ident, lower + k), '%s[%d]' % (name, lower + k), w) for k, w in enumerate(wires)]


def check_bus(rng, n_cases, tmp, real_writer=True):
    lines, impl = [], []
    stats = {'scalar': 0, 'bus': 0, 'scrambled': 0, 'subset': 0}
    for c in range(n_cases):
        ident, name, lower, array, wires = gen_cable(rng)
        stats['bus' if (array or len(wires) > 1) else 'scalar'] += 1
        nets = real_emit(ident, name, lower, array, wires) if real_writer else harness_emit(ident, name, lower, array, wires)
        wtok = ' '.join('%d %s' % (len(w), ' '.join(map(str, w))) if w else '0' for w in wires)
        lines.append('emit %s %s %d %d %d %s' % (tok_of_s(ident), tok_of_s(name), lower, 1 if array else 0, len(wires), wtok))
        impl.append(net_tokens(nets))
        # the same nets, possibly scrambled / thinned, through the real reader
        nets2 = list(nets)
        r = rng.random()
        if r < 0.4:
            rng.shuffle(nets2)
            stats['scrambled'] += 1
        elif r < 0.6 and len(nets2) > 1:
            nets2 = [x for x in nets2 if rng.random() < 0.7] or nets2[:1]
            rng.shuffle(nets2)
            stats['subset'] += 1
        cabs = real_readc(nets2, tmp)
        if len(cabs) == 1:
            nm, idt, lo, arr, ws = cabs[0]
            flat = ' '.join('%d %s' % (len(w), ' '.join(map(str, w))) if w else '0' for w in ws)
            res = '%s %s %d %d %d %s' % (tok_of_s(nm), tok_of_s(idt), lo, arr, len(ws), flat)
        else:
            res = 'none'
        lines.append('readc ' + net_tokens(nets2))
        impl.append(res)
    n, bad = _cmp(lines, impl, 'bus')
    return n, bad, stats


# ---- tokenizer, printer, reader -----------------------------------------------------------------
TEXT_ALPHABET = ['(', ')', '"', ' ', '\n', '\t', '\r', 'a', 'b', 'C', '1', '-', '\\', '%', '&', '_', '[', ']', '(', ')', ' ', '"']


def real_tokens(text):
    t = EdifTokenizer.from_string(text)
    out = []
    while t.has_next():
        out.append(t.next())
    return out


def gen_sexp(rng, depth=0):
    r = rng.random()
    if depth >= 4 or r < 0.35:
        return ('A', rng.choice(['edif', 'cell', 'a1', '&_x', '42', '-7', 'x[3]', 'p_2_', 'INPUT', 'a\\b', "it's", '%']))
    if r < 0.5:
        return ('S', rng.choice(['', 'a b', 'x(y)z', 'tab\there', 'back\\slash', '  lead', 'semi;', "Built by 'BYU'", '[7:0]', 'new\nline', 'q"uote', 'cr\rx']))
    return ('L', [gen_sexp(rng, depth + 1) for _ in range(rng.choice([0, 1, 2, 3, 5]))])


def sexp_tokens(x):
    if x[0] == 'A':
        return 'A ' + tok_of_s(x[1])
    if x[0] == 'S':
        return 'S ' + tok_of_s(x[1])
    return ' '.join(['L %d' % len(x[1])] + [sexp_tokens(y) for y in x[1]])


def sexp_to_py(x):
    """the shape edif_canon.read_sexp returns"""
    if x[0] == 'A':
        return ('a', x[1])
    if x[0] == 'S':
        return ('s', x[1])
    return [sexp_to_py(y) for y in x[1]]


def parse_model_sexp(toks):
    t = toks.pop(0)
    if t == 'A':
        return ('a', s_of_tok(toks.pop(0)))
    if t == 'S':
        return ('s', s_of_tok(toks.pop(0)))
    n = int(toks.pop(0))
    return [parse_model_sexp(toks) for _ in range(n)]


def check_lex(rng, n_cases):
    bad = []
    stats = {'random_text': 0, 'printed_ok': 0, 'printed_not_ok': 0, 'bundled_prefix': 0}
    # (1) raw texts, token by token
    lines, impl = [], []
    for c in range(n_cases):
        k = rng.choice([0, 1, 2, 3, 5, 8, 13, 30])
        text = ''.join(rng.choice(TEXT_ALPHABET) for _ in range(k))
        lines.append('tok ' + tok_of_s(text))
        toks = real_tokens(text)
        impl.append(' '.join([str(len(toks))] + [tok_of_s(t) for t in toks]))
        stats['random_text'] += 1
    n1, b1 = _cmp(lines, impl, 'tokenizer')
    bad += b1
    # (2) documents: model print -> real tokenizer == model flatten; independent reader == model read
    docs = [gen_sexp(rng) for _ in range(n_cases)]
    docs = [d if d[0] == 'L' else ('L', [d]) for d in docs]
    printed = run_model(['print ' + sexp_tokens(d) for d in docs])
    flat = run_model(['flat ' + sexp_tokens(d) for d in docs])
    rt = run_model(['lexrt ' + sexp_tokens(d) for d in docs])
    reads = []
    n2 = 0
    for d, pr, fl, r in zip(docs, printed, flat, rt):
        okflag, text = pr.split(' ', 1)
        text = s_of_tok(text)
        toks = real_tokens(text)
        n2 += 1
        if okflag == '1':
            stats['printed_ok'] += 1
            mine = ' '.join([str(len(toks))] + [tok_of_s(t) for t in toks])
            if mine != fl:
                bad.append({'mechanism': 'print/tokenize', 'command': 'print ' + sexp_tokens(d), 'model': fl, 'implementation': mine})
            if r != '1 same':
                bad.append({'mechanism': 'lex_print', 'command': 'lexrt ' + sexp_tokens(d), 'model': r, 'implementation': 'theorem lex_print says same'})
            try:
                indep = ec.read_sexp(text)
            except ec.SexpError as e:
                indep = 'error %s' % e
            if indep != sexp_to_py(d):
                bad.append({'mechanism': 'independent-reader', 'command': text, 'model': repr(sexp_to_py(d)), 'implementation': repr(indep)})
        else:
            stats['printed_not_ok'] += 1
        reads.append('read ' + ' '.join([str(len(toks))] + [tok_of_s(t) for t in toks]))
    # model reader on the real tokens vs the independent reader on the text (also for not-ok documents)
    mreads = run_model(reads)
    for d, pr, mr in zip(docs, printed, mreads):
        text = s_of_tok(pr.split(' ', 1)[1])
        try:
            indep = ec.read_sexp(text)
        except ec.SexpError:
            indep = None
        got = None if mr == 'none' else parse_model_sexp(mr.split(' '))
        # only for documents inside the theorem's domain: outside it (a double quote inside a string
        # or newlines in strings) the real tokenizer glues / drops characters the independent reader
        # treats differently - that is a property of the tokenizer, shown by the Examples of C05.v
        if pr.startswith('1 ') and indep is not None and got != indep:
            bad.append({'mechanism': 'read', 'command': text, 'model': repr(got), 'implementation': repr(indep)})
    return n1 + n2, bad, stats


def check_tokens_of_file(text, limit=200000):
    """model tokenizer vs real tokenizer on (a prefix of) a bundled file"""
    text = text[:limit]
    toks = real_tokens(text)
    line = 'tok ' + tok_of_s(text)
    m = run_model([line])[0]
    mine = ' '.join([str(len(toks))] + [tok_of_s(t) for t in toks])
    if m != mine:
        return [{'mechanism': 'tokenizer-on-file', 'command': 'tok <%d chars>' % len(text), 'model': m[:200], 'implementation': mine[:200]}]
    return []


# ---- all nets of one cell through the real reader ---------------------------------------------
NET_BASES = ['x', 'X', 'y', 'bus', 'x_1', 'n']


def gen_cell_nets(rng):
    """nets of one cell in file order, with the collisions the reader has to sort out: bits of
    several buses interleaved, scalars named like a bus or like a bit, identifiers differing only
    in case, duplicate bits, renamed nets whose name is another net's identifier, names containing
    * or ? (ordinary characters: the reader looks cables up exactly since the repair of K7), names
    starting with a backslash with no, one or several spaces (K9 repaired), the empty name."""
    nets = []
    used_ident = set()
    pin = [0]

    def pins():
        k = rng.choice([0, 1, 1, 2])
        out = list(range(pin[0], pin[0] + k))
        pin[0] += k
        return out
    for _ in range(rng.choice([1, 2, 3, 4, 6])):
        base = rng.choice(NET_BASES)
        r = rng.random()
        if r < 0.5:
            name = base if rng.random() < 0.7 else rng.choice(['my ' + base, base + '.q', '\\' + base, '\\' + base + ' ',
                                                               base[:1] + '*', '?' * len(base), '*'])
            lo = rng.choice([0, 1, 4])
            for i in rng.sample(range(lo, lo + 4), rng.choice([1, 2, 3])):
                nets.append(('%s_%d_' % (base, i), '%s[%d]' % (name, i), pins()))
        elif r < 0.75:
            nets.append((base, base if rng.random() < 0.6 else rng.choice(['[3:0]' + base, base + '[2]', 'other', '*', base[:1] + '?', base[:1] + '*[1]', '', '\\' + base + '[3] '])  , pins()))
        elif r < 0.9:
            i = rng.choice([0, 2])
            nets.append(('%s_%d_' % (base, i), rng.choice(['%s_%d_' % (base, i), 'plain', '%s[%d]' % (base, i + 1)]), pins()))
        else:
            nets.append((rng.choice(['&_' + base + '_0_', '&' + base + '_0_']), base + '[0]', pins()))
    if rng.random() < 0.5:
        rng.shuffle(nets)
    return nets


def check_nets(rng, n_cases, tmp):
    lines, impl = [], []
    stats = {'accepted': 0, 'rejected': 0, 'cables': 0}
    for c in range(n_cases):
        nets = gen_cell_nets(rng)
        try:
            cabs = real_readc(nets, tmp)
            stats['accepted'] += 1
            stats['cables'] += len(cabs)
            parts = [str(len(cabs))]
            for nm, idt, lo, arr, ws in cabs:
                flat = ' '.join('%d %s' % (len(w), ' '.join(map(str, w))) if w else '0' for w in ws)
                parts.append('%s %s %d %d %d %s' % (tok_of_s(nm), tok_of_s(idt), lo, arr, len(ws), flat))
            res = ' '.join(parts)
        except (IndexError, StopIteration, RuntimeError, ValueError) as e:
            # IndexError (separate_name_and_index) and ValueError (add_cable's error raised again by the handler that
            # finds no cable to join) are the modelled ones
            stats['rejected'] += 1
            res = 'none'
        lines.append('readnets ' + net_tokens(nets))
        impl.append(res)
    n, bad = _cmp(lines, impl, 'nets')
    return n, bad, stats
