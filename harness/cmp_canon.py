"""Engine `cmp` (property C20): canonical value of a real spydrnet netlist = exactly what the
comparer can read of it, printed in the token grammar of ocaml/driver_cmp.ml (the `nv` of
coq/theories/Cmp/Comparer.v).  Also runs the real Comparer and maps its outcome to the model's
outcome names.  Only public attributes of the IR are read."""
import io, contextlib
import spydrnet as sdn
from spydrnet.ir import InnerPin, OuterPin
from spydrnet.compare.compare_netlists import Comparer


class OutsideModel(Exception):
    """the netlist cannot be expressed as an nv (non-string name, exotic property value, ...)"""


def tok_str(s):
    if not isinstance(s, str):
        raise OutsideModel('non-string %r' % (s,))
    if any(ord(c) > 0x10ffff for c in s):
        raise OutsideModel('code point')
    return '-' if s == '' else ','.join(str(ord(c)) for c in s)


def tok_oname(s):
    return '~' if s is None else tok_str(s)


def tok_val(v):
    if v is None:
        return 'n'
    if isinstance(v, bool):
        return 'b:1' if v else 'b:0'
    if isinstance(v, int):
        return 'i:%d' % v
    if isinstance(v, str):
        return 's:' + tok_str(v)
    raise OutsideModel('property value %r' % (v,))


def _oid(e):
    return e['EDIF.original_identifier'] if 'EDIF.original_identifier' in e else None


DIRS = {sdn.UNDEFINED: 0, sdn.INOUT: 1, sdn.IN: 2, sdn.OUT: 3}


def canon_inst(i, out):
    out.append(tok_oname(i.name))
    out.append(tok_oname(_oid(i)))
    r = i.reference
    if r is None:
        out.append('R0')
    else:
        out += ['R1', tok_oname(r.name), tok_oname(r.library.name if r.library is not None else None)]
    if 'EDIF.properties' in i:
        ps = i['EDIF.properties']
        if not isinstance(ps, list) or not all(isinstance(d, dict) for d in ps):
            raise OutsideModel('EDIF.properties shape')
        out += ['P1', str(len(ps))]
        for d in ps:
            out.append(str(len(d)))
            for k, v in d.items():
                out += [tok_str(k), tok_val(v)]
    else:
        out.append('P0')


def canon_pin(pin, d, out):
    if isinstance(pin, OuterPin):
        inst, ip = pin.instance, pin.inner_pin
        if inst is None or ip is None or ip.port is None or ip not in ip.port.pins:
            out.append('X')
            return
        ref = inst.reference
        if ref is None or ref is not ip.port.definition:
            out.append('X')   # the comparer's own DRC assert; mirror invariant (C02) broken
            return
        bit = ip.port.pins.index(ip)
        if inst.parent is d:
            if inst.name is not None and sum(1 for c in d.children if c.name == inst.name) != 1:
                raise OutsideModel('duplicate sibling instance name')
            if inst.name is None:
                # a child without a name is not identified by a name: the names of its reference
                # travel with the pin (PAnon of Cmp/Comparer.v)
                out += ['A', tok_oname(ref.name), tok_oname(ref.library.name if ref.library is not None else None),
                        tok_oname(ip.port.name), str(bit)]
            else:
                out += ['O', tok_oname(inst.name), tok_oname(ip.port.name), str(bit)]
        elif inst.parent is None:
            out += ['D', tok_oname(inst.name), tok_oname(ref.name),
                    tok_oname(ref.library.name if ref.library is not None else None),
                    tok_oname(ip.port.name), str(bit)]
        else:
            out.append('X')
    elif isinstance(pin, InnerPin):
        port = pin.port
        if port is None:
            out.append('L')   # removed from its port, still on the wire
            return
        if port.definition is not d or pin not in port.pins:
            out.append('X')
            return
        out += ['I', tok_oname(port.name), str(port.pins.index(pin))]
    else:
        out.append('X')


def canon_def(d, out, lower=True):
    out += [tok_oname(d.name), tok_oname(_oid(d)), str(len(d.ports))]
    for p in d.ports:
        out += [tok_oname(p.name), tok_oname(_oid(p)), str(DIRS[p.direction]), '1' if p.is_array else '0',
                str(len(p.pins)), str(p.lower_index) if lower else '0']
    out.append(str(len(d.cables)))
    for c in d.cables:
        out += [tok_oname(c.name), tok_oname(_oid(c)), str(len(c.wires))]
        for w in c.wires:
            out.append(str(len(w.pins)))
            for pin in w.pins:
                canon_pin(pin, d, out)
    out.append(str(len(d.children)))
    for i in d.children:
        canon_inst(i, out)


def canon(netlist, lower=True):
    """token list of the nv of a netlist"""
    out = ['N', tok_oname(netlist.name), tok_oname(_oid(netlist))]
    t = netlist.top_instance
    if t is None:
        out.append('T0')
    else:
        out.append('T1')
        canon_inst(t, out)
    out.append(str(len(netlist.libraries)))
    for l in netlist.libraries:
        out += [tok_oname(l.name), tok_oname(_oid(l)), str(len(l.definitions))]
        for d in l.definitions:
            canon_def(d, out, lower)
    return out


# ---------------------------------------------------------------- Comparer.get_pin_key on every pin of every wire
def real_keys(netlist):
    """one token per pin on a wire (libraries / definitions / cables / wires / pins in order): what the real
    Comparer.get_pin_key answers - k:<0|1 outer>:<instance name>:<port name>:<index> - or e:<exception>;
    the same tokens are printed by the model (nv_keys of coq/theories/Cmp/Comparer.v, request K of the driver).
    A pin outside the model (canonical value X) is e:ill on both sides."""
    c = Comparer(netlist, netlist)
    get = getattr(c, 'get_pin_key', None)
    out = []
    for l in netlist.libraries:
        for d in l.definitions:
            for cb in d.cables:
                for w in cb.wires:
                    for pin in w.pins:
                        t = []
                        canon_pin(pin, d, t)
                        if t == ['X']:
                            out.append('e:ill')
                            continue
                        if get is None:
                            out.append('e:no-get_pin_key')
                            continue
                        try:
                            k = get(pin)
                        except Exception as e:  # noqa
                            out.append('e:' + EXN.get(type(e), 'other:' + type(e).__name__))
                            continue
                        if not (isinstance(k, tuple) and len(k) == 4 and isinstance(k[0], bool)
                                and (k[3] is None or isinstance(k[3], int))):
                            out.append('e:shape:%r' % (k,))
                            continue
                        out.append('k:%d:%s:%s:%s' % (1 if k[0] else 0, tok_oname(k[1]), tok_oname(k[2]),
                                                      '~' if k[3] is None else str(k[3])))
    return out


# ---------------------------------------------------------------- structural relation, independent of the comparer
# Mirror in Python of the declarative relations of coq/theories/Cmp/Equiv.v (nv_equiv_ord, nv_equiv,
# nv_covered), computed from the real objects: siblings are matched by name (any order), the wire at
# each index carries the same pin designators, references by (definition name, library name),
# properties as (entry index, key) -> value under Python's ==.
class _NoKey(Exception):
    pass


def _uniq(items):
    """items: list of (name, key) -> dict name -> key; siblings must be named and pairwise different"""
    out = {}
    for name, key in items:
        if name is None or name in out:
            raise _NoKey()
        out[name] = key
    return tuple(sorted(out.items()))


def _pval(v):
    if v is None:
        return ('n',)
    if isinstance(v, bool):
        return ('i', int(v))           # True == 1
    if isinstance(v, int):
        return ('i', v)
    if isinstance(v, str):
        return ('s', v)
    raise _NoKey()


def _inst_key(i):
    r = i.reference
    ref = None if r is None else (r.name, r.library.name if r.library is not None else None)
    return (i.name, _oid(i), ref)


def _props(i):
    if 'EDIF.properties' not in i:
        return None
    ps = i['EDIF.properties']
    if not isinstance(ps, list) or not all(isinstance(d, dict) for d in ps):
        raise _NoKey()
    return [{k: _pval(v) for k, v in d.items()} for d in ps]


def _def_key(d, ordered):
    ports = _uniq([(p.name, (_oid(p), DIRS[p.direction], bool(p.is_array), len(p.pins))) for p in d.ports])
    cables = []
    for c in d.cables:
        wires = []
        for w in c.wires:
            pins = []
            for pin in w.pins:
                t = []
                canon_pin(pin, d, t)
                pins.append(tuple(t))
            wires.append(tuple(pins) if ordered else tuple(sorted(pins)))
        cables.append((c.name, (_oid(c), tuple(wires))))
    return (_oid(d), ports, _uniq(cables), _uniq([(i.name, _inst_key(i)) for i in d.children]))


def struct_key(n, ordered=True):
    """order-independent structure of a named netlist without its properties; None outside the named netlists"""
    try:
        t = n.top_instance
        libs = _uniq([(l.name, (_oid(l), _uniq([(d.name, _def_key(d, ordered)) for d in l.definitions])))
                      for l in n.libraries])
        return (n.name, _oid(n), None if t is None else _inst_key(t), libs)
    except (_NoKey, OutsideModel):
        return None


def props_map(n):
    """place of an instance -> its properties (None if it has none)"""
    out = {}
    if n.top_instance is not None:
        out[('T',)] = _props(n.top_instance)
    for l in n.libraries:
        for d in l.definitions:
            for i in d.children:
                out[(l.name, d.name, i.name)] = _props(i)
    return out


def _props_sub(px, py):
    if px is None:
        return True
    if py is None:
        return False
    for x, d in enumerate(px):
        for k, v in d.items():
            if x >= len(py) or k not in py[x] or py[x][k] != v:
                return False
    return True


def relation(x, y):
    """'equiv_ord' | 'equiv_set' | 'covered' | 'covered_set' | 'different' | None (not named netlists)
    covered = equal up to sibling order except that y has properties (or empty property entries) x lacks"""
    try:
        kx, ky = struct_key(x, True), struct_key(y, True)
        if kx is None or ky is None:
            return None
        if kx == ky:
            ordered = True
        elif struct_key(x, False) == struct_key(y, False):
            ordered = False
        else:
            return 'different'
        mx, my = props_map(x), props_map(y)
    except _NoKey:
        return None
    if set(mx) != set(my):
        return 'different'
    fwd = all(_props_sub(mx[k], my[k]) for k in mx)
    back = all(_props_sub(my[k], mx[k]) for k in mx)
    # props_eq of Cmp/Equiv.v: absent on both sides or the same number of entries
    same_len = all((mx[k] is None) == (my[k] is None) and (mx[k] is None or len(mx[k]) == len(my[k])) for k in mx)
    if fwd and back and same_len:
        return 'equiv_ord' if ordered else 'equiv_set'
    if fwd:
        return 'covered' if ordered else 'covered_set'
    return 'different'


EXN = {AssertionError: 'reject', StopIteration: 'stopiteration', IndexError: 'indexerror',
       KeyError: 'keyerror', AttributeError: 'attributeerror', TypeError: 'typeerror'}


def run_real(a, b):
    """Comparer(a, b).compare() -> (outcome name, message)"""
    try:
        with contextlib.redirect_stdout(io.StringIO()):
            Comparer(a, b).compare()
        return 'accept', ''
    except Exception as e:  # noqa
        for cls, name in EXN.items():
            if type(e) is cls:
                return name, str(e)[:120]
        return 'other:' + type(e).__name__, str(e)[:120]
