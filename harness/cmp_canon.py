"""Engine `cmp` (property C20): canonical value of a real spydrnet netlist = exactly what the
comparer can read of it, printed in the token grammar of ocaml/driver_cmp.ml (the `nv` of
coq/theories/Cmp/Comparer.v).  Also runs the real Comparer and maps its outcome to the model's
outcome names.  Only public attributes of the IR are read."""
import io, contextlib
import spydrnet as sdn
from spydrnet.ir import InnerPin, OuterPin
from spydrnet.compare.compare_netlists import Comparer


class OutsideModel(Exception):
    """the netlist cannot be expressed as an nv (non-string name, exotic property value, ...)"""


def tok_str(s):
    if not isinstance(s, str):
        raise OutsideModel('non-string %r' % (s,))
    if any(ord(c) > 0x10ffff for c in s):
        raise OutsideModel('code point')
    return '-' if s == '' else ','.join(str(ord(c)) for c in s)


def tok_oname(s):
    return '~' if s is None else tok_str(s)


def tok_val(v):
    if v is None:
        return 'n'
    if isinstance(v, bool):
        return 'b:1' if v else 'b:0'
    if isinstance(v, int):
        return 'i:%d' % v
    if isinstance(v, str):
        return 's:' + tok_str(v)
    raise OutsideModel('property value %r' % (v,))


def _oid(e):
    return e['EDIF.original_identifier'] if 'EDIF.original_identifier' in e else None


DIRS = {sdn.UNDEFINED: 0, sdn.INOUT: 1, sdn.IN: 2, sdn.OUT: 3}


def canon_inst(i, out):
    out.append(tok_oname(i.name))
    out.append(tok_oname(_oid(i)))
    r = i.reference
    if r is None:
        out.append('R0')
    else:
        out += ['R1', tok_oname(r.name), tok_oname(r.library.name if r.library is not None else None)]
    if 'EDIF.properties' in i:
        ps = i['EDIF.properties']
        if not isinstance(ps, list) or not all(isinstance(d, dict) for d in ps):
            raise OutsideModel('EDIF.properties shape')
        out += ['P1', str(len(ps))]
        for d in ps:
            out.append(str(len(d)))
            for k, v in d.items():
                out += [tok_str(k), tok_val(v)]
    else:
        out.append('P0')


def canon_pin(pin, d, out):
    if isinstance(pin, OuterPin):
        inst, ip = pin.instance, pin.inner_pin
        if inst is None or ip is None or ip.port is None or ip not in ip.port.pins:
            out.append('X')
            return
        ref = inst.reference
        if ref is None or ref is not ip.port.definition:
            out.append('X')   # the comparer's own DRC assert; mirror invariant (C02) broken
            return
        bit = ip.port.pins.index(ip)
        if inst.parent is d:
            if inst.name is not None and sum(1 for c in d.children if c.name == inst.name) != 1:
                raise OutsideModel('duplicate sibling instance name')
            out += ['O', tok_oname(inst.name), tok_oname(ip.port.name), str(bit)]
        elif inst.parent is None:
            out += ['D', tok_oname(inst.name), tok_oname(ref.name),
                    tok_oname(ref.library.name if ref.library is not None else None),
                    tok_oname(ip.port.name), str(bit)]
        else:
            out.append('X')
    elif isinstance(pin, InnerPin):
        port = pin.port
        if port is None:
            out.append('L')   # removed from its port, still on the wire
            return
        if port.definition is not d or pin not in port.pins:
            out.append('X')
            return
        out += ['I', tok_oname(port.name), str(port.pins.index(pin))]
    else:
        out.append('X')


def canon_def(d, out, lower=True):
    out += [tok_oname(d.name), tok_oname(_oid(d)), str(len(d.ports))]
    for p in d.ports:
        out += [tok_oname(p.name), tok_oname(_oid(p)), str(DIRS[p.direction]), '1' if p.is_array else '0',
                str(len(p.pins)), str(p.lower_index) if lower else '0']
    out.append(str(len(d.cables)))
    for c in d.cables:
        out += [tok_oname(c.name), tok_oname(_oid(c)), str(len(c.wires))]
        for w in c.wires:
            out.append(str(len(w.pins)))
            for pin in w.pins:
                canon_pin(pin, d, out)
    out.append(str(len(d.children)))
    for i in d.children:
        canon_inst(i, out)


def canon(netlist, lower=True):
    """token list of the nv of a netlist"""
    out = ['N', tok_oname(netlist.name), tok_oname(_oid(netlist))]
    t = netlist.top_instance
    if t is None:
        out.append('T0')
    else:
        out.append('T1')
        canon_inst(t, out)
    out.append(str(len(netlist.libraries)))
    for l in netlist.libraries:
        out += [tok_oname(l.name), tok_oname(_oid(l)), str(len(l.definitions))]
        for d in l.definitions:
            canon_def(d, out, lower)
    return out


EXN = {AssertionError: 'reject', StopIteration: 'stopiteration', IndexError: 'indexerror',
       KeyError: 'keyerror', AttributeError: 'attributeerror', TypeError: 'typeerror'}


def run_real(a, b):
    """Comparer(a, b).compare() -> (outcome name, message)"""
    try:
        with contextlib.redirect_stdout(io.StringIO()):
            Comparer(a, b).compare()
        return 'accept', ''
    except Exception as e:  # noqa
        for cls, name in EXN.items():
            if type(e) is cls:
                return name, str(e)[:120]
        return 'other:' + type(e).__name__, str(e)[:120]
