"""Engine `verilog`: "wild" documents for the document-level correspondence (harness/verilog_doc.py).

verilog_gen.Gen produces designs inside the property's input class (and `expected` gives their meaning). The
model of the reader (coq/theories/Fmt/VElab.v) claims more: it follows the code on EVERY document the document
type can express - re-declarations, selects outside the declared range (growth / prepending), port maps wider than
the port, unknown port names on declared modules, duplicate names, header aliases, stray defparams, declarations
after use, positional maps with too many positions, ... This module mutates generated designs into such documents
(same JSON shape, rendered by the same independent writer). They have no `expected`: they are only used to compare
the model with the real reader (canonical value, or class of the exception raised)."""
import copy
import verilog_gen as G

TYPES = ['wire', 'wire', 'reg', 'tri0', 'tri1']


def _mods(design, cell=None):
    return [m for m in design['modules'] if cell is None or m['cell'] == cell]


def _names_in_module(m):
    out = [p['name'] for p in m['ports']]
    for it in m['body']:
        if it['k'] == 'wire':
            out += it['names']
    return out


def _rand_atom(r, names):
    n = r.choice(names) if names and r.random() < 0.85 else r.choice(['zz9', 'fresh_n', '\\esc.n', 'q7'])
    x = r.random()
    if x < 0.3:
        return ['id', n]
    if x < 0.6:
        return ['bit', n, r.randrange(-3, 10)]
    if x < 0.92:
        a, b = r.randrange(-3, 10), r.randrange(-3, 10)
        return ['part', n, a, b]
    return ['const', r.randrange(2)]


def _rand_expr(r, names, allow_cat=True):
    if allow_cat and r.random() < 0.3:
        return ['cat', [_rand_atom(r, names) for _ in range(r.randrange(0, 4))]]
    return _rand_atom(r, names)


def _items(m, kind):
    return [i for i, it in enumerate(m['body']) if it['k'] == kind]


# ---- mutations: each returns True when it changed something ----
def m_dup_item(r, d):
    m = r.choice(_mods(d))
    if not m['body']:
        return False
    i = r.randrange(len(m['body']))
    m['body'].insert(r.randrange(i, len(m['body']) + 1), copy.deepcopy(m['body'][i]))
    return True


def m_move_item(r, d):
    m = r.choice(_mods(d))
    if len(m['body']) < 2:
        return False
    it = m['body'].pop(r.randrange(len(m['body'])))
    m['body'].insert(r.randrange(len(m['body']) + 1), it)
    return True


def m_rename_inst(r, d):
    m = r.choice(_mods(d, False))
    ii = _items(m, 'inst')
    if not ii:
        return False
    others = [m['body'][i]['name'] for i in ii]
    m['body'][r.choice(ii)]['name'] = r.choice(others + ['SDN_VERILOG_ASSIGNMENT_1_0', 'u_new'])
    return True


def m_wire_range(r, d):
    m = r.choice(_mods(d))
    wi = _items(m, 'wire')
    if not wi:
        return False
    it = m['body'][r.choice(wi)]
    if r.random() < 0.2:
        it['msb'] = it['lsb'] = None
    else:
        it['msb'], it['lsb'] = r.randrange(-3, 9), r.randrange(-3, 9)
    if r.random() < 0.3:
        it['type'] = r.choice(TYPES)
    return True


def m_redeclare(r, d):
    m = r.choice(_mods(d))
    names = _names_in_module(m)
    if not names:
        return False
    n = r.sample(names, min(len(names), r.randrange(1, 3)))
    rg = (None, None) if r.random() < 0.3 else (r.randrange(-2, 9), r.randrange(-2, 9))
    it = {'k': 'wire', 'names': n, 'msb': rg[0], 'lsb': rg[1], 'type': r.choice(TYPES),
          'attrs': [list(x) for x in r.sample(G.ATTR_ITEMS, r.randrange(0, 3))]}
    m['body'].insert(r.randrange(len(m['body']) + 1), it)
    return True


def m_expr(r, d):
    m = r.choice(_mods(d, False))
    names = _names_in_module(m)
    cands = [i for i, it in enumerate(m['body']) if it['k'] in ('inst', 'assign')]
    if not cands:
        return False
    it = m['body'][r.choice(cands)]
    if it['k'] == 'assign':
        it[r.choice(['lhs', 'rhs'])] = _rand_atom(r, names)
    else:
        if not it['conns']:
            it['conns'].append([r.choice(G.PNAMES) if it['named'] else None, _rand_expr(r, names)])
        else:
            c = r.choice(it['conns'])
            c[1] = _rand_expr(r, names) if (it['named'] and r.random() < 0.9) or r.random() < 0.95 else None
    return True


def m_port_name(r, d):
    m = r.choice(_mods(d, False))
    cands = [i for i in _items(m, 'inst') if m['body'][i]['named'] and m['body'][i]['conns']]
    if not cands:
        return False
    it = m['body'][r.choice(cands)]
    c = r.choice(it['conns'])
    c[0] = r.choice([x[0] for x in it['conns']] + ['ZZ', 'I', 'O', '\\P[0]'])
    return True


def m_add_assign(r, d):
    m = r.choice(_mods(d, False))
    names = _names_in_module(m)
    m['body'].insert(r.randrange(len(m['body']) + 1), {'k': 'assign', 'lhs': _rand_atom(r, names), 'rhs': _rand_atom(r, names)})
    return True


def m_add_inst(r, d):
    m = r.choice(_mods(d, False))
    names = _names_in_module(m)
    tgt = r.choice([x['name'] for x in d['modules']] + ['UNDECL', 'GND', m['name']])
    named = r.random() < 0.6
    conns = []
    for k in range(r.randrange(0, 4)):
        conns.append([r.choice(G.PNAMES + ['a', 'b']) if named else None, _rand_expr(r, names) if r.random() < 0.9 else None])
    m['body'].insert(r.randrange(len(m['body']) + 1),
                     {'k': 'inst', 'mod': tgt, 'name': r.choice(['w_u', 'w_v', 'w_x', 'u', 'i']), 'params': [['K', '1']] if r.random() < 0.3 else [],
                      'pstyle': r.choice(['hash', 'defparam']), 'attrs': [], 'named': named, 'conns': conns})
    return True


def m_flip_named(r, d):
    m = r.choice(_mods(d, False))
    ii = _items(m, 'inst')
    if not ii:
        return False
    it = m['body'][r.choice(ii)]
    if it['named']:
        it['named'] = False
        it['conns'] = [[None, e] for pn, e in it['conns'] if e is not None or r.random() < 0.1]
    else:
        it['named'] = True
        it['conns'] = [[r.choice(G.PNAMES), e] for pn, e in it['conns']]
    return True


def m_positional_extra(r, d):
    m = r.choice(_mods(d, False))
    ii = [i for i in _items(m, 'inst') if not m['body'][i]['named']]
    if not ii:
        return False
    it = m['body'][r.choice(ii)]
    names = _names_in_module(m)
    for _ in range(r.randrange(1, 3)):
        it['conns'].append([None, _rand_expr(r, names)])
    return True


def m_dup_module(r, d):
    m = r.choice(d['modules'])
    d['modules'].insert(r.randrange(len(d['modules']) + 1), copy.deepcopy(m))
    return True


def m_swap_modules(r, d):
    r.shuffle(d['modules'])
    return True


def m_header(r, d):
    m = r.choice(_mods(d))
    x = r.random()
    if x < 0.3 and m['ports']:
        m['ports'].insert(r.randrange(len(m['ports']) + 1), copy.deepcopy(r.choice(m['ports'])))       # listed twice
    elif x < 0.6:
        m['ports'].append({'name': r.choice(['hx', 'hy', 'a', 'b']), 'dir': r.choice(G.DIRS), 'width': r.choice([None, 2, 3]),
                           'decl_type': None, 'attrs': []})                                         # no declaration (plain)
    elif m['ports']:
        p = r.choice(m['ports'])
        if m['style'] == 'ansi':
            p['inherit_dir'] = True
        else:
            p['width'] = r.choice([None, 1, 2, 5])
    else:
        return False
    return True


def m_portdecl(r, d):
    m = r.choice(_mods(d))
    names = _names_in_module(m) + ['nohdr']
    x = r.random()
    pd = _items(m, 'portdecl')
    if x < 0.5 and pd:
        it = m['body'][r.choice(pd)]
        it['msb'], it['lsb'] = (None, None) if r.random() < 0.2 else (r.randrange(-2, 9), r.randrange(-2, 9))
        if r.random() < 0.3:
            it['dir'] = r.choice(G.DIRS)
        if r.random() < 0.3:
            it['decl_type'] = r.choice([None, 'wire', 'reg'])
    else:
        rg = (None, None) if r.random() < 0.4 else (r.randrange(-2, 9), r.randrange(-2, 9))
        it = {'k': 'portdecl', 'ports': r.sample(names, min(len(names), r.randrange(1, 3))), 'dir': r.choice(G.DIRS),
              'msb': rg[0], 'lsb': rg[1], 'decl_type': r.choice([None, None, 'wire', 'reg']),
              'attrs': [list(x) for x in r.sample(G.ATTR_ITEMS, r.randrange(0, 2))]}
        m['body'].insert(r.randrange(len(m['body']) + 1), it)
    return True


def m_alias(r, d):
    m = r.choice(_mods(d))
    names = _names_in_module(m) + ['al_x', 'al_y']
    p = {'name': r.choice(['al_p', 'al_q'] + [x['name'] for x in m['ports']]), 'dir': 'input', 'width': None, 'decl_type': None, 'attrs': [],
         'alias': _rand_expr(r, names)}
    m['ports'].insert(r.randrange(len(m['ports']) + 1), p)
    if r.random() < 0.7:
        # declare (some of) the aliased nets as ports in the body
        for n in set(G.names_in(p['alias'])):
            if not n.startswith('\\<const') and r.random() < 0.8:
                rg = (None, None) if r.random() < 0.5 else (r.randrange(0, 4), 0)
                m['body'].insert(0, {'k': 'portdecl', 'ports': [n], 'dir': r.choice(G.DIRS), 'msb': rg[0], 'lsb': rg[1], 'decl_type': None, 'attrs': []})
    return True


def m_defparam(r, d):
    m = r.choice(_mods(d))
    inames = [it['name'] for mm in d['modules'] for it in mm['body'] if it['k'] == 'inst'] + ['ghost']
    m['body'].insert(r.randrange(len(m['body']) + 1),
                     {'k': 'defparam', 'inst': r.choice(inames), 'key': r.choice(['INIT', 'K', 'WIDTH']), 'value': r.choice(G.PARAM_VALUES)})
    return True


def m_cell_body(r, d):
    cells = _mods(d, True)
    mods = _mods(d, False)
    if not cells or not mods:
        return False
    c = r.choice(cells)
    src = r.choice(mods)
    if not src['body']:
        return False
    c['body'].append(copy.deepcopy(r.choice(src['body'])))
    return True


def m_toggle_cell(r, d):
    m = r.choice(d['modules'])
    m['cell'] = not m['cell']
    return True


def m_attrs_params(r, d):
    m = r.choice(d['modules'])
    if r.random() < 0.5:
        m['attrs'] = [list(x) for x in r.sample(G.ATTR_ITEMS, r.randrange(1, 3))] + ([['keep', '"again"']] if r.random() < 0.3 else [])
    else:
        m['params'] = [['W', '8'], ['W', '9']] if r.random() < 0.3 else [['DEPTH', '16']]
    ii = _items(m, 'inst')
    if ii and r.random() < 0.5:
        it = m['body'][r.choice(ii)]
        it['params'] = [['K', '1'], ['K', '2']] if r.random() < 0.5 else [['INIT', "4'b1010"], ['K', '3']]
        it['pstyle'] = r.choice(['hash', 'defparam'])
    return True


MUTATIONS = [m_dup_item, m_move_item, m_rename_inst, m_wire_range, m_redeclare, m_expr, m_expr, m_port_name, m_add_assign,
             m_add_inst, m_add_inst, m_flip_named, m_positional_extra, m_dup_module, m_swap_modules, m_header, m_portdecl,
             m_portdecl, m_alias, m_defparam, m_cell_body, m_toggle_cell, m_attrs_params]


def wild_design(rng):
    """-> (design, [names of the mutations applied])"""
    size = rng.choice([1, 1, 1, 2])
    base = G.Gen(rng, size=size, features={'fwd_named_any_order': rng.random() < 0.5, 'shared_range': rng.random() < 0.3,
                                           'escaped': rng.random() < 0.5, 'cell_empty_body': rng.random() < 0.2}).design()
    d = copy.deepcopy(base)
    applied = []
    for _ in range(rng.choice([1, 1, 2, 2, 3, 4])):
        f = rng.choice(MUTATIONS)
        try:
            if f(rng, d):
                applied.append(f.__name__[2:])
        except (IndexError, ValueError, KeyError):
            pass
    return d, applied
