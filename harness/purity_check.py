"""C16 - Writing a netlist does not change it and is repeatable.

Implementation-side oracle: identity-level snapshot of every reachable object (structure, order,
connectivity, bundle attributes, user data) before and after compose in each format and option
setting; the only differences accepted are the documented ones of the EDIF writer (dependency
order of libraries and cells, EDIF.identifier / EDIF.rename entries recorded for elements that
lacked them, defaulting an absent netlist name). Repeated composition (immediately and after
queries) must give the same bytes apart from the timestamp; the file must be complete and closed
when the call returns."""
import json, os, random, re, shutil, sys, tempfile, time, collections
sys.path.insert(0, os.path.dirname(os.path.abspath(__file__)))
import common
common.ensure_impl_python()
import spydrnet as sdn
import netgen, policy_check
from ir_world import World, _OuterPin
from xform_check import reachable

EXT = {'edif': '.edf', 'verilog': '.v', 'eblif': '.eblif'}
OPTIONS = {
    'edif': [{}],
    'verilog': [{}, {'write_blackbox': False}, {'write_blackbox': True}, {'defparam': True}, {'definition_list': ['__TOP__']}],
    'eblif': [{}, {'write_blackbox': False}, {'write_eblif_cname': False}],
}


def snap_obj(o, ids):
    def i(x):
        return None if x is None else ids.get(id(x), ('foreign', type(x).__name__))
    k = type(o).__name__
    data = None
    if hasattr(o, '_data'):
        data = tuple(sorted((kk, repr(v)) for kk, v in o._data.items()))
    if isinstance(o, sdn.ir.Netlist):
        return (k, data, tuple(i(x) for x in o.libraries), i(o.top_instance))
    if isinstance(o, sdn.ir.Library):
        return (k, data, i(o.netlist), tuple(i(x) for x in o.definitions))
    if isinstance(o, sdn.ir.Definition):
        return (k, data, i(o.library), tuple(i(x) for x in o.ports), tuple(i(x) for x in o.cables),
                tuple(i(x) for x in o.children), tuple(sorted(str(i(x)) for x in o.references)))
    if isinstance(o, sdn.ir.Port):
        return (k, data, i(o.definition), tuple(i(x) for x in o.pins), o.direction.name, o.is_downto, o._is_scalar, o.lower_index)
    if isinstance(o, sdn.ir.Cable):
        return (k, data, i(o.definition), tuple(i(x) for x in o.wires), o.is_downto, o._is_scalar, o.lower_index)
    if isinstance(o, sdn.ir.Wire):
        return (k, i(o.cable), tuple(i(x) for x in o.pins))
    if isinstance(o, sdn.ir.InnerPin):
        return (k, i(o.port), i(o.wire))
    if isinstance(o, sdn.ir.Instance):
        return (k, data, i(o.parent), i(o.reference), o.is_top_instance, tuple((i(a), i(b)) for a, b in o._pins.items()))
    if isinstance(o, _OuterPin):
        return (k, i(o.instance), i(o.inner_pin), i(o.wire))
    return (k,)


def snapshot(n):
    objs = reachable(n)
    ids = dict((id(o), j) for j, o in enumerate(objs))
    return objs, [snap_obj(o, ids) for o in objs]


EDIF_KEYS = ('EDIF.identifier', 'EDIF.rename')


def diff_snapshots(fmt, objs, before, after_objs, after):
    """list of undocumented differences"""
    bad = []
    if len(objs) != len(after_objs) or any(a is not b for a, b in zip(objs, after_objs)):
        # EDIF may reorder libraries/definitions, which permutes the traversal: compare by identity
        pass
    amap = dict((id(o), s) for o, s in zip(after_objs, after))
    for o, b in zip(objs, before):
        a = amap.get(id(o))
        if a is None:
            bad.append('%s %r is no longer reachable after compose' % (b[0], getattr(o, 'name', None)))
            continue
        if a == b:
            continue
        if fmt == 'edif':
            b2, a2 = list(b), list(a)
            if b2[1] is not None and a2[1] is not None:
                bd, ad = dict(b2[1]), dict(a2[1])
                for kk in EDIF_KEYS:
                    if kk not in bd and kk in ad:
                        del ad[kk]
                if b[0] == 'Netlist' and '.NAME' not in bd and '.NAME' in ad:
                    del ad['.NAME']
                b2[1], a2[1] = tuple(sorted(bd.items())), tuple(sorted(ad.items()))
            if b[0] == 'Netlist':
                b2[2], a2[2] = tuple(sorted(map(str, b2[2]))), tuple(sorted(map(str, a2[2])))
            if b[0] == 'Library':
                b2[3], a2[3] = tuple(sorted(map(str, b2[3]))), tuple(sorted(map(str, a2[3])))
            # ids are positions in the traversal, which a reorder permutes: compare renumbered later
            if b2 == a2:
                continue
        bad.append('%s %r changed by compose: %s -> %s' % (b[0], getattr(o, 'name', None), str(b)[:160], str(a)[:160]))
    return bad


def canon_ids(n):
    """snapshot with ids taken from a traversal that is insensitive to library/definition order"""
    objs = reachable(n)
    order = sorted(range(len(objs)), key=lambda j: id(objs[j]))
    ids = dict((id(objs[j]), r) for r, j in enumerate(order))
    return [objs[j] for j in order], [snap_obj(objs[j], ids) for j in order]


STAMP = re.compile(r'\(timeStamp[^)]*\)')


def norm_text(fmt, data):
    if fmt == 'edif':
        return STAMP.sub('(timeStamp)', data)
    return data


def open_fds_on(path):
    """file descriptors of this process that still refer to path"""
    real = os.path.realpath(path)
    out = []
    for fd in os.listdir('/proc/self/fd'):
        try:
            if os.path.realpath(os.readlink('/proc/self/fd/' + fd)) == real:
                out.append(fd)
        except OSError:
            pass
    return out


def closed_and_complete(path, what):
    """the property's last clause, observed at the moment the call returns: no descriptor of this
    process refers to the file any more, and what is on disk now is what is on disk after every
    pending buffer has been collected"""
    import gc
    bad = []
    now = open(path, 'rb').read()
    fds = open_fds_on(path)
    if fds:
        bad.append('%s returned with its output file still open (fd %s)' % (what, ','.join(fds)))
    gc.collect()
    later = open(path, 'rb').read()
    if later != now:
        bad.append('%s returned before its output file was complete (%d bytes on return, %d after collection)' % (what, len(now), len(later)))
    return bad


def decorate(n, rng):
    """user data of the other formats on some instances/definitions (a netlist read from Verilog and
    written to EDIF, etc.): the writers may read it, never change it"""
    insts = [i for i in n.get_instances()] if n.top_instance is not None else []
    rng.shuffle(insts)
    for i in insts[:max(1, len(insts) // 3)]:
        c = rng.random()
        if c < 0.5:
            i['EDIF.properties'] = [{'identifier': 'INIT', 'value': "4'h8"}, {'identifier': 'loc', 'value': 3}][:rng.choice([1, 2])]
        if c > 0.25:
            i['VERILOG.Parameters'] = dict(list({'WIDTH': '8', 'INIT': '"x"', 'MODE': '2'}.items())[:rng.choice([1, 2, 3])])
        if rng.random() < 0.3:
            i['EBLIF.attr'] = {'keep': 'true'}
            i['EBLIF.param'] = {'LUT': '1001'}
    return n


def one_bit_buses(n, rng, share=0.4):
    """some one-pin ports and one-wire cables are declared as buses of width one (is_scalar False): legal, written
    as (array p 1) / [0:0], and - like every other attribute - not the writer's to change"""
    k = 0
    for lib in n.libraries:
        for d in lib.definitions:
            for b in list(d.ports) + list(d.cables):
                members = b.pins if isinstance(b, sdn.Port) else b.wires
                if len(members) == 1 and b.is_scalar and rng.random() < share:
                    b.is_scalar = False
                    k += 1
    return k


def compose(n, fmt, path, opts):
    # the caller's option objects are handed over as they are (the same list object on every call of a case)
    sdn.compose(n, path, **opts)


def concrete_opts(n, opts):
    o = dict(opts)
    if o.get('definition_list') == ['__TOP__']:
        if n.top_instance is not None:
            o['definition_list'] = [n.top_instance.reference.name]
        else:
            o['definition_list'] = [next(d.name for lib in n.libraries for d in lib.definitions if d.children or d.ports)]
    return o


# a hierarchical EBLIF design (a model with a body instantiated below the top) and one with a wide .names
EXTRA_SOURCES = {
    'edif': [('amp.edf', """(edif amp (edifVersion 2 0 0) (edifLevel 0) (keywordMap (keywordLevel 0))
 (library work (edifLevel 0) (technology (numberDefinition))
  (cell &_leaf (cellType GENERIC) (view netlist (viewType NETLIST) (interface (port &_i (direction INPUT)) (port o (direction OUTPUT)))))
  (cell top (cellType GENERIC) (view netlist (viewType NETLIST)
   (interface (port a (direction INPUT)) (port &_y (direction OUTPUT)))
   (contents (instance &_u0 (viewRef netlist (cellRef &_leaf (libraryRef work))))
    (instance &1u (viewRef netlist (cellRef &_leaf (libraryRef work))))
    (net &_n (joined (portRef a) (portRef &_i (instanceRef &_u0)) (portRef &_i (instanceRef &1u))))
    (net &_y (joined (portRef &_y) (portRef o (instanceRef &_u0))))))))
 (design top (cellRef top (libraryRef work))))
""")],
    'eblif': [('hier.eblif', """# hierarchical
.model top
.inputs a b
.outputs y z
.subckt mid i0=a i1=b o=n1
.cname u_mid0
.subckt mid i0=n1 i1=b o=y
.cname u_mid1
.names a b n1 z
111 1
.end

.model mid
.inputs i0 i1
.outputs o
.names i0 i1 o
11 1
.end
"""), ('clocked.eblif', """# a clock declaration, a .gate instance of a black box, a latch clocked by the declared clock
.model top
.inputs a b clk
.outputs y q
.clock clk
.gate and2 i0=a i1=b o=n1
.cname g0
.latch n1 q re clk 0
.cname l0
.names n1 y
1 1
.end

.model and2
.inputs i0 i1
.outputs o
.blackbox
.end
"""), ('wide.eblif', """# wide gate
.model top
.inputs i0 i1 i2 i3 i4 i5 i6 i7 i8 i9 i10 i11
.outputs y
.names i0 i1 i2 i3 i4 i5 i6 i7 i8 i9 i10 i11 y
111111111111 1
.end
""")],
}


def netlists(rng, tier, tmpdir):
    """(label, format, netlist) of netlists composable in that format"""
    nfiles = 3 if tier == 'quick' else 25
    maxb = 40000 if tier == 'quick' else 300000
    for fmt in ('edif', 'verilog', 'eblif'):
        for name, text in policy_check.sources(fmt, nfiles, maxb) + EXTRA_SOURCES.get(fmt, []):
            p = os.path.join(tmpdir, 'src' + EXT[fmt])
            open(p, 'w').write(text)
            try:
                n = sdn.parse(p)
            except Exception:
                continue
            yield (name, fmt, n)
            if fmt == 'edif':
                yield (name + '-decorated', fmt, decorate(sdn.parse(p), rng))
            if fmt == 'eblif':
                # a netlist without a name is composable in this format (and only in this one)
                n2 = sdn.parse(p)
                n2.name = None
                yield (name + '-unnamed', fmt, decorate(n2, rng))
    # hand-built hierarchies with shared dependencies (a cell is used directly and through other cells), cells
    # listed in an arbitrary order; for Verilog some never get a top instance at all
    for k in range(6 if tier == 'quick' else 40):
        fmt = 'edif' if k % 2 == 0 else 'verilog'
        cn = chains_netlist(rng, with_top=(fmt == 'edif' or k % 4 == 1))
        if k % 3 == 0:
            one_bit_buses(cn, rng)
        yield ('chains-%d%s' % (k, '-onebit' if k % 3 == 0 else ''), fmt, cn)
    ngen = 24 if tier == 'quick' else 150
    for k in range(ngen):
        fmt = ('edif', 'verilog', 'eblif')[k % 3] if k % 4 else rng.choice(['edif', 'verilog'])
        # EDIF needs acyclic library dependencies (the property's quantifier): one library
        w, ops, info = netgen.build_world(rng, depth=rng.choice([1, 2, 3]), two_libs=(fmt == 'verilog'))
        n = w.objs[info['netlist']]
        w.close()
        if rng.random() < 0.7:
            decorate(n, rng)
        label = 'netgen-%d' % k
        if fmt != 'eblif' and k % 2 == 0 and one_bit_buses(n, rng):
            label += '-onebit'
        if fmt == 'edif' and rng.random() < 0.7:
            # the cells are listed in an arbitrary order (not dependencies-first) before the EDIF writer sees them:
            # its re-ordering is a documented side effect, but it must be the same every time
            for lib in n.libraries:
                order = list(lib.definitions)
                rng.shuffle(order)
                lib.definitions = order
            label += '-shuffled'
        if fmt == 'verilog' and rng.random() < 0.3:
            # a netlist without a top instance is still written (in library order)
            n.top_instance = None
            label += '-notop'
        if fmt == 'eblif' and k % 2 == 1:      # unnamed netlists are composable in EBLIF only
            n.name = None
            label += '-unnamed'
        yield (label, fmt, n)


def chains_netlist(rng, with_top=True):
    """one library; a few chains c0 -> c1 -> ... -> leaf in which every cell also instantiates the leaf and some cell
    further down the chain directly (diamonds); a top cell instantiating every cell of every chain; the list of
    cells shuffled (for Verilog without a top: built bottom-up, never given a top instance)"""
    n = sdn.Netlist(name='chains')
    lib = n.create_library(name='work')
    leaf = lib.create_definition(name='LEAF')
    lp = leaf.create_port(name='i', pins=1)
    lp.direction = sdn.IN
    cells = []
    for c in range(rng.randint(2, 4)):
        chain = []
        prev = leaf
        for j in range(rng.randint(4, 8)):
            d = lib.create_definition(name='c%d_%d' % (c, j))
            p = d.create_port(name='i', pins=1)
            p.direction = sdn.IN
            cab = d.create_cable(name='w', wires=1)
            cab.wires[0].connect_pin(p.pins[0])
            x = d.create_child(name='next', reference=prev)
            cab.wires[0].connect_pin(x.pins[next(iter(prev.ports)).pins[0]])
            y = d.create_child(name='direct_leaf', reference=leaf)
            cab.wires[0].connect_pin(y.pins[lp.pins[0]])
            if chain and rng.random() < 0.7:
                far = rng.choice(chain)
                z = d.create_child(name='direct_far', reference=far)
                cab.wires[0].connect_pin(z.pins[next(iter(far.ports)).pins[0]])
            chain.append(d)
            prev = d
        cells += chain
    top = lib.create_definition(name='top')
    tp = top.create_port(name='i', pins=1)
    tp.direction = sdn.IN
    tc = top.create_cable(name='w', wires=1)
    tc.wires[0].connect_pin(tp.pins[0])
    for j, d in enumerate(cells):
        x = top.create_child(name='u%d' % j, reference=d)
        tc.wires[0].connect_pin(x.pins[next(iter(d.ports)).pins[0]])
    if with_top:
        n.top_instance = top
        n.top_instance.name = 'top'
        order = list(lib.definitions)
        rng.shuffle(order)
        lib.definitions = order
    return n


def check_one(label, fmt, n, opts, tmpdir, rng):
    bad = []
    opts = concrete_opts(n, opts)
    opts_before = repr(opts)
    objs, before = canon_ids(n)
    p1 = os.path.join(tmpdir, 'out1' + EXT[fmt])
    try:
        compose(n, fmt, p1, opts)
    except Exception as e:  # noqa
        if label.startswith('netgen') and fmt == 'eblif':
            return None, []      # the EBLIF writer does not accept every API-built netlist: not composable
        return None, ['compose raised %s: %s' % (type(e).__name__, str(e)[:120])]
    bad += closed_and_complete(p1, 'compose(%s)' % fmt)
    size1 = os.path.getsize(p1)
    data1 = open(p1).read()
    aobjs, after = canon_ids(n)
    bad += diff_snapshots(fmt, objs, before, aobjs, after)
    # repeatable: immediately ...
    _, before2 = canon_ids(n)
    p2 = os.path.join(tmpdir, 'out2' + EXT[fmt])
    compose(n, fmt, p2, opts)
    data2 = open(p2).read()
    if norm_text(fmt, data1) != norm_text(fmt, data2):
        bad.append('second compose gave a different text (%d vs %d bytes)' % (len(data1), len(data2)))
    _, after2 = canon_ids(n)
    if before2 != after2:
        bad.append('second compose changed the netlist again')
    # ... and after arbitrary queries
    try:
        list(sdn.get_hinstances(n, recursive=True))
        list(sdn.get_hwires(n, recursive=True))
        list(n.get_instances())
        list(n.get_cables('*'))
    except Exception:
        pass
    p3 = os.path.join(tmpdir, 'out3' + EXT[fmt])
    compose(n, fmt, p3, opts)
    if norm_text(fmt, open(p3).read()) != norm_text(fmt, data1):
        bad.append('compose after queries gave a different text')
    if repr(opts) != opts_before:
        bad.append('compose changed the option objects it was given: %s -> %s' % (opts_before, repr(opts)))
    # complete and closed when the call returns: use the composer object directly
    if fmt == 'verilog':
        from spydrnet.composers.verilog.composer import Composer
        o = dict(opts)
        c = Composer(o.get('definition_list', []), o.get('write_blackbox', True), o.get('defparam', False))
        p4 = os.path.join(tmpdir, 'out4.v')
        c.run(n, p4)
        if not c.file.closed:
            bad.append('Verilog Composer.run returned with its file still open')
        if norm_text(fmt, open(p4).read()) != norm_text(fmt, data1):
            bad.append('file written by Composer.run is incomplete when the call returns (%d bytes vs %d)' % (os.path.getsize(p4), size1))
    if fmt == 'verilog' and n.top_instance is not None:
        # the bottom-up order of the Composer interface (reverse=True; not reachable through sdn.compose): writing stays
        # pure and repeatable, the file is closed, and the same modules are written (the same lines in another order)
        _, b5 = canon_ids(n)
        texts = []
        for j in range(2):
            c = Composer(o.get('definition_list', []), o.get('write_blackbox', True), o.get('defparam', False), reverse=True)
            p5 = os.path.join(tmpdir, 'out5.v')
            c.run(n, p5)
            if not c.file.closed:
                bad.append('Verilog Composer(reverse=True).run returned with its file still open')
            texts.append(norm_text(fmt, open(p5).read()))
        if texts[0] != texts[1]:
            bad.append('second bottom-up compose gave a different text')
        if sorted(texts[0].split('\n')) != sorted(norm_text(fmt, data1).split('\n')):
            bad.append('bottom-up compose does not write the same lines as top-down compose')
        if canon_ids(n)[1] != b5:
            bad.append('bottom-up compose changed the netlist')
    if fmt == 'edif':
        try:
            sdn.parse(p1)
        except Exception as e:  # noqa
            bad.append('written file not readable: %s' % type(e).__name__)
        # both texts against the whole-file WRITER MODEL on the value of the (unchanged) netlist: the two
        # documents are emit_file of one value with two timestamps (Props/C16.v C16_emit_second_write)
        import edif_emit as ee
        for which, data in (('first', data1), ('second', data2)):
            bad += ['%s compose: %s' % (which, x) for x in ee.check_text(n, data)]
    return len(data1), bad


def run(prop, tier, seed, replay):
    t0 = time.time()
    rep = common.Reporter(prop)
    tmpdir = tempfile.mkdtemp(prefix='verif_c16_')
    try:
        ok, log = common.build_if_needed()
        proof = common.check_props_file(prop)
        if not ok or not proof['ok']:
            rep.violation('proof', {'kind': 'proof-obligation', 'theorem_file': 'coq/theories/Props/%s.v' % prop,
                                    'build_ok': ok, 'log': log[-1500:], 'coqc_output': proof['assumptions'][-1500:]}, found_input=False)
        rng = random.Random('%d/C16' % seed)
        known = common.load_known_findings(prop)
        hist = collections.Counter()
        samples, total, reported = [], 0, 0
        known_hits = collections.Counter()
        for label, fmt, n in netlists(rng, tier, tmpdir):
            for opts in OPTIONS[fmt]:
                total += 1
                size, bad = check_one(label, fmt, n, opts, tmpdir, rng)
                hist['%s/%s/%s' % (fmt, ','.join(sorted(opts)) or 'default', 'ok' if not bad else 'fail')] += 1
                if len(samples) < 4 and total % 9 == 1:
                    samples.append({'netlist': label, 'format': fmt, 'options': opts, 'bytes': size})
                for b in bad:
                    k = None
                    for kf in known:
                        if kf.get('status') == 'open' and kf.get('signature') and kf['signature'] in b:
                            k = kf
                    if k:
                        known_hits[k['id']] += 1
                    elif reported < 6:
                        reported += 1
                        rep.violation('%s-%s-%d' % (fmt, re.sub(r'\W', '_', label), total),
                                      {'kind': 'property-violation-on-implementation', 'netlist': label, 'format': fmt, 'options': opts, 'what': b})
        for kid, cnt in known_hits.items():
            kf = [x for x in known if x['id'] == kid][0]
            rep.known_finding('%s: %s (%d cases this run)' % (kid, kf.get('what'), cnt))
        wall = time.time() - t0
        theorems = proof['theorems']
        coverage = {
            'obligations': len(theorems), 'discharged': len(theorems) if (ok and proof['ok']) else 0,
            'checker_cmd': 'cd /verif && tools/build.sh && ' + proof['cmd'],
            'trusted_base': ['Coq 8.16.1 kernel; Print Assumptions: ' + ('Closed under the global context' if 'Axioms' not in proof['assumptions'] else 'see print_assumptions'),
                             'harness/purity_check.py (identity-level snapshots through the public read API + _data/_pins)'],
            'theorems': theorems, 'print_assumptions': proof['assumptions'][-2000:],
            'programs': total, 'disagreements_checked': total, 'evaluations': total, 'distinct_nontrivial': total,
            'rule': 'netlists parsed from the smallest bundled examples of each format, hand-written tiny files and netgen netlists; each composed under every option setting of its format (3 compositions + 1 direct Composer run each); all distinct (netlist, format, options) triples',
            'samples': samples or [{'note': 'none'}], 'format_option_outcome_histogram': dict(sorted(hist.items())),
            'known_finding_hits': dict(known_hits), 'exhaustive': False,
            'edif_writer_model_tie': __import__('edif_emit').summary(),
        }
        common.write_evidence(prop, tier, seed, coverage, wall, len(rep.violations),
                              ['"file complete and closed when the call returns" is OS/runtime behaviour: checked on the implementation only'])
        print('%s %s: %d (netlist, format, options) cases, %s, proof %s (%d theorems), %.1fs' % (
            prop, tier, total, dict(collections.Counter(k.split('/')[-1] for k in hist.elements())),
            'ok' if (ok and proof['ok']) else 'BROKEN', len(theorems), wall))
        return rep.exit_code()
    finally:
        shutil.rmtree(tmpdir, ignore_errors=True)
