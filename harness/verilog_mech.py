"""Engine `verilog`: correspondence of the extracted Coq models (coq/theories/Fmt/VBits.v, VExpr.v ->
ocaml/_build/driver_verilog) with the REAL helper methods of spydrnet's Verilog parser and composer, called
directly on spydrnet objects with generated inputs:

  GW      VerilogParser.get_wires_from_cable                      ~ get_wires
  BR      Composer._write_brackets                                ~ write_brackets
  DECL    Composer._write_brackets_defining                       ~ write_decl
  POP     VerilogParser.populate_new_cable                        ~ populate
  CONCAT  Composer._write_concatenation, then VerilogParser.parse_cable_concatenation on that text
                                                                  ~ write_concat / read_concat
  ALIGN   VerilogParser.parse_port_map_single / connect_implicitly_mapped_ports (pin each wire lands on)
                                                                  ~ align
  UPD     VerilogParser.create_or_update_cable / create_or_update_port call sequences
                                                                  ~ new_bundle, update_cable / update_port
  ISCAT   Composer._is_pinset_concatenated                        ~ is_pinset_concatenated
  PORT    Composer._write_instance_port, then VerilogParser.parse_port_map_single on that text
                                                                  ~ emit_port / read_port
  EXPR    VerilogParser.parse_port_map_single on an expression    ~ reader_expr (and expr_bits: the meaning)

Each case is one protocol line for the driver plus the answer computed from the real objects."""
import io, os, re, subprocess, random
import spydrnet as sdn
from spydrnet.parsers.verilog.parser import VerilogParser
from spydrnet.parsers.verilog.tokenizer import VerilogTokenizer
from spydrnet.composers.verilog.composer import Composer
import common

DRIVER = os.path.join(common.OCAML_BUILD, 'driver_verilog')


def zt(v):
    return '~' if v is None else str(v)


def mk_parser(definition=None, text=None):
    p = VerilogParser()
    p.netlist = sdn.Netlist()
    p.current_definition = definition
    if text is not None:
        p.tokenizer = VerilogTokenizer.from_string(text)
    return p


def mk_composer():
    c = Composer()
    c.file = io.StringIO()
    return c


def mk_cable(definition, name, lo, n):
    c = definition.create_cable(name)
    c.create_wires(n)
    c.lower_index = lo
    return c


def outcome(f):
    try:
        return f()
    except AssertionError:
        return 'assert'
    except IndexError:
        return 'indexerror'


# ----------------------------------------------------------------------------- individual mechanisms
def real_gw(lo, n, l, r):
    d = sdn.Definition()
    c = mk_cable(d, 'c0', lo, n)
    p = mk_parser(d)

    def run():
        ws = p.get_wires_from_cable(c, l, r)
        return 'ok ' + ' '.join(str(c.wires.index(w)) for w in ws) if ws else 'ok '
    return outcome(run).strip() if True else None


def parse_brk(txt):
    if txt == '':
        return 'none'
    m = re.fullmatch(r'\[(-?\d+):(-?\d+)\]', txt)
    if m:
        return 'range %s %s' % (m.group(1), m.group(2))
    m = re.fullmatch(r'\[(-?\d+)\]', txt)
    if m:
        return 'idx %s' % m.group(1)
    return 'unparsed ' + txt


def real_br(lo, width, low, high):
    d = sdn.Definition()
    c = mk_cable(d, 'c0', lo, width)
    comp = mk_composer()

    def run():
        comp._write_brackets(c, low, high)
        return parse_brk(comp.file.getvalue())
    return outcome(run)


def real_decl(lo, width):
    d = sdn.Definition()
    c = mk_cable(d, 'c0', lo, width)
    comp = mk_composer()

    def run():
        comp._write_brackets_defining(c)
        return parse_brk(comp.file.getvalue())
    return outcome(run)


def real_pop(l, r):
    d = sdn.Definition()
    p = mk_parser(d)
    c = d.create_cable()
    p.populate_new_cable(c, 'c0', l, r, None)
    return '%d %d' % (c.lower_index, len(c.wires))


def build_env(env):
    d = sdn.Definition()
    d.name = 'm'
    cables = [mk_cable(d, 'c%d' % k, lo, n) for k, (lo, n) in enumerate(env)]
    return d, cables


def wire_of(cables, w):
    if w is None:
        return None
    c, i = w
    return cables[c].wires[i - cables[c].lower_index]


def tok_of_real_wire(cables, w):
    c = w.cable
    return '%d:%d' % (cables.index(c), c.lower_index + c.wires.index(w))


def real_concat(env, ws):
    d, cables = build_env(env)
    comp = mk_composer()
    wires = [wire_of(cables, w) for w in ws]

    def run():
        comp._write_concatenation(wires)
        return comp.file.getvalue()
    txt = outcome(run)
    if txt == 'assert':
        return 'assert'
    inner = txt.strip()
    assert inner.startswith('{') and inner.endswith('}'), inner
    pieces = [x.strip() for x in inner[1:-1].split(',') if x.strip()]
    p = mk_parser(d, txt + ' ')
    try:
        back = ' '.join(tok_of_real_wire(cables, w) for w in p.parse_cable_concatenation())
    except Exception:  # noqa
        back = 'error'
    return ','.join(pieces) + ' | ' + back


def real_align(n, nw, positional):
    """port of n pins, expression of nw wires: which pin does wire i (MSB first) land on"""
    parent = sdn.Definition()
    parent.name = 'parent'
    src = mk_cable(parent, 'src', 0, max(nw, 1))
    ref = sdn.Definition()
    ref.name = 'leaf'
    port = ref.create_port('p')
    port.create_pins(n)
    inst = parent.create_child('u', reference=ref)
    text = 'src[%d:0]' % (nw - 1) if nw > 1 else 'src[0]'
    p = mk_parser(parent)
    p.current_instance = inst

    def run():
        if positional:
            p.implicitly_mapped_ports = {inst: ['(', 'src', '[', str(nw - 1), ':', '0', ']', ')'] if nw > 1 else ['(', 'src', '[', '0', ']', ')']}
            p.connect_implicitly_mapped_ports()
        else:
            p.tokenizer = VerilogTokenizer.from_string('.p(%s) ' % text)
            p.parse_port_map_single()
        out = []
        # wire i (MSB first) = src[nw-1-i]
        for i in range(nw):
            w = src.wires[nw - 1 - i]
            pins = [q for q in w.pins if isinstance(q, sdn.OuterPin)]
            out.append('%d>%s' % (i, ','.join(str(port.pins.index(q.inner_pin)) for q in pins)))
        return ' '.join(out)
    return outcome(run)


def real_upd(kind, l0, r0, calls):
    d = sdn.Definition()
    p = mk_parser(d)
    seen = []

    def state(b):
        items = b.wires if kind == 'cable' else b.pins
        for x in items:
            if not any(x is y for y in seen):
                seen.append(x)
        return '%d:%s' % (b.lower_index, ','.join(str(next(k for k, y in enumerate(seen) if y is x)) for x in items))
    f = p.create_or_update_cable if kind == 'cable' else p.create_or_update_port
    b = f('b', left_index=l0, right_index=r0)
    out = [state(b)]
    for l, r, dfn in calls:
        b2 = f('b', left_index=l, right_index=r, defining=bool(dfn))
        assert b2 is b
        out.append(state(b))
    return ' | '.join(out)


def real_iscat(env, name, ws):
    d, cables = build_env(env)
    port = d.create_port('p')
    port.create_pins(len(ws))
    for pin, w in zip(port.pins, ws):
        if w is not None:
            wire_of(cables, w).connect_pin(pin)
    comp = mk_composer()
    return '1' if comp._is_pinset_concatenated(port.pins, None if name is None else 'c%d' % name) else '0'


def connect_instance(env, ws):
    d, cables = build_env(env)
    ref = sdn.Definition()
    ref.name = 'leaf'
    port = ref.create_port('p')
    port.create_pins(len(ws))
    inst = d.create_child('u', reference=ref)
    for pin, w in zip(port.pins, ws):
        if w is not None:
            wire_of(cables, w).connect_pin(inst.pins[pin])
    return d, cables, ref, port, inst


def real_port(env, ws):
    d, cables, ref, port, inst = connect_instance(env, ws)
    comp = mk_composer()

    def run():
        comp._write_instance_port(inst, port)
        return comp.file.getvalue()
    txt = outcome(run)
    if txt == 'assert':
        return 'assert', None
    m = re.fullmatch(r'\s*\.p\((.*)\)\s*', txt, flags=re.S)
    assert m, txt
    inner = m.group(1).strip()
    if inner == '':
        shape = 'empty'
    elif inner.startswith('{'):
        shape = 'cat ' + ','.join(x.strip() for x in inner[1:-1].split(',') if x.strip())
    else:
        shape = 'plain ' + inner
    # read it back with the real reader on a fresh instance of the same leaf
    inst2 = d.create_child('v', reference=ref)
    p = mk_parser(d, txt + ' ')
    p.current_instance = inst2
    try:
        p.parse_port_map_single()
        got = [None] * len(ws)
        for k, pin in enumerate(port.pins):
            w = inst2.pins[pin].wire
            got[k] = None if w is None else (cables.index(w.cable), w.cable.lower_index + w.cable.wires.index(w))
        # wires MSB first as the reader listed them = connected pins from the top
        back = ' '.join('%d:%d' % g for g in reversed(got) if g is not None)
        same = got == list(ws)
    except Exception:  # noqa
        back, same = 'error', False
    return shape + ' | ' + back, same


def expr_text(x):
    if x[0] == 'cat':
        return '{' + ', '.join(expr_text(a) for a in x[1]) + '}'
    if x[0] == 'id':
        return 'c%d' % x[1]
    if x[0] == 'bit':
        return 'c%d[%d]' % (x[1], x[2])
    return 'c%d[%d:%d]' % (x[1], x[2], x[3])


def expr_cmd(x):
    if x[0] == 'cat':
        return 'cat %d %s' % (len(x[1]), ' '.join(expr_cmd(a) for a in x[1]))
    return ' '.join(str(v) for v in x)


def real_expr(env, x, n):
    """connect .p(expr) to a port of n pins; answer: wires as listed MSB first + per pin k the wire (meaning)"""
    d, cables = build_env(env)
    ref = sdn.Definition()
    ref.name = 'leaf'
    port = ref.create_port('p')
    port.create_pins(n)
    inst = d.create_child('u', reference=ref)
    p = mk_parser(d, '.p(%s) ' % expr_text(x))
    p.current_instance = inst
    try:
        p.parse_port_map_single()
    except (IndexError, AssertionError):
        return None
    if [(c.lower_index, len(c.wires)) for c in cables] != [tuple(e) for e in env] or len(port.pins) != n:
        return None     # the expression reached outside a cable or the port: the reader grew it (not this model's case)
    lsb = []
    for pin in port.pins:
        w = inst.pins[pin].wire
        if w is None:
            break
        lsb.append('%d:%d' % (cables.index(w.cable), w.cable.lower_index + w.cable.wires.index(w)))
    return 'ok ' + ' '.join(reversed(lsb)) + ' | ' + ' '.join(lsb)


def real_elect(mods):
    """mods: [(id, is_cell, [instantiated ids])] in file order -> the module the real reader elects as top"""
    import verilog_oracles as O
    out = []
    for mid, cell, insts in mods:
        body = ''.join('  m%d u%d_%d();\n' % (r, mid, k) for k, r in enumerate(insts))
        t = 'module m%d();\n%sendmodule\n' % (mid, body if not cell else '  wire skipped;\n')
        out.append('`celldefine\n%s`endcelldefine\n' % t if cell else t)
    n = O.parse_text(''.join(out))
    top = n.top_instance
    return 'top %s' % (top.reference.name[1:] if top is not None and top.reference is not None else '~')


def real_assign(env, lhs, rhs):
    d, cables = build_env(env)
    p = mk_parser(d)

    def lr(a):
        if a[0] == 'id':
            return cables[a[1]], None, None
        if a[0] == 'bit':
            return cables[a[1]], a[2], None
        return cables[a[1]], a[2], a[3]
    lc, ll, lrr = lr(lhs)
    rc, rl, rr = lr(rhs)
    try:
        p.connect_wires_for_assign(lc, ll, lrr, rc, rl, rr)
    except (IndexError, AssertionError):
        return None
    inst = d.children[0]
    o = next(x for x in inst.reference.ports if x.name == 'o')
    i = next(x for x in inst.reference.ports if x.name == 'i')
    pins = ' '.join('%s=%s' % (tok_of_real_wire(cables, inst.pins[a].wire), tok_of_real_wire(cables, inst.pins[b].wire))
                    for a, b in zip(o.pins, i.pins))
    comp = mk_composer()

    def pins_of(defn, cabs):
        inst = defn.children[0]
        o = next(x for x in inst.reference.ports if x.name == 'o')
        i = next(x for x in inst.reference.ports if x.name == 'i')
        return ' '.join('%s=%s' % (tok_of_real_wire(cabs, inst.pins[a].wire), tok_of_real_wire(cabs, inst.pins[b].wire))
                        for a, b in zip(o.pins, i.pins))

    def run():
        comp._write_assignment(inst)
        t = comp.file.getvalue().strip()
        assert t.startswith('assign ') and t.endswith(';'), t
        # the real reader on the statement just written, in a fresh copy of the module
        d2, cables2 = build_env(env)
        p2 = mk_parser(d2, t)
        try:
            p2.connect_wires_for_assign(*p2.parse_assign())
            back = pins_of(d2, cables2)
        except (IndexError, AssertionError):
            back = 'error'
        return t[len('assign '):-1].replace(' ', '') + ' | ' + back
    return pins + ' | ' + outcome(run)


# ----------------------------------------------------------------------------- generation
def gen_env(rng, k=None):
    k = k or rng.randrange(1, 4)
    return [(rng.choice([0, 0, 0, 1, 2, 5, -1, -3]), rng.choice([1, 1, 2, 3, 4, 6, 8])) for _ in range(k)]


def rnd_wire(rng, env):
    c = rng.randrange(len(env))
    lo, n = env[c]
    return (c, rng.randrange(lo, lo + n))


def gen_wirelist(rng, env, m, p_none=0.1):
    """runs (descending, ascending), repeats, jumps, gaps"""
    out = []
    while len(out) < m:
        kind = rng.random()
        if kind < p_none:
            out.append(None)
            continue
        c, i = rnd_wire(rng, env)
        lo, n = env[c]
        if kind < 0.5:
            run = rng.randrange(1, 5)
            step = rng.choice([-1, -1, -1, 1])
            for k in range(run):
                j = i + step * k
                if lo <= j < lo + n and len(out) < m:
                    out.append((c, j))
        else:
            out.append((c, i))
    return out[:m]


def env_str(env):
    return '%d %s' % (len(env), ' '.join('%d %d' % e for e in env))


def wl_str(ws):
    return '%d %s' % (len(ws), ' '.join('~' if w is None else '%d:%d' % w for w in ws))


ALL_KINDS = ['GW', 'GW', 'BR', 'BR', 'DECL', 'POP', 'CONCAT', 'CONCAT', 'ALIGN', 'UPD', 'UPD', 'UPD', 'ISCAT',
             'PORT', 'PORT', 'EXPR', 'EXPR', 'ASSIGN']
READER_KINDS = ['GW', 'GW', 'POP', 'ALIGN', 'ALIGN', 'UPD', 'UPD', 'UPD', 'EXPR', 'EXPR', 'EXPR', 'ELECT']   # C06: reader only


def gen_case(rng, kinds=None):
    """-> (kind, driver command line, answer of the implementation) ; None when the case is outside the model"""
    kind = rng.choice(kinds or ALL_KINDS)
    if kind == 'GW':
        lo = rng.choice([0, 0, 1, 3, -2, 7])
        n = rng.randrange(1, 9)
        mode = rng.random()
        if mode < 0.6:
            a, b = sorted([rng.randrange(lo, lo + n), rng.randrange(lo, lo + n)])
            l, r = (b, a) if rng.random() < 0.8 else (a, b)
        elif mode < 0.8:
            l, r = rng.randrange(lo, lo + n), None
            if rng.random() < 0.3:
                l, r = r, l
        elif mode < 0.9:
            l, r = None, None
        else:   # out of range on purpose (IndexError / clamped slice / negative wrap)
            l = rng.randrange(lo - 3, lo + n + 3)
            r = rng.choice([None, rng.randrange(lo - 3, lo + n + 3)])
        return kind, 'GW %d %d %s %s' % (lo, n, zt(l), zt(r)), real_gw(lo, n, l, r)
    if kind == 'BR':
        lo = rng.choice([0, 0, 1, 3, -2, 7])
        w = rng.randrange(1, 8)
        pick = lambda: rng.choice([None, lo, lo + w - 1, rng.randrange(lo - 1, lo + w + 1)])
        low, high = pick(), pick()
        return kind, 'BR %d %d %s %s' % (lo, w, zt(low), zt(high)), real_br(lo, w, low, high)
    if kind == 'DECL':
        lo = rng.choice([0, 0, 1, 3, -2, 7])
        w = rng.randrange(1, 8)
        return kind, 'DECL %d %d' % (lo, w), real_decl(lo, w)
    if kind == 'POP':
        l = rng.choice([None, rng.randrange(-3, 9)])
        r = rng.choice([None, rng.randrange(-3, 9)])
        return kind, 'POP %s %s' % (zt(l), zt(r)), real_pop(l, r)
    if kind == 'CONCAT':
        env = gen_env(rng)
        ws = gen_wirelist(rng, env, rng.randrange(0, 10))
        return kind, 'CONCAT %s %s' % (env_str(env), wl_str(ws)), real_concat(env, ws)
    if kind == 'ALIGN':
        n = rng.randrange(1, 9)
        nw = rng.randrange(1, n + 1)
        ans = real_align(n, nw, rng.random() < 0.4)
        return kind, 'ALIGN %d %s %d' % (n, ' '.join(str(k) for k in range(n)), nw), ans
    if kind == 'UPD':
        which = rng.choice(['cable', 'port'])
        based = which == 'port' and rng.random() < 0.5

        def rr():
            if based:
                return rng.randrange(0, 7), 0
            m = rng.random()
            if m < 0.6:
                a, b = rng.randrange(-3, 10), rng.randrange(-3, 10)
                return (max(a, b), min(a, b)) if rng.random() < 0.8 else (min(a, b), max(a, b))
            if m < 0.8:
                return rng.randrange(-3, 10), None
            if m < 0.9:
                return None, rng.randrange(-3, 10)
            return None, None
        l0, r0 = rr()
        calls = []
        for _ in range(rng.randrange(1, 6)):
            l, r = rr()
            calls.append((l, r, 1 if rng.random() < 0.2 else 0))
        cmd = 'UPD %s %s %s %s' % (which, zt(l0), zt(r0), ' '.join('%s %s %d' % (zt(l), zt(r), dd) for l, r, dd in calls))
        return kind, cmd, real_upd(which, l0, r0, calls)
    if kind == 'ISCAT':
        env = gen_env(rng)
        ws = gen_port_wires(rng, env)
        name = rng.choice([None, ws[0][0] if ws and ws[0] is not None else None, rng.randrange(len(env))])
        return kind, 'ISCAT %s %s' % (zt(name), wl_str(ws)), real_iscat(env, name, ws)
    if kind == 'PORT':
        env = gen_env(rng)
        ws = gen_port_wires(rng, env, shape_inv=rng.random() < 0.8)
        ans, same = real_port(env, ws)
        return kind, 'PORT %s %s' % (env_str(env), wl_str(ws)), ans
    if kind == 'ELECT':
        k = rng.randrange(1, 7)
        ids = list(range(k))
        level = ids[:]
        rng.shuffle(level)          # level[0] is the root; a module instantiates modules later in `level`
        mods = {}
        for pos, m in enumerate(level):
            later = level[pos + 1:]
            mods[m] = [rng.choice(later) for _ in range(rng.randrange(0, 3))] if later else []
        for pos in range(1, k):     # everything below the root is instantiated by someone above it
            if not any(level[pos] in mods[level[q]] for q in range(pos)):
                mods[level[rng.randrange(pos)]].append(level[pos])
        order = ids[:]
        rng.shuffle(order)
        cells = set(m for m in ids if not mods[m] and m != level[0] and rng.random() < 0.2)
        doc = [(m, m in cells, mods[m]) for m in order]
        cmd = 'ELECT %d %s' % (k, ' '.join('%d %d %d %s' % (m, 1 if c else 0, len(i), ' '.join(map(str, i))) for m, c, i in doc))
        return kind, ' '.join(cmd.split()), real_elect(doc)
    if kind == 'ASSIGN':
        env = gen_env(rng, 2)

        def side(c):
            lo, n = env[c]
            m = rng.random()
            if m < 0.25:
                return ('id', c)
            if m < 0.5:
                return ('bit', c, rng.randrange(lo, lo + n))
            a, b = sorted([rng.randrange(lo, lo + n), rng.randrange(lo, lo + n)])
            return ('part', c, b, a)
        lhs, rhs = side(0), side(rng.randrange(2))
        ans = real_assign(env, lhs, rhs)
        if ans is None:
            return None
        return kind, 'ASSIGN %s %s %s' % (env_str(env), expr_cmd(lhs), expr_cmd(rhs)), ans
    if kind == 'EXPR':
        env = gen_env(rng)

        def atom():
            c = rng.randrange(len(env))
            lo, n = env[c]
            m = rng.random()
            if m < 0.3:
                return ('id', c)
            if m < 0.6:
                return ('bit', c, rng.randrange(lo, lo + n))
            a, b = sorted([rng.randrange(lo, lo + n), rng.randrange(lo, lo + n)])
            return ('part', c, b, a)
        x = atom() if rng.random() < 0.5 else ('cat', [atom() for _ in range(rng.randrange(1, 4))])
        width = sum(atom_width(env, a) for a in (x[1] if x[0] == 'cat' else [x]))
        n = width + rng.randrange(0, 3)
        ans = real_expr(env, x, n)
        if ans is None:
            return None
        return kind, 'EXPR %s %s' % (env_str(env), expr_cmd(x)), ans
    raise ValueError(kind)


def atom_width(env, a):
    if a[0] == 'id':
        return env[a[1]][1]
    if a[0] == 'bit':
        return 1
    return a[2] - a[3] + 1


def gen_port_wires(rng, env, shape_inv=False):
    """wires of a port's pins in port order: runs of one cable, mixes, repeats; unconnected pins"""
    n = rng.randrange(1, 8)
    m = rng.random()
    if m < 0.45:
        c = rng.randrange(len(env))
        lo, w = env[c]
        k = rng.randrange(1, min(n, w) + 1)
        start = rng.randrange(lo, lo + w - k + 1)
        ws = [(c, start + j) for j in range(k)]
    else:
        ws = [rnd_wire(rng, env) for _ in range(rng.randrange(0, n + 1))]
    ws = ws + [None] * (n - len(ws))
    if not shape_inv and rng.random() < 0.5:
        rng.shuffle(ws)
    return ws[:n]


def run_model(lines):
    r = subprocess.run([DRIVER], input='\n'.join(lines) + '\n', capture_output=True, text=True)
    if r.returncode != 0:
        raise RuntimeError('driver_verilog failed: ' + r.stderr[-500:])
    return r.stdout.split('\n')[:len(lines)]


def norm(ans):
    return ' '.join(ans.split())


def correspondence(seed, n, kinds=None):
    """-> (number of cases, histogram of kinds/outcomes, list of disagreements)"""
    cases = []
    c = 0
    while len(cases) < n:
        rng = random.Random('%d/verilog-mech/%d' % (seed, c))
        c += 1
        g = gen_case(rng, kinds)
        if g is not None:
            cases.append((c - 1,) + g)
    model = run_model([x[2] for x in cases])
    hist = {}
    bad = []
    for (cid, kind, cmd, ans), m in zip(cases, model):
        a, b = norm(ans), norm(m)
        if kind == 'ELECT' and b.startswith('cands') and a.startswith('top '):
            # the reader picks from a Python set: the model lists every top the procedure can reach
            cands = b.split()[1:]
            if a.split()[1] in cands:
                b = a
        oc = 'assert' if a == 'assert' else ('indexerror' if a == 'indexerror' else 'ok')
        hist['%s/%s' % (kind, oc)] = hist.get('%s/%s' % (kind, oc), 0) + 1
        if a != b:
            bad.append({'case': cid, 'kind': kind, 'command': cmd, 'impl': a, 'model': b})
    return len(cases), hist, bad


def port_roundtrip_oracle(seed, n):
    """C04 at the level of one instance port, on the implementation only: connect, write with
    _write_instance_port, read back with parse_port_map_single: every pin carries the same wire (ports whose
    unconnected pins are at the high end = the shape the reader produces)."""
    bad = []
    for c in range(n):
        rng = random.Random('%d/verilog-port/%d' % (seed, c))
        env = gen_env(rng)
        ws = gen_port_wires(rng, env, shape_inv=True)
        ans, same = real_port(env, ws)
        if same is not True:
            bad.append({'case': c, 'env': env, 'wires': ws, 'written | read back': ans})
    return n, bad
