(* MODEL: eblif_model *)
(* Line-protocol driver for the extracted EBLIF reader/writer model (engine "eblif").
   stdin :  "doc" starts a document, every following "L tok tok ..." is one line of tokens
            (a token = comma-separated code points, "-" = empty token), "end" runs the case.
   stdout:  four lines per case
              E <json dump of elab d | {"error": kind}>
              W <emit of that netlist: lines separated by ';', tokens by ' '>   (or "W !" on error)
              R <json dump of elab (emit n)>                                   (or "R !")
              P <supported d> <roundtrippable n> <equiv_b n (elab (emit n))> <supported (emit n)>
                                                                                (1 / 0; "-" when there is no n)
            the last line carries the predicates of BlifSpec the theorems of Props/C18.v are stated with:
            the harness classifies every document by them
   Detached cables (m_orphans) are printed only when one of their wires still holds a pin: the
   implementation side can reach them through those pins only.
   Trusted glue: parsing of the protocol and printing only. *)
open Eblif_model

let rec int_of_nat = function O -> 0 | S n -> 1 + int_of_nat n
let rec int_of_pos = function XH -> 1 | XO p -> 2 * int_of_pos p | XI p -> 2 * int_of_pos p + 1
let rec pos_of_int n = if n <= 1 then XH else if n land 1 = 0 then XO (pos_of_int (n lsr 1)) else XI (pos_of_int (n lsr 1))
let n_of_int n = if n = 0 then N0 else Npos (pos_of_int n)
let int_of_n = function N0 -> 0 | Npos p -> int_of_pos p

let str_of_tok t = if t = "-" then [] else List.map (fun x -> n_of_int (int_of_string x)) (String.split_on_char ',' t)
let tok_of_str s = if s = [] then "-" else String.concat "," (List.map (fun c -> string_of_int (int_of_n c)) s)

(* JSON string of a code-point list (ASCII expected; anything else as \uXXXX) *)
let js (s : str) =
  let b = Buffer.create 16 in
  Buffer.add_char b '"';
  List.iter (fun c ->
    let c = int_of_n c in
    if c = 34 then Buffer.add_string b "\\\""
    else if c = 92 then Buffer.add_string b "\\\\"
    else if c >= 32 && c < 127 then Buffer.add_char b (Char.chr c)
    else Buffer.add_string b (Printf.sprintf "\\u%04x" c)) s;
  Buffer.add_char b '"';
  Buffer.contents b

let jlist f l = "[" ^ String.concat "," (List.map f l) ^ "]"
let jopt f = function None -> "null" | Some x -> f x
let jint n = string_of_int (int_of_nat n)
let raw (s : str) = String.concat "" (List.map (fun c -> String.make 1 (Char.chr ((int_of_n c) land 255))) s)

let dir_s = function DIn -> "\"IN\"" | DOut -> "\"OUT\"" | DInout -> "\"INOUT\"" | DUndef -> "\"UNDEFINED\""
let kind_s = function KSub -> "\"EBLIF.subckt\"" | KGate -> "\"EBLIF.gate\"" | KNames -> "\"EBLIF.names\"" | KLatch -> "\"EBLIF.latch\""
let lib_s = function LNone -> "\"none\"" | LWork -> "\"work\"" | LPrim -> "\"hdi_primitives\""

let pin_s = function
  | PTop (p, b) -> "TOP." ^ raw p ^ "." ^ string_of_int (int_of_nat b)
  | PInst (i, p, b) -> "I" ^ string_of_int (int_of_nat i) ^ "." ^ raw p ^ "." ^ string_of_int (int_of_nat b)

let jstr_raw s =
  let b = Buffer.create 16 in
  Buffer.add_char b '"';
  String.iter (fun ch ->
    let c = Char.code ch in
    if c = 34 then Buffer.add_string b "\\\""
    else if c = 92 then Buffer.add_string b "\\\\"
    else if c >= 32 && c < 127 then Buffer.add_char b ch
    else Buffer.add_string b (Printf.sprintf "\\u%04x" c)) s;
  Buffer.add_char b '"';
  Buffer.contents b

let wire_j (w : pinref list) = jlist jstr_raw (List.sort compare (List.map pin_s w))
let cable_j c = "[" ^ js c.c_name ^ "," ^ jlist wire_j c.c_wires ^ "]"
let kv_j (k, v) = "[" ^ js k ^ "," ^ js v ^ "]"
let cover_s (a, b) = a @ [n_of_int 32] @ (match b with Some x -> x | None -> [])

let inst_j i =
  "{\"name\":" ^ jopt js i.i_name ^ ",\"ref\":" ^ js i.i_ref ^ ",\"type\":" ^ kind_s i.i_kind
  ^ ",\"cname\":" ^ jopt js i.i_cname
  ^ ",\"attr\":" ^ jlist kv_j i.i_attr ^ ",\"param\":" ^ jlist kv_j i.i_param
  ^ ",\"covers\":" ^ (match i.i_kind with KNames -> jlist (fun c -> js (cover_s c)) i.i_covers | _ -> "null")
  ^ ",\"unconn\":" ^ (match i.i_unconn with [] -> "null" | l -> jlist js l)
  ^ ",\"pins\":" ^ jlist (fun (p, b) -> "[" ^ js p ^ "," ^ jint b ^ "]") i.i_pins ^ "}"

let model_j m =
  js m.m_name ^ ":{\"lib\":" ^ lib_s m.m_lib
  ^ ",\"ports\":" ^ jlist (fun q -> "[" ^ js q.p_name ^ "," ^ dir_s q.p_dir ^ "," ^ jint q.p_width ^ "]") m.m_ports
  ^ ",\"clock\":" ^ jopt (jlist js) m.m_clock
  ^ ",\"insts\":" ^ jlist inst_j m.m_insts
  ^ ",\"cables\":" ^ jlist cable_j m.m_cables
  ^ ",\"orphans\":" ^ jlist (fun x -> x) (List.sort compare (List.map cable_j
        (List.filter (fun c -> List.exists (fun w -> w <> []) c.c_wires) m.m_orphans))) ^ "}"

let comment_s toks = List.concat (List.map (fun t -> t @ [n_of_int 32]) toks)

let bnv_j n =
  "{\"top\":" ^ jopt (fun (a, b) -> "[" ^ js a ^ "," ^ js b ^ "]") n.b_top
  ^ ",\"name\":" ^ jopt js n.b_name
  ^ ",\"comments\":" ^ jlist (fun c -> js (comment_s c)) n.b_comments
  ^ ",\"work\":" ^ jlist js n.b_work
  ^ ",\"prim\":" ^ jlist (fun x -> x) (List.sort compare (List.map js n.b_prim))
  ^ ",\"models\":{" ^ String.concat "," (List.map model_j n.b_models) ^ "}}"

let err_s = function
  | EOutside -> "outside" | EAssert -> "AssertionError" | EValue -> "ValueError" | EKey -> "KeyError"
  | EIndex -> "IndexError" | EStop -> "StopIteration" | EAttr -> "AttributeError"

let res_j = function Ok n -> bnv_j n | Error e -> "{\"error\":\"" ^ err_s e ^ "\"}"

let doc_s (d : str list list) =
  String.concat ";" (List.map (fun l -> String.concat " " (List.map tok_of_str l)) d)

let b01 = function true -> "1" | false -> "0"

let run_case (d : str list list) =
  let r = elab d in
  print_string "E "; print_endline (res_j r);
  let sup = b01 (supported d) in
  (match r with
   | Ok n ->
     let w = emit n in
     print_string "W "; print_endline (doc_s w);
     let r2 = elab w in
     print_string "R "; print_endline (res_j r2);
     let chk = (match r2 with Ok n2 -> b01 (equiv_b n n2) | Error _ -> "0") in
     print_endline ("P " ^ sup ^ " " ^ b01 (roundtrippable n) ^ " " ^ chk ^ " " ^ b01 (supported w))
   | Error _ -> print_endline "W !"; print_endline "R !"; print_endline ("P " ^ sup ^ " - - -"));
  flush stdout

let () =
  let cur = ref [] in
  try
    while true do
      let l = input_line stdin in
      if l = "doc" then cur := []
      else if l = "end" then run_case (List.rev !cur)
      else if String.length l >= 1 && l.[0] = 'L' then begin
        let toks = List.filter (fun t -> t <> "") (String.split_on_char ' ' (String.sub l 1 (String.length l - 1))) in
        cur := List.map str_of_tok toks :: !cur
      end
    done
  with End_of_file -> ()
