(* MODEL: query_model *)
(* Line-protocol driver for the extracted query models (engine "query", property C13).
   stdin : one request per line, space-separated tokens; stdout: one answer line per request.
   Strings: "-" = empty, otherwise comma-separated code points; "~" = None. Booleans: 1 / 0.
     M ic ir pat val          -> T | F | U     value_matches (U: pattern outside the regex fragment)
     MB ic ir pat v1 .. vn    -> a string of T/F/U, one per value
     A ic ir pat              -> T | F         is_pattern_absolute
     G pat val                -> T | F         glob_match
     X s                      -> string        re_escape_str
     E ci s val               -> T | F         rmatch ci (regex_escape s) val
     P ci s val               -> T | F         rmatch ci (regex_prefix s) val
     Q ic ir nk bk  <pats> <keys> <parents> <others>   -> ids   run_query
     N ic ir <pats> <keys> <objs>                      -> ids   run_netlists
     H ic ir <pats> <names> <refs-in-order> <in_yield> -> ids   run_hier
   <pats> = n p1..pn ; <keys> = n (id val)* ; <parents> = n (mode m c1..cm)* with mode s|l|n ;
   id lists = n i1..in ; bk = f | k | d.
   Trusted glue: parsing and printing only. *)
open Query_model

let rec nat_of_int n = if n <= 0 then O else S (nat_of_int (n - 1))
let rec int_of_nat = function O -> 0 | S n -> 1 + int_of_nat n
let rec pos_of_int n = if n <= 1 then XH else if n land 1 = 0 then XO (pos_of_int (n lsr 1)) else XI (pos_of_int (n lsr 1))
let rec int_of_pos = function XH -> 1 | XO p -> 2 * int_of_pos p | XI p -> 2 * int_of_pos p + 1
let n_of_int n = if n = 0 then N0 else Npos (pos_of_int n)
let int_of_n = function N0 -> 0 | Npos p -> int_of_pos p

let str_of_tok t = if t = "-" then [] else List.map (fun x -> n_of_int (int_of_string x)) (String.split_on_char ',' t)
let tok_of_str s = if s = [] then "-" else String.concat "," (List.map (fun c -> string_of_int (int_of_n c)) s)
let optstr_of_tok t = if t = "~" then None else Some (str_of_tok t)
let bool_of_tok t = (t = "1")
let tf b = if b then "T" else "F"

let take_list toks conv = match toks with
  | c :: rest ->
    let n = int_of_string c in
    let rec go k acc l = if k = 0 then (List.rev acc, l) else match l with x :: l' -> go (k - 1) (conv x :: acc) l' | [] -> failwith "short list" in
    go n [] rest
  | [] -> failwith "missing count"

let take_pairs toks conv = match toks with
  | c :: rest ->
    let n = int_of_string c in
    let rec go k acc l = if k = 0 then (List.rev acc, l) else match l with a :: b :: l' -> go (k - 1) ((int_of_string a, conv b) :: acc) l' | _ -> failwith "short pairs" in
    go n [] rest
  | [] -> failwith "missing count"

let ids_out l = if l = [] then "-" else String.concat "," (List.map (fun i -> string_of_int (int_of_nat i)) l)

let keyfun pairs = fun (i : nat) -> (try List.assoc (int_of_nat i) pairs with Not_found -> None)

let handle line =
  match String.split_on_char ' ' line with
  | ["M"; ic; ir; p; v] ->
    (match value_matches (optstr_of_tok v) (str_of_tok p) (bool_of_tok ic) (bool_of_tok ir) with
     | Some b -> tf b | None -> "U")
  | "MB" :: ic :: ir :: p :: vals ->
    let pat = str_of_tok p and icb = bool_of_tok ic and irb = bool_of_tok ir in
    String.concat "" (List.map (fun v ->
        match value_matches (optstr_of_tok v) pat icb irb with
        | Some b -> tf b | None -> "U") vals)
  | ["A"; ic; ir; p] -> tf (is_pattern_absolute (str_of_tok p) (bool_of_tok ic) (bool_of_tok ir))
  | ["G"; p; v] -> tf (glob_match (str_of_tok p) (str_of_tok v))
  | ["X"; s] -> tok_of_str (re_escape_str (str_of_tok s))
  | ["E"; ci; s; v] -> tf (rmatch (bool_of_tok ci) (regex_escape (str_of_tok s)) (str_of_tok v))
  | ["P"; ci; s; v] -> tf (rmatch (bool_of_tok ci) (regex_prefix (str_of_tok s)) (str_of_tok v))
  | "Q" :: ic :: ir :: nk :: bk :: rest ->
    let pats, rest = take_list rest str_of_tok in
    let keys, rest = take_pairs rest optstr_of_tok in
    let key = keyfun keys in
    let nparents, rest = (match rest with c :: r -> (int_of_string c, r) | [] -> failwith "parents") in
    let rec parents k acc l =
      if k = 0 then (List.rev acc, l) else
        match l with
        | mode :: l' ->
          let ch, l'' = take_list l' (fun x -> nat_of_int (int_of_string x)) in
          let lk = (match mode with
              | "s" -> scan_lookup key ch
              | "l" -> lookup_lower key ch
              | "n" -> lookup_none
              | _ -> failwith "bad lookup mode") in
          parents (k - 1) ((lk, ch) :: acc) l''
        | [] -> failwith "short parents" in
    let ps, rest = parents nparents [] rest in
    let others, _ = take_list rest (fun x -> nat_of_int (int_of_string x)) in
    let bkv = (match bk with "f" -> BFound | "k" -> BNames false | "d" -> BNames true | _ -> failwith "bad bk") in
    ids_out (run_query (bool_of_tok ic) (bool_of_tok ir) key (bool_of_tok nk) bkv ps others pats)
  | "N" :: ic :: ir :: rest ->
    let pats, rest = take_list rest str_of_tok in
    let keys, rest = take_pairs rest optstr_of_tok in
    let objs, _ = take_list rest (fun x -> nat_of_int (int_of_string x)) in
    ids_out (run_netlists (bool_of_tok ic) (bool_of_tok ir) (keyfun keys) objs pats)
  | "H" :: ic :: ir :: rest ->
    let pats, rest = take_list rest str_of_tok in
    let names, rest = take_pairs rest str_of_tok in
    let hname = fun (i : nat) -> (try List.assoc (int_of_nat i) names with Not_found -> []) in
    let refs, rest = take_list rest (fun x -> nat_of_int (int_of_string x)) in
    let iny, _ = take_list rest (fun x -> nat_of_int (int_of_string x)) in
    ids_out (run_hier (bool_of_tok ic) (bool_of_tok ir) hname refs iny pats)
  | _ -> "ERR bad request"

let () =
  try
    while true do
      let line = input_line stdin in
      let out = (try handle line with Failure m -> "ERR " ^ m | Not_found -> "ERR notfound" | Invalid_argument m -> "ERR " ^ m) in
      print_string out; print_char '\n'
    done
  with End_of_file -> ()
